(* C16 - Bitcoin withdrawals conserve value and pay each proposal exactly once.
   Executable model of the withdrawal-transaction builder of the BTC executor and of the UTXO
   ordering of the mempool client.  Definitions only; proofs are in Proofs/C16.v.

   Source anchors (Go):
     chains/btc/mempool/mempool.go   Utxos: JSON listing, sort.Slice by (block_time, txid [, vout])
     chains/btc/executor/executor.go rawTx / outputs / inputs / fee
   [raw_tx], [less] model the REPAIRED code (branch fix-C16: fee-aware sufficiency test, vout
   tie-break); [old_raw_tx], [old_less] model the code as found (kept for the refutation theorems).

   Fixed-width arithmetic is written out: every uint64 operation of the Go code is followed by [u64]
   (mod 2^64), the int64 casts of output values by [i64] (two's complement). *)
From Coq Require Import List ZArith NArith Bool.
Import ListNotations.
Local Open Scope Z_scope.

Definition two63 : Z := 9223372036854775808.
Definition two64 : Z := 18446744073709551616.
Definition u64 (x : Z) : Z := x mod two64.
Definition i64 (x : Z) : Z := if x <? two63 then x else x - two64.   (* int64(x) for x in [0,2^64) *)

(* ---------------------------------------------------------------------------------------------- *)
(* Byte strings (bytes are N), Go's string comparison. *)

Fixpoint str_ltb (a b : list N) : bool :=
  match a, b with
  | _, [] => false
  | [], _ :: _ => true
  | x :: a', y :: b' => if (x <? y)%N then true else if (y <? x)%N then false else str_ltb a' b'
  end.

Fixpoint str_eqb (a b : list N) : bool :=
  match a, b with
  | [], [] => true
  | x :: a', y :: b' => (x =? y)%N && str_eqb a' b'
  | _, _ => false
  end.

(* ---------------------------------------------------------------------------------------------- *)
(* UTXOs as listed by the mempool service, and their ordering. *)

Record utxo := mkUtxo { u_txid : list N; u_vout : Z; u_value : Z; u_time : Z }.

(* mempool.go as found: equal (block_time, txid) are not ordered *)
Definition old_less (a b : utxo) : bool :=
  if u_time a =? u_time b then str_ltb (u_txid a) (u_txid b) else u_time a <? u_time b.

(* repaired: ties broken by vout *)
Definition less (a b : utxo) : bool :=
  if negb (u_time a =? u_time b) then u_time a <? u_time b
  else if negb (str_eqb (u_txid a) (u_txid b)) then str_ltb (u_txid a) (u_txid b)
  else u_vout a <? u_vout b.

(* Stable insertion sort: what sort.Slice computes for up to 12 elements; for a strict total order
   on distinct elements every sorting algorithm computes this list (Proofs: sort_unique). *)
Section Sort.
  Variable lt : utxo -> utxo -> bool.
  Fixpoint insert (x : utxo) (l : list utxo) : list utxo :=
    match l with
    | [] => [x]
    | y :: r => if lt y x then y :: insert x r else x :: y :: r
    end.
  Fixpoint utxo_sort (l : list utxo) : list utxo :=
    match l with
    | [] => []
    | x :: r => insert x (utxo_sort r)
    end.
End Sort.

(* chainhash.NewHashFromStr: at most 64 hex digits (either case), left-padded with zeros. *)
Definition in_range (lo hi c : N) : bool := ((lo <=? c) && (c <=? hi))%N.
Definition is_hex (c : N) : bool := in_range 48 57 c || in_range 97 102 c || in_range 65 70 c.
Definition txid_valid (t : list N) : bool := (length t <=? 64)%nat && forallb is_hex t.
Definition lower (c : N) : N := if in_range 65 70 c then (c + 32)%N else c.
Definition canon (t : list N) : list N := repeat 48%N (64 - length t) ++ map lower t.
Definition outpoint (u : utxo) : list N * Z := (canon (u_txid u), u_vout u).
Definition raw_outpoint (u : utxo) : list N * Z := (u_txid u, u_vout u).

(* ---------------------------------------------------------------------------------------------- *)
(* Proposals and scripts. Address decoding (base58check / bech32) is btcutil's; the case gives the
   address class and its payload, the model builds the script from the standard templates. *)

Inductive rkind := P2PKH | P2SH | P2WPKH | P2WSH | P2TR | P2PK.
Inductive recipient := Valid (k : rkind) (h : list N) | Invalid.
Record prop := mkProp { p_amount : Z; p_rcpt : recipient }.

Definition script_of (k : rkind) (h : list N) : list N :=
  match k with
  | P2PKH => [118; 169; 20] ++ h ++ [136; 172]
  | P2SH => [169; 20] ++ h ++ [135]
  | P2WPKH => [0; 20] ++ h
  | P2WSH => [0; 32] ++ h
  | P2TR => [81; 32] ++ h
  | P2PK => [33] ++ h ++ [172]
  end%N.

(* txscript.NullDataScript ("syg_" ++ cid): OP_RETURN + canonical push, at most 80 bytes of data *)
Definition op_return (cid : list N) : option (list N) :=
  let d := ([115; 121; 103; 95] ++ cid)%N in
  let n := length d in
  if (80 <? n)%nat then None
  else Some (106%N :: (if (n <? 76)%nat then [N.of_nat n] else [76%N; N.of_nat n]) ++ d).

Definition txout := (Z * list N)%type.

(* the output that pays proposal [p] (its amount, to the script of its recipient) *)
Definition pay (p : prop) : txout :=
  match p_rcpt p with
  | Valid k h => (p_amount p, script_of k h)
  | Invalid => (p_amount p, [])
  end.

(* outputs(): one output per proposal in order; the running total is a uint64 *)
Fixpoint pay_outputs (ps : list prop) (acc : Z) : option (list txout * Z) :=
  match ps with
  | [] => Some ([], acc)
  | p :: r =>
      match p_rcpt p with
      | Invalid => None
      | Valid k h =>
          match pay_outputs r (u64 (acc + p_amount p)) with
          | None => None
          | Some (os, tot) => Some ((i64 (p_amount p), script_of k h) :: os, tot)
          end
      end
  end.

(* fee(): (inputs*180 + outputs*34) * ((rate/5)*5 + 5), all uint64 *)
Definition fee (n_in n_out rate : Z) : Z :=
  u64 (u64 (u64 (n_in * 180) + u64 (n_out * 34)) * u64 (u64 ((rate / 5) * 5) + 5)).

(* the same formula without wrap-around: "the relayer's own fee quote for that shape" *)
Definition fee_quote (n_in n_out rate : Z) : Z := (n_in * 180 + n_out * 34) * ((rate / 5) * 5 + 5).

(* inputs(): take UTXOs in order until the running total is strictly above the target *)
Fixpoint select (l : list utxo) (target acc : Z) : option (Z * list utxo) :=
  match l with
  | [] => Some (acc, [])
  | u :: r =>
      if negb (txid_valid (u_txid u)) then None
      else
        let acc' := u64 (acc + u_value u) in
        if acc' >? target then Some (acc', [u])
        else match select r target acc' with
             | None => None
             | Some (a, us) => Some (a, u :: us)
             end
  end.

Record tx := mkTx { t_ins : list (list N * Z); t_outs : list txout; t_used : list utxo }.
Inductive result := Err | Tx (t : tx).

Definition len {A} (l : list A) : Z := Z.of_nat (length l).

Section Build.
  Variable lt : utxo -> utxo -> bool.
  Variable fee_aware : bool.   (* true: repaired sufficiency test *)

  (* [listing] is the UTXO list in the order the service returned it. *)
  Definition raw_tx_gen (ps : list prop) (listing : list utxo) (rate : Z) (bridge : list N)
             (cid : list N) (upload_ok : bool) : result :=
    match pay_outputs ps 0 with
    | None => Err
    | Some (pays, out_amount) =>
        if negb upload_ok then Err else
        match op_return cid with
        | None => Err
        | Some meta =>
            let n := len ps in
            let fee_est := fee n n rate in
            match select (utxo_sort lt listing) (u64 (out_amount + fee_est)) 0 with
            | None => Err
            | Some (in_amount, used) =>
                let f := fee (len used) (u64 (n + 1)) rate in
                if (if fee_aware then in_amount <? u64 (out_amount + f) else in_amount <? out_amount)
                then Err
                else
                  let ret := u64 (u64 (in_amount - f) - out_amount) in
                  let change := if ret >? 0 then [(i64 ret, bridge)] else [] in
                  Tx (mkTx (map outpoint used) (pays ++ [(0, meta)] ++ change) used)
            end
        end
    end.
End Build.

Definition raw_tx := raw_tx_gen less true.
Definition old_raw_tx := raw_tx_gen old_less false.

(* ---------------------------------------------------------------------------------------------- *)
(* Well-formed inputs (what the generator produces and the theorems assume): nothing overflows.   *)

Fixpoint sumZ (l : list Z) : Z := match l with [] => 0 | x :: r => x + sumZ r end.
Definition amounts (ps : list prop) : Z := sumZ (map p_amount ps).
Definition values (us : list utxo) : Z := sumZ (map u_value us).

Fixpoint nodupb {A} (eqb : A -> A -> bool) (l : list A) : bool :=
  match l with
  | [] => true
  | x :: r => negb (existsb (eqb x) r) && nodupb eqb r
  end.
Definition op_eqb (a b : list N * Z) : bool := str_eqb (fst a) (fst b) && (snd a =? snd b).

Definition wf (ps : list prop) (us : list utxo) (rate : Z) : bool :=
  forallb (fun p => 0 <=? p_amount p) ps
  && forallb (fun u => (0 <=? u_value u) && (0 <=? u_vout u) && (0 <=? u_time u)) us
  && (0 <=? rate)
  && (amounts ps + values us + fee_quote (len us + len ps) (len ps + 1) rate <? two63)
  && nodupb op_eqb (map outpoint us).

(* ---------------------------------------------------------------------------------------------- *)
(* The specification as a boolean predicate on what a builder returned (the judge of the
   correspondence run).  Outputs are compared as a multiset: the property fixes no output order. *)

Definition txout_eqb (a b : txout) : bool := (fst a =? fst b) && str_eqb (snd a) (snd b).

Fixpoint remove_first {A} (f : A -> bool) (l : list A) : option (list A) :=
  match l with
  | [] => None
  | x :: r => if f x then Some r
              else match remove_first f r with None => None | Some r' => Some (x :: r') end
  end.

(* remove, for every proposal, one output paying exactly its amount to its recipient *)
Fixpoint remove_pays (ps : list prop) (outs : list txout) : option (list txout) :=
  match ps with
  | [] => Some outs
  | p :: r =>
      match p_rcpt p with
      | Invalid => None
      | Valid k h =>
          match remove_first (txout_eqb (p_amount p, script_of k h)) outs with
          | None => None
          | Some outs' => remove_pays r outs'
          end
      end
  end.

Definition is_meta (o : txout) : bool :=
  (fst o =? 0) && match snd o with 106%N :: _ => true | _ => false end.

(* look the inputs up in the bridge's UTXO set; every UTXO at most once *)
Fixpoint lookup_ins (ins : list (list N * Z)) (us : list utxo) : option (list utxo) :=
  match ins with
  | [] => Some []
  | i :: r =>
      match find (fun u => op_eqb (outpoint u) i) us with
      | None => None
      | Some u => match lookup_ins r us with None => None | Some l => Some (u :: l) end
      end
  end.

(* [quote] is the relayer's own fee quote for the shape of this transaction (number of inputs,
   proposals + metadata output): the value of its real fee() function, observed by the runner. *)
Definition tx_ok (ps : list prop) (us : list utxo) (bridge : list N)
           (ins : list (list N * Z)) (outs : list txout) (quote : Z) : bool :=
  match remove_pays ps outs with
  | None => false
  | Some rest =>
      match remove_first is_meta rest with
      | None => false
      | Some rest' =>
          (match rest' with
           | [] => true
           | [c] => str_eqb (snd c) bridge
           | _ => false
           end)
          && forallb (fun o => 0 <=? fst o) outs
          && nodupb op_eqb ins
          && match lookup_ins ins us with
             | None => false
             | Some used => values used - sumZ (map fst outs) =? quote
             end
      end
  end.

Definition all_valid (ps : list prop) : bool :=
  forallb (fun p => match p_rcpt p with Invalid => false | _ => true end) ps.

(* "cannot cover amounts plus fee": even all UTXOs together miss the quote for a single input *)
Definition cannot_cover (ps : list prop) (us : list utxo) (rate : Z) : bool :=
  values us <? amounts ps + fee_quote 1 (len ps + 1) rate.

(* what one run of the builder is judged on: None = no transaction, else (inputs, outputs, quote) *)
Definition run_res := option (list (list N * Z) * list txout * Z).

Definition spec_one (ps : list prop) (us : list utxo) (bridge : list N) (r : run_res) : bool :=
  match r with
  | None => true
  | Some (ins, outs, quote) => all_valid ps && (0 <=? quote) && tx_ok ps us bridge ins outs quote
  end.

Fixpoint list_eqb {A} (eqb : A -> A -> bool) (a b : list A) : bool :=
  match a, b with
  | [], [] => true
  | x :: a', y :: b' => eqb x y && list_eqb eqb a' b'
  | _, _ => false
  end.

Definition res_eqb (a b : run_res) : bool :=
  match a, b with
  | None, None => true
  | Some (i, o, q), Some (i', o', q') => list_eqb op_eqb i i' && list_eqb txout_eqb o o' && (q =? q')
  | _, _ => false
  end.

(* several runs over listings of the same UTXO set: each obeys the spec, and all are the same *)
Definition spec_all (ps : list prop) (us : list utxo) (bridge : list N) (rs : list run_res) : bool :=
  forallb (spec_one ps us bridge) rs
  && match rs with [] => true | r0 :: rest => forallb (res_eqb r0) rest end.

Definition project (ps : list prop) (rate : Z) (r : result) : run_res :=
  match r with
  | Err => None
  | Tx t => Some (t_ins t, t_outs t, fee_quote (len (t_ins t)) (len ps + 1) rate)
  end.

(* ---------------------------------------------------------------------------------------------- *)
(* Round 3: from the deposit MESSAGE to the proposal (message-handler.go ERC20MessageHandler).

   bigAmount := new(big.Int).SetBytes(amount)        -- non-negative, any size (18 decimals)
   bigAmount.Div(bigAmount, 10^10)                   -- Euclidean = floor division (the remainder,
                                                        less than one satoshi, is dropped)
   Amount: bigAmount.Uint64()                        -- the low 64 bits of the quotient

   So the proposal amount is the exact floor quotient as long as it fits a uint64, i.e. for message
   amounts below 2^64 * 10^10 (the whole Bitcoin supply is 2.1e15 sat = 2.1e25 base units); beyond
   that the quotient wraps (as coded). *)
Definition ten10 : Z := 10000000000.
Definition msg_limit : Z := two64 * ten10.
Definition handler_amount (m : Z) : Z := u64 (m / ten10).

(* hypothesis of the message-step theorems: amounts are non-negative (big.Int.SetBytes) *)
Definition msgs_wf (ms : list Z) : bool := forallb (fun m => 0 <=? m) ms.

Definition with_amounts (ps : list prop) (amts : list Z) : list prop :=
  map (fun pa => mkProp (snd pa) (p_rcpt (fst pa))) (combine ps amts).

(* judge of the message step: one proposal per message, and (below the limit) its amount is the
   message amount scaled down by 10^10 exactly as the handler specifies (floor) *)
Definition amounts_ok (ms impl : list Z) : bool :=
  (length ms =? length impl)%nat
  && forallb (fun ma => if fst ma <? msg_limit then snd ma =? fst ma / ten10 else true) (combine ms impl).

(* ---------------------------------------------------------------------------------------------- *)
(* Round 3: Executor.Execute - one delivery, several resources.

   propsPerResource[prop.Data.ResourceId] = append(propsPerResource[...], prop)  for every proposal
   that still needs execution, then ONE goroutine per map entry builds the transaction of that
   resource from that entry's proposals (executeResourceProps(props, e.resources[resourceID], ..)).
   [groups] is that map as an association list in first-occurrence order (Go iterates the map in
   random order; the runner sorts what it observed by first member, and deposit nonces are the
   delivery positions, so first-occurrence order IS that canonical order). *)
Record eprop := mkE { e_nonce : N; e_rid : N }.

Fixpoint add_to (p : eprop) (gs : list (N * list N)) : list (N * list N) :=
  match gs with
  | [] => [(e_rid p, [e_nonce p])]
  | g :: t => if (fst g =? e_rid p)%N then (fst g, snd g ++ [e_nonce p]) :: t else g :: add_to p t
  end.

(* the proposals of resource [r], in delivery order *)
Definition members (r : N) (ps : list eprop) : list N :=
  map e_nonce (filter (fun p => (e_rid p =? r)%N) ps).

Definition groups (ps : list eprop) : list (N * list N) := fold_left (fun gs p => add_to p gs) ps [].

(* judge: what was observed of one run of Execute = per transaction built the resource it was built
   for and the deposit nonces of the proposals it pays.  Every proposal of the delivery is paid by
   exactly one transaction, that transaction is the one of its resource, and nothing else is paid. *)
Definition occ (n : N) (obs : list (N * list N)) : nat :=
  fold_right (fun g a => (count_occ N.eq_dec (snd g) n + a)%nat) 0%nat obs.
Definition total (obs : list (N * list N)) : nat :=
  fold_right (fun g a => (length (snd g) + a)%nat) 0%nat obs.

Definition exec_ok (ps : list eprop) (obs : list (N * list N)) : bool :=
  forallb (fun p => (occ (e_nonce p) obs =? 1)%nat
                    && existsb (fun g => (fst g =? e_rid p)%N && existsb (N.eqb (e_nonce p)) (snd g)) obs) ps
  && (total obs =? length ps)%nat.

Definition nonces_distinct (ps : list eprop) : bool := nodupb N.eqb (map e_nonce ps).

(* ---------------------------------------------------------------------------------------------- *)
(* Round 4: HISTORIES of builds on one long-lived Executor.

   The Executor lives as long as the relayer; rawTx reads, of the Executor, only configuration
   (mempool client, uploader, chain parameters): it keeps nothing from one build to the next.  Every
   build asks the service for the CURRENT fee rate and the CURRENT UTXO set.  So the result of a build
   is [build_one] of its own inputs, whatever was built - or failed to build - before.

   b_svc = false: the UTXO / fee service fails during this build (HTTP error, unparsable answer):
   rawTx returns that error. *)
Record build := mkBuild { b_ps : list prop; b_listing : list utxo; b_rate : Z; b_cid : list N;
                          b_up : bool; b_svc : bool }.

Definition build_one (bridge : list N) (b : build) : result :=
  if b_svc b then raw_tx (b_ps b) (b_listing b) (b_rate b) bridge (b_cid b) (b_up b) else Err.

(* the builds of a history, in order, on one Executor *)
Definition build_run (bridge : list N) (bs : list build) : list result := map (build_one bridge) bs.

(* what is judged of one build of a history: its proposals, the bridge's UTXO set at that moment, and
   the runs over it (the long-lived Executor's, then a fresh Executor's on the same inputs), each with
   the relayer's own quote for its shape AT THE CURRENT RATE (real fee() of a fresh Executor) *)
Definition build_obs : Type := (list prop * list utxo * list run_res)%type.

Definition seq_spec (bridge : list N) (obs : list build_obs) : bool :=
  forallb (fun o => spec_all (fst (fst o)) (snd (fst o)) bridge (snd o)) obs.

Definition build_wf (b : build) : bool := wf (b_ps b) (b_listing b) (b_rate b).

(* the model's observation of a history: long-lived result = the one of [build_run], fresh = [build_one] *)
Definition model_build_obs (bridge : list N) (bs : list build) : list build_obs :=
  map (fun br => (b_ps (fst br), b_listing (fst br),
                  [project (b_ps (fst br)) (b_rate (fst br)) (snd br);
                   project (b_ps (fst br)) (b_rate (fst br)) (build_one bridge (fst br))]))
      (combine bs (build_run bridge bs)).

(* ---------------------------------------------------------------------------------------------- *)
(* Round 5: duplicate and overlapping proposals - which proposals of a delivery are paid.

   A delivery handed to Executor.Execute may list the same deposit more than once (a retried deposit
   delivered together with the original), and deliveries may overlap.  The deposit a proposal pays is
   identified by (source domain, deposit nonce) - the destination is this executor's own domain;
   that is the key under which the Executor records the status of a proposal (store.PropStore).

   proposalsForExecution (under propMutex), per proposal in delivery order:
       isExecuted: the recorded status is anything but missing / failed  -> skip it
       else record it pending and select it
   so the second copy of a deposit inside ONE delivery already finds the first one pending.  [st] is
   the list of deposits recorded so far (pending or executed; nothing fails in this part).

   Execute then groups the selected proposals per resource (first-occurrence order here, the runner
   sorts what it observes) and builds one transaction per group: rawTx of that group's proposals. *)
Record dprop := mkD { d_src : N; d_nonce : N; d_rid : N; d_pay : prop }.
Definition dkey : Type := (N * N)%type.
Definition key_of (p : dprop) : dkey := (d_src p, d_nonce p).
Definition key_eqb (a b : dkey) : bool := (fst a =? fst b)%N && (snd a =? snd b)%N.
Definition has_key (k : dkey) (st : list dkey) : bool := existsb (key_eqb k) st.

Section Dedup.
  Context {A K : Type} (kf : A -> K) (keqb : K -> K -> bool).
  (* keep the first element of every key that is not in [seen] *)
  Fixpoint dedup_on (seen : list K) (l : list A) : list A :=
    match l with
    | [] => []
    | x :: r => if existsb (keqb (kf x)) seen then dedup_on seen r
                else x :: dedup_on (kf x :: seen) r
    end.
End Dedup.

(* proposalsForExecution: the proposals selected from delivery [ps] when [st] is recorded *)
Definition select_props (st : list dkey) (ps : list dprop) : list dprop := dedup_on key_of key_eqb st ps.

(* resources of the selected proposals, and the group of one resource (delivery order) *)
Definition rids_of (sel : list dprop) : list N := map d_rid (dedup_on d_rid N.eqb [] sel).
Definition group_of (r : N) (sel : list dprop) : list dprop := filter (fun p => (d_rid p =? r)%N) sel.
Definition dgroups (sel : list dprop) : list (N * list dprop) := map (fun r => (r, group_of r sel)) (rids_of sel).

(* deliveries handled one after the other on one Executor: what each selects *)
Fixpoint serial (st : list dkey) (dels : list (list dprop)) : list (list dprop) :=
  match dels with
  | [] => []
  | d :: r => let sel := select_props st d in sel :: serial (map key_of sel ++ st) r
  end.
Definition serial_groups (st : list dkey) (dels : list (list dprop)) : list (N * list dprop) :=
  flat_map dgroups (serial st dels).

(* the bridge script of resource r (1-based) *)
Definition bridge_of (keys : list (list N)) (r : N) : list N := script_of P2TR (nth (N.to_nat r - 1) keys []).

(* What is observed of one transaction: the resource it is built for, the deposits its metadata
   lists (source, nonce) and - where the runner lets the build complete - the transaction. *)
Definition dtx : Type := (N * list dkey * option run_res)%type.

Definition model_dtx (keys : list (list N)) (us : list utxo) (rate : Z) (cid : list N) (with_tx : bool)
           (g : N * list dprop) : dtx :=
  let ps := map d_pay (snd g) in
  (fst g, map key_of (snd g),
   if with_tx then Some (project ps rate (raw_tx ps us rate (bridge_of keys (fst g)) cid true)) else None).

(* ---- the judge.  [ps] = all proposals delivered.  Every transaction: lists no deposit twice, lists
   only deposits that were delivered, all of its own resource, and (if observed) obeys the
   per-transaction specification [spec_one] for exactly the proposals it lists - one output per listed
   proposal, the metadata output, at most one change output, conservation.  All transactions of ONE
   delivery together ([strict]): no deposit twice.  And every delivered deposit is paid - unless
   nothing at all was built (the statement is about transactions that are built). *)
Definition all_metas (obs : list dtx) : list dkey := flat_map (fun o => snd (fst o)) obs.
Definition lookup_key (ps : list dprop) (k : dkey) : option dprop := find (fun p => key_eqb (key_of p) k) ps.
Fixpoint lookup_keys (ps : list dprop) (ks : list dkey) : option (list dprop) :=
  match ks with
  | [] => Some []
  | k :: r => match lookup_key ps k, lookup_keys ps r with
              | Some p, Some l => Some (p :: l)
              | _, _ => None
              end
  end.

Definition dtx_ok (ps : list dprop) (keys : list (list N)) (us : list utxo) (o : dtx) : bool :=
  nodupb key_eqb (snd (fst o))
  && match lookup_keys ps (snd (fst o)) with
     | None => false
     | Some gps =>
         forallb (fun p => (d_rid p =? fst (fst o))%N) gps
         && match snd o with
            | None => true
            | Some t => spec_one (map d_pay gps) us (bridge_of keys (fst (fst o))) t
            end
     end.

Definition dup_body (strict : bool) (ps : list dprop) (keys : list (list N)) (us : list utxo) (obs : list dtx) : bool :=
  (if strict then nodupb key_eqb (all_metas obs) else true)
  && forallb (fun p => has_key (key_of p) (all_metas obs)) ps
  && forallb (dtx_ok ps keys us) obs.

Definition dup_ok (strict : bool) (ps : list dprop) (keys : list (list N)) (us : list utxo) (obs : list dtx) : bool :=
  match obs with [] => true | _ => dup_body strict ps keys us obs end.

(* the deliveries the generator produces: copies of one deposit agree in everything (so "the proposal
   of a deposit" is well defined whatever copy is taken) *)
Definition rkind_eqb (a b : rkind) : bool :=
  match a, b with
  | P2PKH, P2PKH | P2SH, P2SH | P2WPKH, P2WPKH | P2WSH, P2WSH | P2TR, P2TR | P2PK, P2PK => true
  | _, _ => false
  end.
Definition rcpt_eqb (a b : recipient) : bool :=
  match a, b with
  | Invalid, Invalid => true
  | Valid k h, Valid k' h' => rkind_eqb k k' && str_eqb h h'
  | _, _ => false
  end.
Definition dprop_eqb (p q : dprop) : bool :=
  key_eqb (key_of p) (key_of q) && (d_rid p =? d_rid q)%N
  && (p_amount (d_pay p) =? p_amount (d_pay q)) && rcpt_eqb (p_rcpt (d_pay p)) (p_rcpt (d_pay q)).
Definition consistent (ps : list dprop) : bool :=
  forallb (fun p => forallb (fun q => negb (key_eqb (key_of p) (key_of q)) || dprop_eqb p q) ps) ps.

(* hypothesis of the judge theorem where transactions are observed: every group is a well-formed
   input of the builder *)
Definition groups_wf (gs : list (N * list dprop)) (us : list utxo) (rate : Z) : bool :=
  forallb (fun g => wf (map d_pay (snd g)) us rate) gs.
