(* C13 - only topology members get a connection; only an announced topology is adopted; the sender
   of a message is the authenticated remote peer.  Executable model; definitions only, proofs are in
   Proofs/C13.v.

   Source anchors (Go):
     allowed             topology/topology.go       NetworkTopology.IsAllowedPeer
     intercept_*         comm/p2p/gater.go          ConnectionGate.Intercept{PeerDial,Secured,AddrDial,Accept,Upgraded}
     trim_nl, hex_decode topology/topology.go       strings.TrimSuffix(body, "\n"), hex.DecodeString
     provider            topology/topology.go       TopologyProvider.NetworkTopology(hash)
                                                    (hash check skipped for hash = ""; Decrypt slices ct[:16])
     decrypt             topology/encryption.go     AESEncryption.Decrypt            (Section variable)
     parse               topology/topology.go       json.Unmarshal + ProcessRawTopology (Section variable)
     H                   crypto/sha256 + hex        (Section variable; instantiated with Lib.C13_Sha256 in the run)
     refresh             chains/evm/listener/eventHandlers/tss.go  RefreshEventHandler.HandleEvents
                         topology/store.go StoreTopology, comm/p2p/gater.go SetTopology, comm/p2p/host.go LoadPeers
     deliver             comm/p2p/libp2p.go ProcessMessagesFromStream (From := s.Conn().RemotePeer());
                         comm/communication.go WrappedMessage.From has json:"-"                       *)
From Coq Require Import List NArith ZArith Bool String Ascii.
Import ListNotations.
Local Open Scope string_scope.
Local Open Scope N_scope.
Local Open Scope list_scope.

(* ---- topologies and the connection gate ---- *)

(* a peer: its id (text form) and the transport address of its multiaddress, if it has one *)
Record peer := mk_peer { p_id : string; p_addr : option string }.
Record topo := mk_topo { t_peers : list peer; t_thr : Z }.

Definition allowed (t : topo) (p : string) : bool :=
  existsb (fun q => String.eqb (p_id q) p) (t_peers t).

Inductive direction := DirUnknown | DirInbound | DirOutbound.

Definition intercept_peer_dial (g : topo) (p : string) : bool := allowed g p.
Definition intercept_secured (g : topo) (d : direction) (p : string) : bool := allowed g p.
(* the three remaining hooks do not decide anything: membership is checked on dial and after the
   handshake, when the remote identity is known *)
Definition intercept_addr_dial (g : topo) (p addr : string) : bool := true.
Definition intercept_accept (g : topo) : bool := true.
Definition intercept_upgraded (g : topo) : bool := true.

(* ---- bytes ---- *)

Definition bytes := list N.

Definition trim_nl (b : bytes) : bytes :=
  match rev b with
  | 10 :: r => rev r
  | _ => b
  end.

Definition hexval1 (c : N) : option N :=
  if (48 <=? c) && (c <=? 57) then Some (c - 48)
  else if (97 <=? c) && (c <=? 102) then Some (c - 87)
  else if (65 <=? c) && (c <=? 70) then Some (c - 55)
  else None.

(* hex.DecodeString: odd length or a non-hex byte is an error *)
Fixpoint hex_decode (b : bytes) : option bytes :=
  match b with
  | [] => Some []
  | [_] => None
  | a :: c :: r =>
      match hexval1 a, hexval1 c, hex_decode r with
      | Some x, Some y, Some l => Some (x * 16 + y :: l)
      | _, _, _ => None
      end
  end.

Definition aes_block : nat := 16.

(* ---- state: the topology file, the gate's topology, the peerstore's (id, address) entries ---- *)

Record state := mk_state { stored : option topo; gate : topo; pstore : list (string * string) }.

(* LoadPeers after clearing: AddAddr(p.ID, p.Addrs[0]) for each peer in order; a peer without an
   address makes the index expression panic - the peers before it are already loaded *)
Fixpoint load_peers (ps : list peer) : list (string * string) * bool :=
  match ps with
  | [] => ([], true)
  | p :: r =>
      match p_addr p with
      | None => ([], false)
      | Some a => let '(l, ok) := load_peers r in ((p_id p, a) :: l, ok)
      end
  end.

Definition adopted (t : topo) : state := mk_state (Some t) t (fst (load_peers (t_peers t))).

(* one HandleEvents call: the hashes of the Refresh events of the block range, what the fetch of the
   topology URL returns, and whether the topology file can be written *)
Record event := mk_event { ev_hashes : list string; ev_fetch_ok : bool; ev_body : bytes; ev_store_ok : bool }.

Inductive presult := POk (t : topo) | PErr | PPanic.

Inductive outcome :=
| NoEvent        (* no Refresh event in the range *)
| EmptyHash      (* the handler refuses an empty hash *)
| Rejected       (* the provider returned an error *)
| PanicDecrypt   (* ciphertext shorter than one AES block: Decrypt panics (not recovered) *)
| StoreFailed
| Adopted
| PanicLoad.     (* adopted, then LoadPeers panics on a peer without address (not recovered) *)

Fixpoint last_opt {A} (l : list A) : option A :=
  match l with
  | [] => None
  | [x] => Some x
  | _ :: r => last_opt r
  end.

Section Refresh.
  Variable H : bytes -> string.          (* lower-case hex of the SHA-256 of the ciphertext *)
  Variable decrypt : bytes -> bytes.     (* AES-CTR, applied only to at least one block *)
  Variable parse : bytes -> option topo. (* JSON + ProcessRawTopology *)

  Definition provider (hash : string) (fetch_ok : bool) (body : bytes) : presult :=
    if negb fetch_ok then PErr else
    match hex_decode (trim_nl body) with
    | None => PErr
    | Some ct =>
        if negb (String.eqb hash "") && negb (String.eqb (H ct) hash) then PErr
        else if Nat.ltb (List.length ct) aes_block then PPanic
        else match parse (decrypt ct) with
             | Some t => POk t
             | None => PErr
             end
    end.

  Definition refresh (st : state) (ev : event) : state * outcome :=
    match last_opt (ev_hashes ev) with
    | None => (st, NoEvent)
    | Some h =>
        if String.eqb h "" then (st, EmptyHash) else
        match provider h (ev_fetch_ok ev) (ev_body ev) with
        | PErr => (st, Rejected)
        | PPanic => (st, PanicDecrypt)
        | POk t =>
            if negb (ev_store_ok ev) then (st, StoreFailed)
            else (adopted t, if snd (load_peers (t_peers t)) then Adopted else PanicLoad)
        end
    end.

  Definition run_refresh (st : state) (evs : list event) : state :=
    fold_left (fun s ev => fst (refresh s ev)) evs st.

  (* the condition under which the property allows the stored topology / admission list to change *)
  Definition announced (ev : event) (t : topo) : Prop :=
    exists h ct,
      last_opt (ev_hashes ev) = Some h /\ h <> "" /\
      hex_decode (trim_nl (ev_body ev)) = Some ct /\
      H ct = h /\ parse (decrypt ct) = Some t.

  (* the same as a boolean, for the judge *)
  Definition announced_topo (ev : event) : option topo :=
    match last_opt (ev_hashes ev) with
    | None => None
    | Some h =>
        if String.eqb h "" then None else
        match hex_decode (trim_nl (ev_body ev)) with
        | None => None
        | Some ct => if String.eqb (H ct) h then parse (decrypt ct) else None
        end
    end.
End Refresh.

(* ---- equality tests for observations ---- *)

Definition opt_str_eqb (a b : option string) : bool :=
  match a, b with
  | None, None => true
  | Some x, Some y => String.eqb x y
  | _, _ => false
  end.

Definition peer_eqb (a b : peer) : bool :=
  String.eqb (p_id a) (p_id b) && opt_str_eqb (p_addr a) (p_addr b).

Fixpoint peers_eqb (a b : list peer) : bool :=
  match a, b with
  | [], [] => true
  | x :: a', y :: b' => peer_eqb x y && peers_eqb a' b'
  | _, _ => false
  end.

Definition topo_eqb (a b : topo) : bool := peers_eqb (t_peers a) (t_peers b) && Z.eqb (t_thr a) (t_thr b).

Definition opt_topo_eqb (a b : option topo) : bool :=
  match a, b with
  | None, None => true
  | Some x, Some y => topo_eqb x y
  | _, _ => false
  end.

Definition pair_eqb (a b : string * string) : bool :=
  String.eqb (fst a) (fst b) && String.eqb (snd a) (snd b).

Definition pair_mem (x : string * string) (l : list (string * string)) : bool := existsb (pair_eqb x) l.

(* the peerstore is a set of (id, address) entries *)
Definition subset (a b : list (string * string)) : bool := forallb (fun x => pair_mem x b) a.
Definition set_eqb (a b : list (string * string)) : bool := subset a b && subset b a.

Fixpoint bools_eqb (a b : list bool) : bool :=
  match a, b with
  | [], [] => true
  | x :: a', y :: b' => Bool.eqb x y && bools_eqb a' b'
  | _, _ => false
  end.

(* ---- what the runner observes of a state: the topology file (read back), the gate's verdicts on a
   fixed list of probe peers (dial and post-handshake), the peerstore entries ---- *)

Record view := mk_view { v_stored : option topo; v_dial : list bool; v_secured : list bool;
                         v_pstore : list (string * string) }.

Definition view_of (probes : list string) (st : state) : view :=
  mk_view (stored st) (map (intercept_peer_dial (gate st)) probes)
          (map (intercept_secured (gate st) DirInbound) probes) (pstore st).

Definition view_eqb (a b : view) : bool :=
  opt_topo_eqb (v_stored a) (v_stored b) && bools_eqb (v_dial a) (v_dial b) &&
  bools_eqb (v_secured a) (v_secured b) && set_eqb (v_pstore a) (v_pstore b).

Definition peer_pairs (t : topo) : list (string * string) :=
  flat_map (fun p => match p_addr p with Some a => [(p_id p, a)] | None => [] end) (t_peers t).

(* The specification as a boolean on two consecutive observations: either nothing changed, or the
   event announced a valid topology t (hash of the fetched ciphertext = announced hash, decrypts and
   parses to t) and every component is either as before or the one of t: the file holds t, the gate
   decides by membership in t, the peerstore got no entry that is not one of t. *)
Definition step_ok (probes : list string) (ann : option topo) (before after : view) : bool :=
  view_eqb before after ||
  match ann with
  | Some t =>
      (opt_topo_eqb (v_stored before) (v_stored after) || opt_topo_eqb (v_stored after) (Some t)) &&
      (bools_eqb (v_dial before) (v_dial after) || bools_eqb (v_dial after) (map (allowed t) probes)) &&
      (bools_eqb (v_secured before) (v_secured after) ||
       bools_eqb (v_secured after) (map (allowed t) probes)) &&
      subset (v_pstore after) (v_pstore before ++ peer_pairs t)
  | None => false
  end.

(* The topology file and the admission list name the same members: "the current topology" is one
   thing.  Whenever the file can be read, every probe peer is admitted (on dial and after the
   handshake) exactly if it is a member of the stored topology - for every topology, also the
   degenerate ones (no peers, one peer, duplicated peers, threshold at or above the number of
   peers).  Nothing is demanded while the file cannot be read; the peerstore is not part of it. *)
Definition store_gate_agree (probes : list string) (v : view) : bool :=
  match v_stored v with
  | Some t => bools_eqb (v_dial v) (map (allowed t) probes) &&
              bools_eqb (v_secured v) (map (allowed t) probes)
  | None => true
  end.

(* one handled refresh, as the judge sees it: the step is allowed, and file and gate agree afterwards *)
Definition step_spec (probes : list string) (ann : option topo) (before after : view) : bool :=
  step_ok probes ann before after && store_gate_agree probes after.

(* ---- sender attribution ---- *)

Record wire := mk_wire { w_type : N; w_session : string; w_payload : bytes; w_claimed_from : option string }.
Record delivered := mk_delivered { d_type : N; d_session : string; d_payload : bytes; d_from : string }.

(* whatever the JSON carried (including any From / from / FROM member), the delivered message is
   attributed to the remote peer of the secured connection *)
Definition deliver (remote : string) (w : wire) : delivered :=
  mk_delivered (w_type w) (w_session w) (w_payload w) remote.
