(* C14 - EVM batches partition the pending proposals and carry their own gas; one session id per batch.
   Executable model of chains/evm/executor/executor.go, DEFINITIONS ONLY (proofs: Proofs/C14.v).

   Source anchors (Go):
     batches   Executor.proposalBatches  running uint64 gas sum, roll-over to a new batch at the cap
     signed    Executor.Execute          `for i, batch := range batches { if len(batch.proposals)==0 {continue} ...`
     sid       Executor.Execute          sessionID := fmt.Sprintf("%s-%d", messageID, i)
     tx_of     Executor.executeBatch     TransactOptions{GasLimit: batch.gasLimit}, proposals = batch.proposals

   [batches]/[sessions] follow the REPAIRED code (fix-C14: "account a proposal's gas to the batch it is
   placed in", "give every batch its own session id"); [old_batches]/[old_sessions] are the code as it
   was (gas added before the roll-over decision; the goroutines share the per-loop variable i, go 1.21
   semantics, so every batch is signed under <mid>-<last index>). *)
From Coq Require Import List NArith Bool String.
From SygmaV Require Import Lib.C14_Dec.
Import ListNotations.
Local Open Scope N_scope.

Record prop := mkprop { pid : N; plimit : option N; pexec : bool }.
Record batch := mkbatch { members : list prop; gas : N }.

(* uint64 arithmetic is written out *)
Definition two64 : N := 18446744073709551616.
Definition w64 (x : N) : N := x mod two64.

(* gas allowance of one proposal: transfer gas plus the per-proposal limit if present; [allowance] is
   the mathematical value, [pgas] what `l.(uint64) + e.transferGasCost` computes *)
Definition allowance (tg : N) (p : prop) : N :=
  match plimit p with Some l => l + tg | None => tg end.
Definition pgas (tg : N) (p : prop) : N := w64 (allowance tg p).

Definition empty_batch : batch := mkbatch [] 0.

(* repaired proposalBatches: decide, then account *)
Fixpoint go (cap tg : N) (ps : list prop) (done : list batch) (cur : batch) : list batch :=
  match ps with
  | [] => rev (cur :: done)
  | p :: r =>
      if pexec p then go cap tg r done cur else
      let g := pgas tg p in
      if cap <=? w64 (gas cur + g)
      then go cap tg r (cur :: done) (mkbatch [p] (w64 (0 + g)))
      else go cap tg r done (mkbatch (members cur ++ [p]) (w64 (gas cur + g)))
  end.
Definition batches (cap tg : N) (ps : list prop) : list batch := go cap tg ps [] empty_batch.

(* proposalBatches as it was: account, then decide; the batch left behind keeps the sum, the new
   batch starts at 0 *)
Fixpoint old_go (cap tg : N) (ps : list prop) (done : list batch) (cur : batch) : list batch :=
  match ps with
  | [] => rev (cur :: done)
  | p :: r =>
      if pexec p then old_go cap tg r done cur else
      let s := w64 (gas cur + pgas tg p) in
      if cap <=? s
      then old_go cap tg r (mkbatch (members cur) s :: done) (mkbatch [p] 0)
      else old_go cap tg r done (mkbatch (members cur ++ [p]) s)
  end.
Definition old_batches (cap tg : N) (ps : list prop) : list batch := old_go cap tg ps [] empty_batch.

(* ---- what is signed, and under which session id ---- *)

Definition is_nil {A} (l : list A) : bool := match l with [] => true | _ => false end.

(* positions (from [i]) and elements of the entries that are signed: the empty ones are skipped *)
Fixpoint signed_from {A B} (mem : A -> list B) (i : N) (bs : list A) : list (N * A) :=
  match bs with
  | [] => []
  | b :: r => if is_nil (mem b) then signed_from mem (i + 1) r else (i, b) :: signed_from mem (i + 1) r
  end.
Definition signed (bs : list batch) : list (N * batch) := signed_from members 0 bs.

Definition sid (mid : string) (i : N) : string := (mid ++ "-" ++ dec i)%string.

Definition sessions (mid : string) (bs : list batch) : list (list prop * string) :=
  map (fun ib => (members (snd ib), sid mid (fst ib))) (signed bs).
Definition old_sessions (mid : string) (bs : list batch) : list (list prop * string) :=
  map (fun ib => (members (snd ib), sid mid (N.of_nat (List.length bs) - 1))) (signed bs).

(* executeBatch: the contract call carries the batch's members and its gas limit *)
Definition tx_of (b : batch) : list prop * N := (members b, gas b).

(* ---- specification ---- *)

Definition pending (ps : list prop) : list prop := filter (fun p => negb (pexec p)) ps.
Definition sumallow (tg : N) (l : list prop) : N := fold_right (fun p a => allowance tg p + a) 0 l.

(* hypothesis of the gas theorems: the allowances of the pending proposals add up below 2^64 *)
Definition no_overflow (tg : N) (ps : list prop) : bool := sumallow tg (pending ps) <? two64.

(* a batch carries its own gas, and reaches the cap only as a singleton *)
Definition okb (cap tg : N) (b : batch) : Prop :=
  gas b = sumallow tg (members b) /\ (cap <= gas b -> (List.length (members b) <= 1)%nat).

(* The boolean specification applied to what the implementation did.  Observation of a batch list =
   per batch the ids of its members and its gas limit (for non-empty batches: as received by the bridge
   contract's ExecuteProposals). *)
Definition obs_of (b : batch) : list N * N := (map pid (members b), gas b).

Fixpoint list_N_eqb (a b : list N) : bool :=
  match a, b with
  | [], [] => true
  | x :: a', y :: b' => N.eqb x y && list_N_eqb a' b'
  | _, _ => false
  end.

Definition chk (cap tg : N) (seg : list prop) (g : N) : bool :=
  N.eqb g (sumallow tg seg) && (if cap <? g then Nat.leb (List.length seg) 1 else true).

(* Prop reading of [chk]: own gas; above the cap only alone *)
Definition okspec (cap tg : N) (b : batch) : Prop :=
  gas b = sumallow tg (members b) /\ (cap < gas b -> (List.length (members b) <= 1)%nat).

(* [walk]: the batches are consecutive segments of the pending proposals, in order, nothing left
   over; if [strict], each carries exactly its own members' gas and reaches the cap only alone *)
Fixpoint walk (strict : bool) (cap tg : N) (pend : list prop) (obs : list (list N * N)) : bool :=
  match obs with
  | [] => is_nil pend
  | (ms, g) :: r =>
      let n := List.length ms in
      let seg := firstn n pend in
      list_N_eqb ms (map pid seg) && (if strict then chk cap tg seg g else true)
      && walk strict cap tg (skipn n pend) r
  end.

Definition spec_ok (cap tg : N) (ps : list prop) (obs : list (list N * N)) : bool :=
  walk (no_overflow tg ps) cap tg (pending ps) obs.

(* sessions observed: per signed batch its member ids and the session ids it was run under *)
Fixpoint list_str_eqb (a b : list string) : bool :=
  match a, b with
  | [], [] => true
  | x :: a', y :: b' => String.eqb x y && list_str_eqb a' b'
  | _, _ => false
  end.

Fixpoint sess_eqb (a b : list (list N * list string)) : bool :=
  match a, b with
  | [], [] => true
  | (m, s) :: a', (m', s') :: b' =>
      list_N_eqb m m' && list_str_eqb s s' && sess_eqb a' b'
  | _, _ => false
  end.

(* expected from the observed batch list: exactly the non-empty batches, each under the one id
   <mid>-<its position> *)
Definition sess_spec (mid : string) (obs : list (list N * N)) : list (list N * list string) :=
  map (fun ib => (fst (snd ib), [sid mid (fst ib)])) (signed_from (@fst (list N) N) 0 obs).

Definition sess_ok (mid : string) (obs : list (list N * N)) (sess : list (list N * list string)) : bool :=
  sess_eqb sess (sess_spec mid obs).

(* ---- failing executed-status lookups (round 3) ----

   proposalBatches asks the bridge `IsProposalExecuted` for EVERY proposal of the delivery, in order
   (executed or not), and `if err != nil { return nil, err }`: one failing lookup and there are no
   batches at all - Execute returns that error before anything is hashed or signed.
   [fl] gives per position how many times the lookup of that proposal fails before it answers
   (0 = never); the code asks once per proposal, so any non-zero entry is an error. *)
Definition lookup_err (ps : list prop) (fl : list N) : bool :=
  existsb (fun pf => 0 <? snd pf) (combine ps fl).

Definition batches_r (cap tg : N) (ps : list prop) (fl : list N) : option (list batch) :=
  if lookup_err ps fl then None else Some (batches cap tg ps).

(* Specification with lookups that may fail.  "Pending" stays what the CHAIN says (pexec), whether or
   not the lookup succeeded.  Either the step reports the failure and produces nothing (accepted only
   when a lookup did fail), or what it produces is judged exactly as before: a partition of ALL
   pending proposals. *)
Definition spec_ok_r (cap tg : N) (ps : list prop) (fl : list N) (r : option (list (list N * N))) : bool :=
  match r with
  | None => lookup_err ps fl
  | Some obs => spec_ok cap tg ps obs
  end.

(* Execute level: did Execute return an error, and the member lists handed to ProposalsHash (canonical
   order).  Nothing hashed + error reported (with a failing lookup), or the hashed lists are
   consecutive non-empty segments of the pending proposals with nothing left over. *)
Definition hashed_ok_r (ps : list prop) (fl : list N) (err : bool) (hs : list (list N)) : bool :=
  if is_nil hs then (err && lookup_err ps fl) || is_nil (pending ps)
  else forallb (fun m => negb (is_nil m)) hs
       && walk false 0 0 (pending ps) (map (fun m => (m, 0)) hs).

Definition hashed_model (cap tg : N) (ps : list prop) (fl : list N) : list (list N) :=
  match batches_r cap tg ps fl with
  | None => []
  | Some bs => map (fun ib => map pid (members (snd ib))) (signed bs)
  end.

(* ---- histories: several deliveries on ONE long-lived Executor (round 5) ----

   The Executor object lives as long as the relayer; every delivery (a deposit batch, a retry, a re-scan) is
   one call of Execute -> proposalBatches on it.  The Executor has no field that proposalBatches or Execute
   write: the batches of a delivery depend on that delivery (its proposals in THEIR order, what the chain
   answers about each of them now) and on the two configured numbers only - not on what was delivered or
   found executed before.  A delivery of a history = its proposals (any order of deposit nonces, several
   source domains; [pexec] = what the chain says at the time of this delivery) and its failing lookups. *)
Definition delivery := (list prop * list N)%type.

Definition run_history (cap tg : N) (ds : list delivery) : list (option (list batch)) :=
  map (fun d => batches_r cap tg (fst d) (snd d)) ds.

(* the judge of a history: every delivery is judged on its own, by the judge of a single delivery *)
Fixpoint history_ok (cap tg : N) (ds : list delivery) (rs : list (option (list (list N * N)))) : bool :=
  match ds, rs with
  | [], [] => true
  | d :: ds', r :: rs' => spec_ok_r cap tg (fst d) (snd d) r && history_ok cap tg ds' rs'
  | _, _ => false
  end.

(* identity of a proposal across source domains: (source domain, deposit nonce) as one number; the runner
   prints [pk s n] for the proposals of a delivery and for the members of the batches it observes *)
Definition pk (s n : N) : N := s * two64 + n.
