(* C20, histories of loads: loading is a function of the two documents.
   A shared configuration (maps the caller owns) is handed to the loaders again and again, each time with
   a local document of its own.  DEFINITIONS ONLY: the model of a history, and the specification - the
   specification of ONE load ([merge_ok], Model/C20.v) for EVERY load of the history, always against the
   shared document AS WRITTEN. *)
From Coq Require Import List ZArith Bool String.
Import ListNotations.
From SygmaV Require Import Model.C20.

(* one load of a history: the local document and what the loader returned (None = error) *)
Definition load_obs := (list obj * option (list obj))%type.

(* the model: every load is [process] on its own local document and the shared document as written -
   no state is carried from one load to the next, nothing is shared between two results *)
Definition hist_model (shared : list obj) (docs : list (list obj)) : list (option (list obj)) :=
  map (fun l => process l shared) docs.

(* THE SPECIFICATION over histories: every load returns what was written for it *)
Definition merge_hist_ok (shared : list obj) (h : list load_obs) : bool :=
  forallb (fun x : load_obs => merge_ok (fst x) shared (snd x)) h.
