(* C10 - the key-share lock is serialised and always given back.
   Executable model, DEFINITIONS ONLY (proofs: Proofs/C10.v).

   Source anchors (Go):
     keyshare/ecdsa.go, keyshare/frost.go     LockKeyshare/UnlockKeyshare = plain sync.Mutex
     tss/ecdsa/keygen/keygen.go               Run: LockKeyshare ... ; Stop: UnlockKeyshare
     tss/frost/keygen/keygen.go               NewKeygen: LockKeyshare ; Stop: UnlockKeyshare
     tss/{ecdsa,frost}/resharing/resharing.go NewResharing: LockKeyshare; GetKeyshare ; Stop: UnlockKeyshare
     tss/{ecdsa,frost}/signing/signing.go     NewSigning: LockKeyshare; defer UnlockKeyshare; GetKeyshare
     tss/coordinator.go                       Execute: refused as duplicate -> return; otherwise the
                                              deferred cleanup calls Stop() on every process        *)
From Coq Require Import List Arith NArith Bool.
Import ListNotations.

Inductive kind :=
| EcdsaKeygen | FrostKeygen | EcdsaResharing | FrostResharing | EcdsaSigning | FrostSigning.

(* how the session of a freshly constructed process ends *)
Inductive outcome :=
| NeverSilent      (* admitted, the coordinator never sends start: CoordinatorError *)
| NeverTimeout     (* admitted, the global TSS timeout strikes before start *)
| NeverCancelled   (* admitted, the context is cancelled before start *)
| StartMalformed   (* admitted, the start message cannot be decoded: Run is never called *)
| ParamsRejected   (* Run is called and rejects the start parameters *)
| RanFailed        (* Run is called, the protocol starts and fails / is aborted *)
| RanSucceeded     (* Run is called, the protocol completes, the new share is stored *)
| Refused          (* Execute refuses the request: the session id is already pending *)
| Rerun            (* Run is called, returns a retryable error (SubsetError, CommunicationError,
                      tss.Error), and tss.Coordinator (handleError -> retry / waitForStart) calls Run
                      A SECOND TIME ON THE SAME OBJECT; only processes with Retryable() = true, i.e. the
                      signing kinds, are run again *)
| CancelledBeforeEntry (* the context handed to Coordinator.Execute is ALREADY cancelled (or past its
                      deadline) when Execute is called: the request goes through admission, the cleanup
                      defer is registered, the wait loops return at once; Run is never called *)
| ConstructorFails  (* the constructor returns an error - the key share cannot be read (file missing,
                      corrupt, unreadable) or, FROST signing, the tweak is malformed: no process
                      exists, Coordinator.Execute is never called *)
(* ABNORMAL TERMINATION.  A method of the process panics while Coordinator.Execute is using it.  A
   panic raised in a goroutine of Execute's task pools is re-raised by the pool in Execute itself; in
   every case it travels up through Execute AFTER the deferred cleanup (cancel, CloseSession, pending
   := false, Stop on every process) has run, and goes on to Execute's caller. *)
| PanicBeforeStart  (* admitted; ValidCoordinators / Ready / StartParams panics, or the call of Run
                      panics before the process's own Run is entered: the process never begins *)
| PanicInRunLate    (* Run is called, the process begins (an ECDSA keygen takes the lock) and then
                      panics (FROST resharing of a share-less relayer that is sent start parameters
                      without verification shares: assignment to entry in nil map; ECDSA resharing
                      with an old subset of unknown peers: index out of range), or its goroutine exits *)
| PanicAfterRun.    (* Run is called, begins and returns an error; Retryable() panics *)

(* observable events: mutex, share access, extent of Run *)
Inductive ev := L | U | Get | Store | RunBegin | RunEnd.

(* [New] = the repaired code: ECDSA keygen remembers whether it took the lock, and Execute stops
   the processes of a refused request.  [Old] = the code as found. *)
Inductive variant := Old | New.

Definition is_signing (k : kind) : bool :=
  match k with EcdsaSigning | FrostSigning => true | _ => false end.

(* keygen has no start parameters that could be rejected; only the signing constructors can fail:
   NewSigning returns the error of GetKeyshare (tss/*/signing/signing.go), NewResharing goes on with
   an empty share ("empty key for parties that don't have one"), NewKeygen does not read the share *)
Definition feasible (k : kind) (o : outcome) : bool :=
  match o, k with
  | ParamsRejected, (EcdsaKeygen | FrostKeygen) => false
  | ConstructorFails, k => is_signing k
  | Rerun, k => is_signing k
  | _, _ => true
  end.

(* the state of the key-share file when the constructor runs *)
Inductive share := Readable | Missing | Corrupt | Unreadable.

(* what can happen on a store in state sh: without a readable share a signing constructor fails;
   keygen and resharing sessions take their usual courses *)
Definition feasible_in (sh : share) (k : kind) (o : outcome) : bool :=
  feasible k o &&
  (negb (is_signing k) ||
   match sh, o with
   | Readable, _ => true
   | _, ConstructorFails => true
   | _, _ => false
   end).

(* the process's own Run is entered (and takes whatever lock it takes) *)
Definition run_called (o : outcome) : bool :=
  match o with
  | ParamsRejected | RanFailed | RanSucceeded | Rerun | PanicInRunLate | PanicAfterRun => true
  | _ => false
  end.

(* Run is entered a second time on the same object *)
Definition run_again (o : outcome) : bool :=
  match o with Rerun => true | _ => false end.

Definition ctor_events (k : kind) : list ev :=
  match k with
  | EcdsaKeygen => []
  | FrostKeygen => [L]
  | EcdsaResharing | FrostResharing => [L; Get]
  | EcdsaSigning | FrostSigning => [L; Get; U]
  end.

Definition stores (k : kind) (o : outcome) : list ev :=
  match o, k with
  | RanSucceeded, (EcdsaSigning | FrostSigning) => []
  | RanSucceeded, _ => [Store]
  | _, _ => []
  end.

Definition run_events (k : kind) (o : outcome) : list ev :=
  [RunBegin] ++ (match k with EcdsaKeygen => [L] | _ => [] end) ++ stores k o ++ [RunEnd].

(* Stop(); [ran] = Run was called on this process before *)
Definition stop_events (v : variant) (k : kind) (ran : bool) : list ev :=
  match k with
  | EcdsaKeygen => match v with Old => [U] | New => if ran then [U] else [] end
  | FrostKeygen | EcdsaResharing | FrostResharing => [U]
  | EcdsaSigning | FrostSigning => []
  end.

(* constructor, then Coordinator.Execute *)
Definition session_events (v : variant) (k : kind) (o : outcome) : list ev :=
  ctor_events k ++
  match o with
  | ConstructorFails => []     (* the constructor's own events were everything: signing [L; Get; U] *)
  | Refused => match v with Old => [] | New => stop_events v k false end
  | _ => (if run_called o then run_events k o else []) ++
         (* the signing kinds read the share in the constructor only: a second Run touches neither
            the lock nor the share *)
         (if run_again o then run_events k o else []) ++ stop_events v k (run_called o)
  end.

(* --- a STARTED Run that fails: the class of the error decides whether the coordinator runs the
   process again (tss/coordinator.go: `if !tssProcesses[0].Retryable() { return err }`, then
   handleError: CoordinatorError / CommunicationError / tss.Error -> retry (bully election, start ->
   Run on the SAME objects), SubsetError -> wait for another start message -> Run, anything else ->
   return) --- *)
Inductive failure := FPlain | FComm | FTss | FSubset | FCoordinator.

Definition retryable_failure (f : failure) : bool :=
  match f with FPlain => false | _ => true end.

(* only the signing kinds are Retryable (tss/*/signing: `return true`; keygen, resharing: false);
   [answered]: the retry gets as far as calling Run (the peers answer the new coordinator's initiate
   message / a second start message arrives) before the session is ended *)
Definition retried (k : kind) (f : failure) (answered : bool) : bool :=
  is_signing k && retryable_failure f && answered.

Definition failed_outcome (k : kind) (f : failure) (answered : bool) : outcome :=
  if retried k f answered then Rerun else RanFailed.

(* the hypothetical coordinator / process that retries a NON-retryable kind (Retryable() = true for
   a keygen, or a coordinator that retries every process on a communication error): Run is entered a
   second time on the same object *)
Definition retried_anyway_events (k : kind) : list ev :=
  ctor_events k ++ run_events k RanFailed ++ run_events k RanFailed ++ stop_events New k true.

(* --- Go's sync.Mutex --- *)
Inductive mres := MOk (held : bool) | MFatal | MBlocked.

Definition mstep (h : bool) (e : ev) : mres :=
  match e with
  | L => if h then MBlocked else MOk true           (* Lock of a held mutex blocks *)
  | U => if h then MOk false else MFatal            (* "fatal error: sync: unlock of unlocked mutex" *)
  | _ => MOk h
  end.

Fixpoint mrun (h : bool) (l : list ev) : mres :=
  match l with
  | [] => MOk h
  | e :: r => match mstep h e with MOk h' => mrun h' r | x => x end
  end.

Definition is_L (e : ev) := match e with L => true | _ => false end.
Definition is_U (e : ev) := match e with U => true | _ => false end.
Definition count (f : ev -> bool) (l : list ev) : nat := length (filter f l).

(* keygen and resharing must hold the lock for their whole run *)
Definition exclusive (k : kind) : bool :=
  match k with EcdsaSigning | FrostSigning => false | _ => true end.

(* [guarded k h inrun l]: the share is read and written only while the lock is held (h); a
   process of an exclusive kind does nothing inside Run before it holds the lock, does not give it
   up inside Run, and still holds it when Run returns. *)
Fixpoint guarded (k : kind) (h inrun : bool) (l : list ev) : bool :=
  match l with
  | [] => true
  | e :: r =>
      match e with
      | L => guarded k true inrun r
      | U => negb (exclusive k && inrun) && guarded k false inrun r
      | Get | Store => h && guarded k h inrun r
      | RunBegin => guarded k h true r
      | RunEnd => (negb (exclusive k) || h) && guarded k h false r
      end
  end.

(* The specification used as judge on the ledger observed for one session: no fatal unlock, no
   self-deadlock, lock free at the end, as many unlocks as locks, accesses guarded. *)
Definition mres_free (r : mres) : bool := match r with MOk false => true | _ => false end.

Definition session_ok (k : kind) (l : list ev) : bool :=
  mres_free (mrun false l) && Nat.eqb (count is_L l) (count is_U l) && guarded k false false l.

(* a sequence of sessions on one store, one after the other *)
Definition sessions_events (v : variant) (ss : list (kind * outcome)) : list ev :=
  flat_map (fun s => session_events v (fst s) (snd s)) ss.

Definition all_feasible (ss : list (kind * outcome)) : bool :=
  forallb (fun s => feasible (fst s) (snd s)) ss.

(* sessions together with the state of the store each one finds *)
Definition all_feasible_in (ss : list (share * (kind * outcome))) : bool :=
  forallb (fun s => feasible_in (fst s) (fst (snd s)) (snd (snd s))) ss.

(* every read / write of the share happens while the lock is held (whatever the kind of process) *)
Fixpoint locked_access (h : bool) (l : list ev) : bool :=
  match l with
  | [] => true
  | L :: r => locked_access true r
  | U :: r => locked_access false r
  | (Get | Store) :: r => h && locked_access h r
  | _ :: r => locked_access h r
  end.

Definition sequence_ok (l : list ev) : bool :=
  mres_free (mrun false l) && Nat.eqb (count is_L l) (count is_U l) && locked_access false l.

(* ------------------------------------------------------------------------------------------ *)
(* Concurrent sessions on one mutex: thread t executes the event list [prog t]; a schedule is a
   list of thread ids; L blocks while another thread owns the mutex.                            *)
Record cstate := mkc {
  rest  : nat -> list ev;      (* what each thread still has to do *)
  owner : option nat;          (* who holds the mutex *)
  fatal : bool;                (* an unlock of the unlocked mutex happened *)
  bad   : bool                 (* a thread touched the share (Get/Store) or was inside a keygen /
                                  resharing Run while it did not own the mutex *)
}.

Definition updf {A} (f : nat -> A) (t : nat) (x : A) : nat -> A :=
  fun u => if Nat.eqb u t then x else f u.

Definition owns (st : cstate) (t : nat) : bool :=
  match owner st with Some o => Nat.eqb o t | None => false end.

Definition cstep (st : cstate) (t : nat) : cstate :=
  match rest st t with
  | [] => st
  | e :: r =>
      match e with
      | L => match owner st with
             | None => mkc (updf (rest st) t r) (Some t) (fatal st) (bad st)
             | Some _ => st                                  (* blocked *)
             end
      | U => match owner st with
             | Some _ => mkc (updf (rest st) t r) None (fatal st) (bad st)
             | None => mkc (updf (rest st) t r) None true (bad st)
             end
      | Get | Store => mkc (updf (rest st) t r) (owner st) (fatal st) (bad st || negb (owns st t))
      | RunBegin | RunEnd => mkc (updf (rest st) t r) (owner st) (fatal st) (bad st)
      end
  end.

Definition cexec (sched : list nat) (st : cstate) : cstate := fold_left cstep sched st.

Definition cinit (prog : nat -> list ev) : cstate := mkc prog None false false.

(* a program is well bracketed from lock state h: it never locks what it holds, never unlocks
   what it does not hold, touches the share only while holding, and ends without the lock *)
Fixpoint bracketed (h : bool) (l : list ev) : bool :=
  match l with
  | [] => negb h
  | L :: r => negb h && bracketed true r
  | U :: r => h && bracketed false r
  | (Get | Store) :: r => h && bracketed h r
  | _ :: r => bracketed h r
  end.

(* ------------------------------------------------------------------------------------------ *)
(* The merged ledger of sessions that OVERLAP on one store (contention): what the steps of a
   schedule actually did, in order, each event with the thread (session) it belongs to.  A Lock of
   a held mutex does not happen (the thread stays blocked), so it leaves no entry.              *)
Definition cstep_ev (st : cstate) (t : nat) : option ev :=
  match rest st t with
  | [] => None
  | L :: _ => match owner st with None => Some L | Some _ => None end
  | e :: _ => Some e
  end.

Fixpoint ctrace (sched : list nat) (st : cstate) : list (nat * ev) :=
  match sched with
  | [] => []
  | t :: r =>
      match cstep_ev st t with
      | Some e => (t, e) :: ctrace r (cstep st t)
      | None => ctrace r (cstep st t)
      end
  end.

Definition owned_by (o : option nat) (t : nat) : bool :=
  match o with Some u => Nat.eqb u t | None => false end.

(* THE JUDGE of a merged ledger, from owner o: a Lock is recorded only when the mutex was free, an
   Unlock only by the thread that holds it (never of the free mutex: fatal; never of somebody
   else's lock: that holder would no longer be exclusive), the share is read / written only by the
   thread that holds the lock, and when everything has ended the mutex is free. *)
Fixpoint tguard (o : option nat) (tr : list (nat * ev)) : bool :=
  match tr with
  | [] => match o with None => true | Some _ => false end
  | (t, e) :: r =>
      match e with
      | L => match o with None => tguard (Some t) r | Some _ => false end
      | U => owned_by o t && tguard None r
      | Get | Store => owned_by o t && tguard o r
      | RunBegin | RunEnd => tguard o r
      end
  end.

Definition proj (t : nat) (tr : list (nat * ev)) : list ev :=
  map snd (filter (fun x => Nat.eqb (fst x) t) tr).

Definition merged_ok (tr : list (nat * ev)) : bool :=
  tguard None tr && Nat.eqb (count is_L (map snd tr)) (count is_U (map snd tr)).

(* the mutex owner after a prefix of a merged ledger *)
Fixpoint owner_after (o : option nat) (tr : list (nat * ev)) : option nat :=
  match tr with
  | [] => o
  | (t, L) :: r => owner_after (Some t) r
  | (_, U) :: r => owner_after None r
  | _ :: r => owner_after o r
  end.

(* threads = sessions: thread i runs the i-th session, every other thread does nothing *)
Definition plan_of (ss : list (kind * outcome)) (t : nat) : list (kind * outcome) :=
  match nth_error ss t with Some s => [s] | None => [] end.

(* per-thread part of the judge: the thread's own events are guarded for its kind (keygen and
   resharing hold the lock from before they do anything in Run until after Run returned) *)
Fixpoint threads_guarded (i : nat) (ss : list (kind * outcome)) (tr : list (nat * ev)) : bool :=
  match ss with
  | [] => true
  | s :: r => guarded (fst s) false false (proj i tr) && threads_guarded (S i) r tr
  end.

Definition contention_ok (ss : list (kind * outcome)) (tr : list (nat * ev)) : bool :=
  merged_ok tr && threads_guarded 0 ss tr.

(* ------------------------------------------------------------------------------------------ *)
(* The stores' OWN LockKeyshare / UnlockKeyshare (keyshare/ecdsa.go, keyshare/frost.go) must
   implement the mutex of [cstep] - one [held] bit: Lock waits while it is set and sets it, Unlock
   clears it - whatever else they do.  Balanced callers cannot see a lock that loses a release or
   lets two holders in; a STRESS run on the real store objects can: [workers] goroutines, each
   doing [pairs] times  LockKeyshare; read the shared counter; write it back incremented;
   UnlockKeyshare  (thread t = worker t, Get = the read, Store = the write).                      *)
Fixpoint pairs_prog (n : nat) : list ev :=
  match n with
  | O => []
  | S m => L :: Get :: Store :: U :: pairs_prog m
  end.

Definition stress_prog (workers pairs : nat) (t : nat) : list ev :=
  if Nat.ltb t workers then pairs_prog pairs else [].

Definition is_Store (e : ev) := match e with Store => true | _ => false end.

(* the shared counter under a merged ledger: a read copies it into the worker's register, a write
   stores register + 1 (a NON-atomic increment: an increment is lost as soon as two workers are
   between their read and their write) *)
Fixpoint counter_run (c : nat) (reg : nat -> nat) (tr : list (nat * ev)) : nat :=
  match tr with
  | [] => c
  | (t, Get) :: r => counter_run c (updf reg t c) r
  | (t, Store) :: r => counter_run (S (reg t)) reg r
  | _ :: r => counter_run c reg r
  end.

(* one worker's program is a sequence of read-modify-write sections: from lock state h, got = the
   read of the current section has been done *)
Fixpoint rmwb (h got : bool) (l : list ev) : bool :=
  match l with
  | [] => negb h
  | L :: r => negb h && rmwb true false r
  | Get :: r => h && negb got && rmwb true true r
  | Store :: r => h && got && rmwb true false r
  | U :: r => h && negb got && rmwb false false r
  | _ :: r => rmwb h got r
  end.

(* THE JUDGE of a stress run on a real store: every worker completed all its pairs (nobody was left
   waiting for a lock that did not come back), no increment was lost (mutual exclusion), and a Lock
   after everything had ended succeeded within its deadline (free = 1; 2 = the process died with
   "unlock of unlocked mutex", 3 = it did not succeed / the workers stalled).  Counts are binary
   numbers (hundreds of thousands of pairs). *)
Definition stress_ok (workers pairs : N) (dones : list N) (counter : N) (free : nat) : bool :=
  N.eqb (N.of_nat (length dones)) workers && forallb (N.eqb pairs) dones
  && N.eqb counter (workers * pairs) && Nat.eqb free 1.

(* ------------------------------------------------------------------------------------------ *)
(* A session with a BATCH of processes: Coordinator.Execute(ctx, [p0; ..; p(n-1)], ...) - "array of
   processes can be passed if all the processes have to have the same peer subset" (the bitcoin executor
   passes one signing process per transaction input; a key refresh may reshare the ECDSA and the FROST
   key in one session).  Each process works on its own key-share store (the relayer's ECDSA store, its
   FROST store; in the correspondence run: a store of its own per process), so there is one ledger per
   process.  Execute's cleanup - and its refusal of a duplicate - is a loop over the processes:
        for _, process := range tssProcesses { process.Stop() }
   [PerIteration] = what the code does: the i-th call stops the i-th process.  [SharedVariable] = one
   deferred closure per process that captures the range variable itself (go 1.21: ONE variable for the
   whole loop) and runs after the loop has ended: every call stops the LAST process.             *)
Inductive capture := PerIteration | SharedVariable.

Definition stop_targets (c : capture) (n : nat) : list nat :=
  match c with
  | PerIteration => seq 0 n
  | SharedVariable => repeat (n - 1) n
  end.

(* the kinds that hold the lock from their constructor until Stop *)
Definition constructor_locks (k : kind) : bool :=
  match k with FrostKeygen | EcdsaResharing | FrostResharing => true | _ => false end.

(* a FURTHER Stop on the same object: the ECDSA keygen remembers that it has given the lock back, the
   constructor-locking kinds unlock again, signing never unlocks *)
Definition stop_again_events (k : kind) : list ev := if constructor_locks k then [U] else [].

Definition stop_events_n (k : kind) (ran : bool) (n : nat) : list ev :=
  match n with
  | O => []
  | S m => stop_events New k ran ++ flat_map (fun _ => stop_again_events k) (seq 0 m)
  end.

(* the ledger of one process of kind k in a session that ends with outcome o, on which Stop is called
   nstop times ([session_events New k o] is the case nstop = 1) *)
Definition session_events_n (k : kind) (o : outcome) (nstop : nat) : list ev :=
  ctor_events k ++
  match o with
  | ConstructorFails => []
  | Refused => stop_events_n k false nstop
  | _ => (if run_called o then run_events k o else []) ++
         (if run_again o then run_events k o else []) ++ stop_events_n k (run_called o) nstop
  end.

(* one ledger per process of the batch: process i is stopped once per Stop call that acts on it *)
Definition batch_ledgers (c : capture) (ks : list kind) (o : outcome) : list (list ev) :=
  map (fun ik => session_events_n (snd ik) o (count_occ Nat.eq_dec (stop_targets c (length ks)) (fst ik)))
      (combine (seq 0 (length ks)) ks).

(* every process of a batch gets the same start message and meets the same end of the session *)
Definition batch_feasible (ks : list kind) (o : outcome) : bool := forallb (fun k => feasible k o) ks.

(* THE JUDGE of a batch: the ledger of EVERY process passes the judge of a session of its kind - no
   fatal unlock, the lock free at the end, as many unlocks as locks, accesses guarded *)
Fixpoint batch_ledgers_ok (ks : list kind) (ls : list (list ev)) : bool :=
  match ks, ls with
  | [], [] => true
  | k :: ks', l :: ls' => session_ok k l && batch_ledgers_ok ks' ls'
  | _, _ => false
  end.
