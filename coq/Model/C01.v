(* C01 - the relayed proposal carries the deposit's identity and payload unaltered.
   Executable model: source-side deposit decoders exactly as coded (Go slice semantics, int64
   wrap-around, big.Int conversions), destination-side proposal encoders, their composition
   [relay], the wire-format predicates [wf_*] and the independent reference [spec_proposal]
   (the deposited bytes with only the three documented rewrites).  Definitions only.

   Source anchors (Go):
     erc20_decode    chains/evm/listener/depositHandlers/erc20.go          Erc20DepositHandler.HandleDeposit
     erc721_decode   chains/evm/listener/depositHandlers/erc721.go         Erc721DepositHandler.HandleDeposit
     erc1155_decode  chains/evm/listener/depositHandlers/erc1155.go        (go-ethereum abi.Arguments.UnpackValues)
     generic_decode  chains/evm/listener/depositHandlers/permissionless.go PermissionlessGenericDepositHandler
     sub_decode      chains/substrate/listener/deposit-handler.go          FungibleTransferHandler
     btc_decode      chains/btc/listener/deposit-handler.go                BtcDepositHandler.HandleDeposit
     evm_encode      chains/evm/executor/message-handler.go                TransferMessageHandler.HandleMessage
     sub_encode      chains/substrate/executor/message-handler.go          SubstrateMessageHandler.HandleMessage
     btc_encode      chains/btc/executor/message-handler.go                FungibleMessageHandler.HandleMessage *)
From Coq Require Import List NArith ZArith Bool.
From Coq.Strings Require Import Byte.
Import ListNotations.
From SygmaV Require Import Lib.C01_Bytes.

(* ---- outcomes ------------------------------------------------------------------------------------------------- *)
Inductive res (A : Type) := Ok (a : A) | Err | Panic | Unspec.
Arguments Ok {A} a. Arguments Err {A}. Arguments Panic {A}. Arguments Unspec {A}.

Definition bind {A B} (r : res A) (f : A -> res B) : res B :=
  match r with Ok a => f a | Err => Err | Panic => Panic | Unspec => Unspec end.
Notation "x <- e ;; f" := (bind e (fun x => f)) (at level 61, e at next level, right associativity).

Definition of_s (r : sres) : res bytes :=
  match r with SOk l => Ok l | SPanic => Panic | SUnspec => Unspec end.
Definition sl (a b : Z) (s : bytes) : res bytes := of_s (slice a b s).
Definition sl_from (a : Z) (s : bytes) : res bytes := of_s (slice_from a s).

(* ---- messages and proposals --------------------------------------------------------------------------------------- *)
Inductive ttype := Fungible | NonFungible | SemiFungible | PermissionlessGeneric.
Inductive pitem := PB (b : bytes) | PI (l : list N).        (* []byte | []*big.Int *)

Record message := mkMsg {
  m_src : N; m_dst : N; m_nonce : N; m_rid : bytes;
  m_type : ttype; m_payload : list pitem;
  m_gas : option N                                           (* Metadata["gasLimit"] (uint64) *)
}.

Inductive pdata := DBytes (b : bytes) | DBtc (amount : N) (recipient : bytes).

Record proposal := mkProp {
  p_src : N; p_dst : N; p_nonce : N; p_rid : bytes; p_gas : option N; p_data : pdata
}.

(* A deposit as the source chain reports it.  EVM / Substrate: [d_data] is the deposit calldata,
   [d_hr] the handler response (EVM).  Bitcoin: [d_data] is the OP_RETURN payload, [d_amount] the
   satoshi amount, and the destination is parsed from the payload ([d_dst] is not used). *)
Record deposit := mkDep {
  d_src : N; d_dst : N; d_nonce : N; d_rid : bytes; d_data : bytes; d_hr : bytes; d_amount : N
}.

Definition OPTIONAL_REVERT_GAS : N := 100000.     (* depositHandlers/erc20.go *)
Definition BTC_SCALE : N := 10000000000.          (* 10^10 *)

(* ================================================================================================================
   Source side.  Every handler = a body that turns the bytes into (payload, gasLimit metadata), wrapped
   into message.NewMessage(sourceID, destID, TransferMessageData{nonce, resourceID, ...}). *)

Definition wrap (d : deposit) (t : ttype) (r : res (list pitem * option N)) : res message :=
  match r with
  | Ok (p, g) => Ok (mkMsg (d_src d) (d_dst d) (d_nonce d) (d_rid d) t p g)
  | Err => Err | Panic => Panic | Unspec => Unspec
  end.

Definition erc20_body (cd hr : bytes) : res (list pitem * option N) :=
  if (len cd <? 84)%Z then Err else
  amount <- (if (0 <? len hr)%Z then sl 0 32 hr else sl 0 32 cd) ;;
  w <- sl 32 64 cd ;;
  let rl := int64_of_N (be_to_N w) in
  let e := wrap64s (64 + rl) in
  recipient <- sl 64 e cd ;;
  let e2 := wrap64s (96 + rl) in
  if (e2 <? len cd)%Z then
    feew <- sl e e2 cd ;;
    let maxfee := (be_to_N feew + OPTIONAL_REVERT_GAS)%N in
    (* copy(calldata[e:e2], LeftPadBytes(maxFee.Bytes(), 32)) copies min(32, len src) = 32 bytes *)
    rest <- sl_from e cd ;;
    let tail := firstn 32 (left_pad 32 (be_bytes maxfee)) ++ skipn 32 rest in
    Ok ([PB amount; PB recipient; PB tail], Some (uint64_of_N maxfee))
  else
    Ok ([PB amount; PB recipient], None).

Definition erc20_decode (d : deposit) : res message := wrap d Fungible (erc20_body (d_data d) (d_hr d)).

Definition erc721_body (cd : bytes) : res (list pitem * option N) :=
  if (len cd <? 64)%Z then Err else
  tokenId <- sl 0 32 cd ;;
  w <- sl 32 64 cd ;;
  let rl := int64_of_N (be_to_N w) in
  let e := wrap64s (64 + rl) in
  recipient <- sl 64 e cd ;;
  let e2 := wrap64s (e + 32) in
  mlw <- sl e e2 cd ;;
  let ml := be_to_N mlw in
  metadata <- (if (0 <? ml)%N then
                 let ms := wrap64s (wrap64s (64 + rl) + 32) in
                 sl ms (wrap64s (ms + int64_of_N ml)) cd
               else Ok []) ;;
  Ok ([PB tokenId; PB recipient; PB metadata], None).

Definition erc721_decode (d : deposit) : res message := wrap d NonFungible (erc721_body (d_data d)).

Definition generic_body (cd : bytes) : res (list pitem * option N) :=
  if (len cd <? 76)%Z then Err else
  maxFee <- sl 0 32 cd ;;
  fslw <- sl 32 34 cd ;;
  let fsEnd := wrap64s (34 + int64_of_N (be_to_N fslw)) in
  fs <- sl 34 fsEnd cd ;;
  calw <- sl fsEnd (wrap64s (fsEnd + 1)) cd ;;
  let caEnd := wrap64s (wrap64s (fsEnd + 1) + int64_of_N (be_to_N calw)) in
  ca <- sl (wrap64s (fsEnd + 1)) caEnd cd ;;
  dlw <- sl caEnd (wrap64s (caEnd + 1)) cd ;;
  let dEnd := wrap64s (wrap64s (caEnd + 1) + int64_of_N (be_to_N dlw)) in
  dp <- sl (wrap64s (caEnd + 1)) dEnd cd ;;
  ex <- sl_from dEnd cd ;;
  Ok ([PB fs; PB ca; PB maxFee; PB dp; PB ex], Some (uint64_of_N (be_to_N maxFee))).

Definition generic_decode (d : deposit) : res message :=
  wrap d PermissionlessGeneric (generic_body (d_data d)).

(* types.IntBytesToBigInt (signed big-endian two's complement) followed by big.Int.Int64
   (low 64 bits of the magnitude, negated for a negative value) *)
Definition sub_len_int64 (w : bytes) : Z :=
  match w with
  | [] => 0%Z
  | b :: _ =>
      if (b2n b <? 128)%N then int64_of_N (be_to_N w)
      else wrap64s (- int64_of_N (256 ^ N.of_nat (length w) - be_to_N w)%N)
  end.

Definition sub_body (cd : bytes) : res (list pitem * option N) :=
  if (len cd <? 84)%Z then Err else
  amount <- sl 0 32 cd ;;
  w <- sl 32 64 cd ;;
  let rl := sub_len_int64 w in
  recipient <- sl 64 (wrap64s (64 + rl)) cd ;;
  Ok ([PB amount; PB recipient], None).

Definition sub_decode (d : deposit) : res message := wrap d Fungible (sub_body (d_data d)).

(* ---- Bitcoin ----------------------------------------------------------------------------------------------------- *)
Definition ch_us : byte := "_"%byte.

Fixpoint split_us (s : bytes) (cur : bytes) : list bytes :=        (* strings.Split(s, "_"), cur reversed *)
  match s with
  | [] => [rev cur]
  | c :: r => if Byte.eqb c ch_us then rev cur :: split_us r [] else split_us r (c :: cur)
  end.

Definition hexval (c : byte) : option N :=
  let n := b2n c in
  if ((48 <=? n) && (n <=? 57))%N then Some (n - 48)%N
  else if ((97 <=? n) && (n <=? 102))%N then Some (n - 87)%N
  else if ((65 <=? n) && (n <=? 70))%N then Some (n - 55)%N
  else None.

(* hex.DecodeString with the error ignored: the bytes decoded before the first bad digit *)
Fixpoint hex_lenient (s : bytes) : bytes :=
  match s with
  | a :: b :: r =>
      match hexval a, hexval b with
      | Some x, Some y => n2b (x * 16 + y) :: hex_lenient r
      | _, _ => []
      end
  | _ => []
  end.

Definition strip0x (s : bytes) : bytes :=
  match s with
  | a :: b :: r => if Byte.eqb a "0"%byte && (Byte.eqb b "x"%byte || Byte.eqb b "X"%byte) then r else s
  | _ => s
  end.

Definition lastn (n : nat) (l : bytes) : bytes := skipn (length l - n) l.

(* common.HexToAddress(s).Bytes() *)
Definition hex_to_address (s : bytes) : bytes :=
  let h := strip0x s in
  let h := if Nat.odd (length h) then "0"%byte :: h else h in
  left_pad 20 (lastn 20 (hex_lenient h)).

Definition is_digit (c : byte) : bool := ((48 <=? b2n c) && (b2n c <=? 57))%N.
Definition dec_value (s : bytes) : N := fold_left (fun a c => (a * 10 + (b2n c - 48))%N) s 0%N.

(* strconv.ParseUint(s, 10, 8) *)
Definition parse_uint8 (s : bytes) : option N :=
  match s with
  | [] => None
  | _ => if forallb is_digit s && (dec_value s <=? 255)%N then Some (dec_value s) else None
  end.

Definition btc_body (data : bytes) (amount : N) : res (N * list pitem) :=
  match split_us data [] with
  | p0 :: p1 :: _ =>
      let addr := hex_to_address p0 in
      match parse_uint8 p1 with
      | None => Err
      | Some dst => Ok (dst, [PB (be_bytes (amount * BTC_SCALE)); PB addr])
      end
  | _ => Panic                                   (* parsedData[1]: index out of range *)
  end.

Definition btc_decode (d : deposit) : res message :=
  match btc_body (d_data d) (d_amount d) with
  | Ok (dst, p) => Ok (mkMsg (d_src d) dst (d_nonce d) (d_rid d) Fungible p None)
  | Err => Err | Panic => Panic | Unspec => Unspec
  end.

(* ---- ERC1155: go-ethereum v1.13.4 accounts/abi, type (uint256[],uint256[],bytes,bytes) ---------------------------- *)
Definition bitlen_gt63 (n : N) : bool := (2 ^ 63 <=? n)%N.

(* lengthPrefixPointsTo; the caller (toGoType) has checked index+32 <= len(output) *)
Definition abi_len_prefix (index : Z) (out : bytes) : res (Z * Z) :=
  w <- sl index (index + 32) out ;;
  let oe := (be_to_N w + 32)%N in
  if (len out <? Z.of_N oe)%Z then Err else
  if bitlen_gt63 oe then Err else
  lw <- sl (Z.of_N oe - 32) (Z.of_N oe) out ;;
  let total := (oe + be_to_N lw)%N in
  if bitlen_gt63 total then Err else
  if (len out <? Z.of_N total)%Z then Err else
  Ok (Z.of_N oe, Z.of_N (be_to_N lw)).

Fixpoint abi_words (n : nat) (s : bytes) : list N :=
  match n with
  | O => []
  | S n' => be_to_N (firstn 32 s) :: abi_words n' (skipn 32 s)
  end.

Definition abi_uint_array (index : Z) (out : bytes) : res (list N) :=
  if (len out <? index + 32)%Z then Err else
  bl <- abi_len_prefix index out ;;
  let '(begin, size) := bl in
  body <- sl_from begin out ;;
  if (len body <? 32 * size)%Z then Err else
  Ok (abi_words (Z.to_nat size) body).

Definition abi_bytes (index : Z) (out : bytes) : res bytes :=
  if (len out <? index + 32)%Z then Err else
  bl <- abi_len_prefix index out ;;
  let '(begin, size) := bl in
  sl begin (begin + size) out.

Definition erc1155_body (cd : bytes) : res (list pitem * option N) :=
  ids <- abi_uint_array 0 cd ;;
  ams <- abi_uint_array 32 cd ;;
  rc <- abi_bytes 64 cd ;;
  td <- abi_bytes 96 cd ;;
  Ok ([PI ids; PI ams; PB rc; PB td], None).

Definition erc1155_decode (d : deposit) : res message := wrap d SemiFungible (erc1155_body (d_data d)).

(* Arguments.Pack for the same type *)
Definition pad_right32 (b : bytes) : bytes :=
  b ++ repeat x00 ((32 - length b mod 32) mod 32).
Definition abi_enc_array (l : list N) : bytes := u256 (N.of_nat (length l)) ++ flat_map u256 l.
Definition abi_enc_bytes (b : bytes) : bytes := u256 (N.of_nat (length b)) ++ pad_right32 b.

Definition abi_encode (ids ams : list N) (rc td : bytes) : bytes :=
  let t1 := abi_enc_array ids in
  let t2 := abi_enc_array ams in
  let t3 := abi_enc_bytes rc in
  let t4 := abi_enc_bytes td in
  let o1 := 128%nat in
  let o2 := (o1 + length t1)%nat in
  let o3 := (o2 + length t2)%nat in
  let o4 := (o3 + length t3)%nat in
  u256 (N.of_nat o1) ++ u256 (N.of_nat o2) ++ u256 (N.of_nat o3) ++ u256 (N.of_nat o4) ++ t1 ++ t2 ++ t3 ++ t4.

(* ================================================================================================================
   Destination side *)

(* msg.Data.Payload[i].([]byte): index out of range panics, a failed assertion is an error *)
Definition pb (i : nat) (p : list pitem) : res bytes :=
  match nth_error p i with None => Panic | Some (PB b) => Ok b | Some (PI _) => Err end.
Definition pint (i : nat) (p : list pitem) : res (list N) :=
  match nth_error p i with None => Panic | Some (PI l) => Ok l | Some (PB _) => Err end.

Definition len_word (b : bytes) : bytes := left_pad 32 (be_bytes (N.of_nat (length b))).
Definition len_byte (b : bytes) : byte := n2b (N.of_nat (length b)).         (* byte(len(x)) *)

Definition mk_prop (m : message) (gas : option N) (data : pdata) : proposal :=
  mkProp (m_src m) (m_dst m) (m_nonce m) (m_rid m) gas data.

Definition evm_erc20 (m : message) : res proposal :=
  let p := m_payload m in
  if negb ((length p =? 2)%nat || (length p =? 3)%nat) then Err else
  amount <- pb 0 p ;;
  recipient <- pb 1 p ;;
  let data := left_pad 32 amount ++ len_word recipient ++ recipient in
  if (length p =? 3)%nat then
    opt <- pb 2 p ;;
    Ok (mk_prop m (m_gas m) (DBytes (data ++ opt)))
  else Ok (mk_prop m (m_gas m) (DBytes data)).

Definition evm_erc721 (m : message) : res proposal :=
  let p := m_payload m in
  if negb (length p =? 3)%nat then Err else
  tokenId <- pb 0 p ;;
  recipient <- pb 1 p ;;
  metadata <- pb 2 p ;;
  Ok (mk_prop m (m_gas m)
        (DBytes (left_pad 32 tokenId ++ len_word recipient ++ recipient ++ len_word metadata ++ metadata))).

Definition evm_erc1155 (m : message) : res proposal :=
  let p := m_payload m in
  if negb (length p =? 4)%nat then Err else
  ids <- pint 0 p ;;
  ams <- pint 1 p ;;
  rc <- pb 2 p ;;
  if negb (length rc =? 20)%nat then Err else
  td <- pb 3 p ;;
  Ok (mk_prop m (m_gas m) (DBytes (abi_encode ids ams rc td))).

Definition evm_generic (m : message) : res proposal :=
  let p := m_payload m in
  fs <- pb 0 p ;;
  ca <- pb 1 p ;;
  maxFee <- pb 2 p ;;
  dp <- pb 3 p ;;
  ex <- pb 4 p ;;
  Ok (mk_prop m (m_gas m)
        (DBytes (left_pad 32 maxFee ++ left_pad 2 (be_bytes (N.of_nat (length fs))) ++ fs
                 ++ [len_byte ca] ++ ca ++ [len_byte dp] ++ dp ++ ex))).

Definition evm_encode (m : message) : res proposal :=
  match m_type m with
  | Fungible => evm_erc20 m
  | SemiFungible => evm_erc1155 m
  | NonFungible => evm_erc721 m
  | PermissionlessGeneric => evm_generic m
  end.

Definition sub_encode (m : message) : res proposal :=
  match m_type m with
  | Fungible =>
      let p := m_payload m in
      if negb (length p =? 2)%nat then Err else
      amount <- pb 0 p ;;
      recipient <- pb 1 p ;;
      Ok (mk_prop m (m_gas m) (DBytes (left_pad 32 amount ++ len_word recipient ++ recipient)))
  | _ => Err
  end.

Definition btc_encode (m : message) : res proposal :=
  match m_type m with
  | Fungible =>
      let p := m_payload m in
      if negb (length p =? 2)%nat then Err else
      amount <- pb 0 p ;;
      recipient <- pb 1 p ;;
      Ok (mk_prop m None (DBtc (uint64_of_N (be_to_N amount / BTC_SCALE)) recipient))
  | _ => Err
  end.

(* ================================================================================================================
   The relay *)
Inductive skind := SErc20 | SErc721 | SErc1155 | SGeneric | SSub | SBtc.
Inductive dkind := DEvm | DSub | DBtcK.

Definition decode (sk : skind) (d : deposit) : res message :=
  match sk with
  | SErc20 => erc20_decode d
  | SErc721 => erc721_decode d
  | SErc1155 => erc1155_decode d
  | SGeneric => generic_decode d
  | SSub => sub_decode d
  | SBtc => btc_decode d
  end.

Definition encode (dk : dkind) (m : message) : res proposal :=
  match dk with DEvm => evm_encode m | DSub => sub_encode m | DBtcK => btc_encode m end.

Definition relay (sk : skind) (dk : dkind) (d : deposit) : res proposal :=
  m <- decode sk d ;; encode dk m.

(* ================================================================================================================
   Wire formats and the independent reference *)

Fixpoint bytes_eqb (a b : bytes) : bool :=
  match a, b with
  | [], [] => true
  | x :: a', y :: b' => Byte.eqb x y && bytes_eqb a' b'
  | _, _ => false
  end.

Definition nlen (s : bytes) : N := N.of_nat (length s).
Definition word_at (off : N) (s : bytes) : N := be_to_N (firstn 32 (skipN off s)).
Definition sane_len (s : bytes) : bool := (nlen s <? 2 ^ 62)%N.

(* s with the bytes [off, off + |new|) replaced by new *)
Definition replace_at (off : N) (new : bytes) (s : bytes) : bytes :=
  firstN off s ++ new ++ skipN (off + N.of_nat (length new)) s.

(* ERC20 / native:  amount(32) | recipientLen(32) | recipient | [ fee(32) | message (non-empty) ] *)
Definition erc20_rl (d : deposit) : N := word_at 32 (d_data d).
Definition erc20_has_tail (d : deposit) : bool := negb (nlen (d_data d) =? 64 + erc20_rl d)%N.
Definition erc20_fee (d : deposit) : N := word_at (64 + erc20_rl d) (d_data d).

Definition wf_erc20 (d : deposit) : bool :=
  let cd := d_data d in
  let n := nlen cd in
  let rl := erc20_rl d in
  (84 <=? n)%N && sane_len cd && sane_len (d_hr d) &&
  ((nlen (d_hr d) =? 0)%N || (32 <=? nlen (d_hr d))%N) &&
  (64 + rl <=? n)%N &&
  ((n =? 64 + rl)%N || ((96 + rl <? n)%N && (erc20_fee d + OPTIONAL_REVERT_GAS <? 2 ^ 256)%N)).

(* rewrite 1: a handler-reported amount replaces the calldata amount;
   rewrite 2: the fee limit of an optional message gains the revert-gas allowance *)
Definition spec_erc20_data (d : deposit) : bytes :=
  let cd := d_data d in
  let cd1 := if (nlen (d_hr d) =? 0)%N then cd else replace_at 0 (firstn 32 (d_hr d)) cd in
  if erc20_has_tail d
  then replace_at (64 + erc20_rl d) (u256 (erc20_fee d + OPTIONAL_REVERT_GAS)) cd1
  else cd1.

Definition spec_erc20_gas (d : deposit) : option N :=
  if erc20_has_tail d then Some ((erc20_fee d + OPTIONAL_REVERT_GAS) mod 2 ^ 64)%N else None.

(* ERC721:  tokenId(32) | recipientLen(32) | recipient | metadataLen(32) | metadata *)
Definition wf_erc721 (d : deposit) : bool :=
  let cd := d_data d in
  let n := nlen cd in
  let rl := word_at 32 cd in
  (96 <=? n)%N && sane_len cd && (96 + rl <=? n)%N && (n =? 96 + rl + word_at (64 + rl) cd)%N.

(* permissionless generic: maxFee(32) | len(2) sig | len(1) contract | len(1) depositor | executionData *)
Definition byte_at (off : N) (s : bytes) : N := be_to_N (firstn 1 (skipN off s)).
Definition wf_generic (d : deposit) : bool :=
  let cd := d_data d in
  let n := nlen cd in
  (76 <=? n)%N && sane_len cd &&
  let p := (34 + be_to_N (firstn 2 (skipn 32 cd)))%N in
  (p + 1 <=? n)%N &&
  let q := (p + 1 + byte_at p cd)%N in
  (q + 1 <=? n)%N && (q + 1 + byte_at q cd <=? n)%N.

(* ERC1155: the canonical ABI encoding of (ids, amounts, recipient(20 bytes), transferData) *)
Definition wf_erc1155_parts (ids ams : list N) (rc td : bytes) : bool :=
  forallb (fun x => x <? 2 ^ 256)%N ids && forallb (fun x => x <? 2 ^ 256)%N ams &&
  (length rc =? 20)%nat &&
  (N.of_nat (length ids) <? 2 ^ 32)%N && (N.of_nat (length ams) <? 2 ^ 32)%N && (nlen td <? 2 ^ 32)%N.

Definition wf_erc1155 (d : deposit) : bool :=
  match erc1155_decode d with
  | Ok (mkMsg _ _ _ _ _ [PI ids; PI ams; PB rc; PB td] _) =>
      wf_erc1155_parts ids ams rc td &&
      bytes_eqb (abi_encode ids ams rc td) (d_data d)
  | _ => false
  end.

(* Substrate fungible: amount(32) | recipientLen(32) | recipient *)
Definition wf_sub (d : deposit) : bool :=
  let cd := d_data d in
  (84 <=? nlen cd)%N && sane_len cd && (nlen cd =? 64 + word_at 32 cd)%N.

(* Bitcoin: "0x" 40 hex digits "_" decimal domain (fits 8 bits) *)
Definition is_hex (c : byte) : bool := match hexval c with Some _ => true | None => false end.
Fixpoint hex_strict (s : bytes) : bytes :=
  match s with
  | a :: b :: r =>
      n2b ((match hexval a with Some x => x | None => 0 end) * 16 +
           (match hexval b with Some y => y | None => 0 end)) :: hex_strict r
  | _ => []
  end.

Definition btc_addr_part (d : deposit) : bytes := firstn 40 (skipn 2 (d_data d)).
Definition btc_dom_part (d : deposit) : bytes := skipn 43 (d_data d).

Definition wf_btc (d : deposit) : bool :=
  let s := d_data d in
  (43 <? length s)%nat &&
  (match s with a :: b :: _ => Byte.eqb a "0"%byte && Byte.eqb b "x"%byte | _ => false end) &&
  forallb is_hex (btc_addr_part d) &&
  (match nth_error s 42 with Some c => Byte.eqb c ch_us | None => false end) &&
  forallb is_digit (btc_dom_part d) && (dec_value (btc_dom_part d) <=? 255)%N &&
  (d_amount d * BTC_SCALE <? 2 ^ 256)%N.

(* Which (source, destination) pairs prepare a proposal for a well-formed deposit, and when. *)
Definition fits_btc (amount : N) : bool := (amount <? 2 ^ 64 * BTC_SCALE)%N.

Definition wf (sk : skind) (dk : dkind) (d : deposit) : bool :=
  match sk, dk with
  | SErc20, DEvm => wf_erc20 d
  | SErc20, DSub => wf_erc20 d && negb (erc20_has_tail d)
  | SErc20, DBtcK => wf_erc20 d && negb (erc20_has_tail d) && fits_btc (be_to_N (firstn 32 (spec_erc20_data d)))
  | SErc721, DEvm => wf_erc721 d
  | SErc1155, DEvm => wf_erc1155 d
  | SGeneric, DEvm => wf_generic d
  | SSub, DEvm | SSub, DSub => wf_sub d
  | SSub, DBtcK => wf_sub d && fits_btc (word_at 0 (d_data d))
  | SBtc, DEvm | SBtc, DSub => wf_btc d
  | SBtc, DBtcK => wf_btc d && fits_btc (d_amount d * BTC_SCALE)
  | _, _ => false
  end.

(* The reference: the deposit's own bytes with only the documented rewrites. *)
Definition spec_fungible_data (sk : skind) (d : deposit) : bytes :=
  match sk with
  | SErc20 => spec_erc20_data d
  | SBtc => u256 (d_amount d * BTC_SCALE) ++ u256 20 ++ hex_strict (btc_addr_part d)     (* rewrite 3 *)
  | _ => d_data d
  end.

Definition spec_data (sk : skind) (dk : dkind) (d : deposit) : pdata :=
  match dk with
  | DBtcK =>
      let f := spec_fungible_data sk d in
      DBtc (be_to_N (firstn 32 f) / BTC_SCALE) (skipn 64 f)                              (* rewrite 3 *)
  | _ =>
      match sk with
      | SErc20 | SBtc => DBytes (spec_fungible_data sk d)
      | _ => DBytes (d_data d)
      end
  end.

Definition spec_gas (sk : skind) (dk : dkind) (d : deposit) : option N :=
  match dk with
  | DBtcK => None
  | _ => match sk with
         | SErc20 => spec_erc20_gas d
         | SGeneric => Some (word_at 0 (d_data d) mod 2 ^ 64)%N
         | _ => None
         end
  end.

Definition spec_dst (sk : skind) (d : deposit) : N :=
  match sk with SBtc => dec_value (btc_dom_part d) | _ => d_dst d end.

Definition spec_proposal (sk : skind) (dk : dkind) (d : deposit) : proposal :=
  mkProp (d_src d) (spec_dst sk d) (d_nonce d) (d_rid d) (spec_gas sk dk d) (spec_data sk dk d).

(* ---- boolean equality of observations (used by the run) ------------------------------------------------------------ *)
Definition optN_eqb (a b : option N) : bool :=
  match a, b with Some x, Some y => N.eqb x y | None, None => true | _, _ => false end.
Definition pdata_eqb (a b : pdata) : bool :=
  match a, b with
  | DBytes x, DBytes y => bytes_eqb x y
  | DBtc x r, DBtc y s => N.eqb x y && bytes_eqb r s
  | _, _ => false
  end.
Definition proposal_eqb (a b : proposal) : bool :=
  N.eqb (p_src a) (p_src b) && N.eqb (p_dst a) (p_dst b) && N.eqb (p_nonce a) (p_nonce b) &&
  bytes_eqb (p_rid a) (p_rid b) && optN_eqb (p_gas a) (p_gas b) && pdata_eqb (p_data a) (p_data b).

(* the judge: on a well-formed deposit the implementation prepared exactly the reference proposal *)
Definition spec_ok (sk : skind) (dk : dkind) (d : deposit) (impl : res proposal) : bool :=
  if wf sk dk d then
    match impl with Ok p => proposal_eqb p (spec_proposal sk dk d) | _ => false end
  else true.

(* ================================================================================================================
   Sequences: the relayer's long-lived objects (one Listener / ETHDepositHandler per source chain, one message
   handler per destination) handle many deposits, the same deposit again on a retry, whole batches before any
   proposal is executed.  The model has NO state: the relay of a step is the per-deposit [relay] of that step's
   deposit, whatever happened before; a prepared proposal is a value and stays what it was. *)
Definition item := (skind * dkind * deposit)%type.

(* one step of a history: pool index of the deposit that is handled, and whether the environment fails the
   handler lookup / the fetch while it is handled (scripted fault: no proposal is owed for that step) *)
Definition step := (nat * bool)%type.

Definition step_relay (pool : list item) (s : step) : res proposal :=
  match nth_error pool (fst s) with
  | Some (sk, dk, d) => if snd s then Err else relay sk dk d
  | None => Err
  end.

Definition seq_relay (pool : list item) (steps : list step) : list (res proposal) := map (step_relay pool) steps.

(* what was observed for one step: every reading of the proposal prepared for it (right after it was built,
   when its batch is written, at the end of the history) *)
Record occ := mkOcc { o_dep : nat; o_fail : bool; o_reads : list (res proposal) }.

Definition is_err (r : res proposal) : bool := match r with Err => true | _ => false end.

(* the specification of one reading = the per-deposit judge; a step whose lookup was made to fail may also
   have produced nothing *)
Definition read_ok (sk : skind) (dk : dkind) (d : deposit) (f : bool) (r : res proposal) : bool :=
  (f && is_err r) || spec_ok sk dk d r.

Definition occ_ok (pool : list item) (o : occ) : bool :=
  match nth_error pool (o_dep o) with
  | Some (sk, dk, d) => forallb (read_ok sk dk d (o_fail o)) (o_reads o)
  | None => false
  end.

(* the judge of a history: pointwise *)
Definition seq_ok (pool : list item) (occs : list occ) : bool := forallb (occ_ok pool) occs.

(* the same predicate, evaluated per pool deposit so that wf / the reference are computed once per deposit *)
Definition reads_of (occs : list occ) (i : nat) : list (bool * res proposal) :=
  flat_map (fun o => if Nat.eqb (o_dep o) i then map (pair (o_fail o)) (o_reads o) else []) occs.

Definition item_ok_fast (it : item) (rs : list (bool * res proposal)) : bool :=
  match rs with
  | [] => true
  | _ =>
    let '(sk, dk, d) := it in
    if wf sk dk d then
      let sp := spec_proposal sk dk d in
      forallb (fun fr => match snd fr with Ok p => proposal_eqb p sp | Err => fst fr | _ => false end) rs
    else true
  end.

Fixpoint items_ok_fast (pool : list item) (occs : list occ) (i : nat) : bool :=
  match pool with
  | [] => true
  | it :: rest => item_ok_fast it (reads_of occs i) && items_ok_fast rest occs (S i)
  end.

Definition seq_ok_fast (pool : list item) (occs : list occ) : bool :=
  forallb (fun o => Nat.ltb (o_dep o) (length pool)) occs && items_ok_fast pool occs 0.

(* correspondence of one reading with the model (used by the run only).  In a history the calldata reaches the
   EVM handlers as the ABI decoder's sub-slice of the log data (capacity beyond its length), so a slice bound
   between len and cap does not panic there: Unspec is matched by anything *)
Definition agree_res (m : res proposal) (f : bool) (r : res proposal) : bool :=
  (f && is_err r) ||
  match m, r with
  | Unspec, _ => true
  | Ok p, Ok q => proposal_eqb p q
  | Err, Err => true
  | Panic, Panic => true
  | _, _ => false
  end.

Fixpoint items_agree (pool : list item) (occs : list occ) (i : nat) : bool :=
  match pool with
  | [] => true
  | (sk, dk, d) :: rest =>
      (match reads_of occs i with
       | [] => true
       | rs => let m := relay sk dk d in forallb (fun fr => agree_res m (fst fr) (snd fr)) rs
       end) && items_agree rest occs (S i)
  end.

Definition seq_agree (pool : list item) (occs : list occ) : bool :=
  forallb (fun o => Nat.ltb (o_dep o) (length pool)) occs && items_agree pool occs 0.

(* the model's observation of a history: every step read k times *)
Definition model_occ (pool : list item) (sk : step * nat) : occ :=
  mkOcc (fst (fst sk)) (snd (fst sk)) (repeat (step_relay pool (fst sk)) (snd sk)).

Definition steps_wf (pool : list item) (steps : list (step * nat)) : bool :=
  forallb (fun sk => Nat.ltb (fst (fst sk)) (length pool)) steps.
