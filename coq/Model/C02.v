(* C02 - the signed digest is the bridge's EIP-712 commitment to the exact batch; the signature is
   submitted as the 65 bytes r || s || v.  Executable model, DEFINITIONS ONLY.

   Source anchors (Go):
     chains/proposal.go                             ProposalsHash (apitypes.TypedData.HashStruct,
                                                    "\x19\x01" || domainSeparator || structHash)
     chains/evm/calls/contracts/bridge/bridge.go    BridgeContract.ProposalsHash (chain id, contract, "3.1.0")
     chains/substrate/pallet/pallet.go              Pallet.ProposalsHash (constant verifying contract)
     chains/evm/executor/executor.go                executeBatch   (signature assembly)
     chains/substrate/executor/executor.go          executeProposal (signature assembly)

   The hash function is a Section variable: EIP-712 is written out over an arbitrary
   [H : bytes -> bytes]; the correspondence run instantiates it with Lib/C02_Keccak.keccak256. *)
From Coq Require Import List NArith Bool String.
From SygmaV Require Import Lib.Hex.
Import ListNotations.
Local Open Scope N_scope.

(* ---------------------------------------------------------------------------------------- *)
(* big-endian integers *)

(* little-endian base-256 digits, no trailing zero digit *)
Fixpoint le_bytes (fuel : nat) (n : N) : list N :=
  match fuel with
  | O => []
  | S f => if N.eqb n 0 then [] else (n mod 256) :: le_bytes f (n / 256)
  end.

(* big.Int.Bytes(): minimal big-endian encoding (empty for 0) *)
Definition be_bytes (n : N) : list N := rev (le_bytes (N.to_nat (N.size n)) n).

(* big.Int.SetBytes *)
Definition be_to_N (l : list N) : N := fold_left (fun acc b => acc * 256 + b) l 0.

(* common.LeftPadBytes(b, l): unchanged when already l bytes or longer *)
Definition left_pad (l : nat) (b : list N) : list N :=
  if Nat.leb l (List.length b) then b else repeat 0 (Nat.sub l (List.length b)) ++ b.

(* the 32-byte ABI word of an unsigned integer *)
Definition u256 (n : N) : list N := left_pad 32 (be_bytes n).

(* ---------------------------------------------------------------------------------------- *)
(* EIP-712 for  Proposals(Proposal[] proposals)  in the domain  Bridge / version / chainId / contract *)

Record proposal := { p_origin : N; p_nonce : N; p_rid : list N; p_data : list N }.
Record domain := { d_name : list N; d_version : list N; d_chain : N; d_contract : list N }.

Definition type_domain : list N :=
  bytes_of_string "EIP712Domain(string name,string version,uint256 chainId,address verifyingContract)".
Definition type_proposal : list N :=
  bytes_of_string "Proposal(uint8 originDomainID,uint64 depositNonce,bytes32 resourceID,bytes data)".
(* encodeType: the primary type followed by the referenced struct types *)
Definition type_proposals : list N :=
  bytes_of_string "Proposals(Proposal[] proposals)" ++ type_proposal.

Section Eip712.
  Variable H : list N -> list N.

  (* hashStruct(s) = H(typeHash || encodeData(s)) *)
  Definition hash_proposal (p : proposal) : list N :=
    H (H type_proposal ++ u256 (p_origin p) ++ u256 (p_nonce p) ++ p_rid p ++ H (p_data p)).

  (* an array is encoded as the hash of the concatenated member hashes *)
  Definition hash_proposals (ps : list proposal) : list N :=
    H (H type_proposals ++ H (List.concat (map hash_proposal ps))).

  Definition domain_sep (d : domain) : list N :=
    H (H type_domain ++ H (d_name d) ++ H (d_version d) ++ u256 (d_chain d) ++ left_pad 32 (d_contract d)).

  Definition digest (d : domain) (ps : list proposal) : list N :=
    H ([25; 1] ++ domain_sep d ++ hash_proposals ps).
End Eip712.

(* the domain the relayer signs for *)
Definition bridge_name : list N := bytes_of_string "Bridge".
Definition bridge_version : list N := bytes_of_string "3.1.0".
Definition bridge_domain (chain : N) (contract : list N) : domain :=
  {| d_name := bridge_name; d_version := bridge_version; d_chain := chain; d_contract := contract |}.
(* Substrate: the constant "verifying contract" of the pallet *)
Definition substrate_contract : list N := unhex "6CdE2Cd82a4F8B74693Ff5e194c19CA08c2d1c68".

Definition wf_proposal (p : proposal) : bool :=
  (p_origin p <? 256) && (p_nonce p <? 2 ^ 64) && Nat.eqb (List.length (p_rid p)) 32.
Definition wf_domain (d : domain) : bool :=
  (d_chain d <? 2 ^ 63) && Nat.eqb (List.length (d_contract d)) 20.

(* ---------------------------------------------------------------------------------------- *)
(* signature assembly (executeBatch / executeProposal):
     sig = LeftPadBytes(R,32) ++ LeftPadBytes(S,32) ++ SignatureRecovery ; sig[len-1] += 27 *)

(* None: index out of range (the assembled slice is empty) *)
Definition bump_last (l : list N) : option (list N) :=
  match rev l with
  | [] => None
  | x :: t => Some (rev t ++ [(x + 27) mod 256])
  end.

Definition sig_assemble_bytes (R S rec : list N) : option (list N) :=
  bump_last (left_pad 32 R ++ left_pad 32 S ++ rec).

(* tss-lib hands over R = r.Bytes(), S = s.Bytes() (minimal, possibly shorter than 32 bytes) and a
   one-byte recovery id *)
Definition sig_assemble (r s recid : N) : option (list N) :=
  sig_assemble_bytes (be_bytes r) (be_bytes s) [recid].

(* SPECIFICATION of the submitted signature: 65 bytes, r and s as 32-byte big-endian words, then
   v = 27 + recovery id in {27, 28} *)
Definition sig_ok (r s recid : N) (sig : list N) : bool :=
  Nat.eqb (List.length sig) 65 &&
  N.eqb (be_to_N (firstn 32 sig)) r &&
  N.eqb (be_to_N (firstn 32 (skipn 32 sig))) s &&
  match skipn 64 sig with
  | [v] => N.eqb v (27 + recid) && (N.eqb v 27 || N.eqb v 28)
  | _ => false
  end.

(* ---------------------------------------------------------------------------------------- *)
(* A signing session and its batch.

   The executors (chains/evm/executor Execute / watchExecution / executeBatch, chains/substrate/
   executor Execute / watchExecution / executeProposal) start one signing session per batch: they ask
   the bridge for the digest of the batch, hand that value to threshold signing under the session
   id of the batch and, when the signature arrives, submit the SAME batch with it.  *)

Fixpoint bytes_eqb (a b : list N) : bool :=
  match a, b with
  | [], [] => true
  | x :: a', y :: b' => N.eqb x y && bytes_eqb a' b'
  | _, _ => false
  end.

Definition proposal_eqb (p q : proposal) : bool :=
  N.eqb (p_origin p) (p_origin q) && N.eqb (p_nonce p) (p_nonce q) &&
  bytes_eqb (p_rid p) (p_rid q) && bytes_eqb (p_data p) (p_data q).

Fixpoint proposals_eqb (a b : list proposal) : bool :=
  match a, b with
  | [], [] => true
  | p :: a', q :: b' => proposal_eqb p q && proposals_eqb a' b'
  | _, _ => false
  end.

(* what was observed of one session: the batch its session id stands for, the 32 bytes the submitted
   signature is a signature of (= the value that was handed to threshold signing), the batch that was
   submitted with that signature *)
Record session := { s_batch : list proposal; s_signed : list N; s_submitted : list proposal }.

Section Session.
  Variable H : list N -> list N.

  (* two batches are the same commitment for a destination: their digests are equal.  (The first
     disjunct is only a shortcut of the second: equal batches have equal digests.) *)
  Definition same_commitment (d : domain) (a b : list proposal) : bool :=
    proposals_eqb a b || bytes_eqb (digest H d a) (digest H d b).

  (* SPECIFICATION: the value handed to signing for the session is the EIP-712 digest of the
     session's batch, and what is submitted with the signature hashes to the value that was signed *)
  Definition session_ok (d : domain) (s : session) : bool :=
    bytes_eqb (digest H d (s_batch s)) (s_signed s) && same_commitment d (s_submitted s) (s_batch s).

  (* the executors as coded: hash the batch, sign that, submit the batch *)
  Definition model_session (d : domain) (b : list proposal) : session :=
    {| s_batch := b; s_signed := digest H d b; s_submitted := b |}.
End Session.

(* ---------------------------------------------------------------------------------------- *)
(* The digest as a function of its arguments only: [ds] are the digests of some argument tuples,
   [seen] what an implementation returned for tuple number i at some point of a history / under
   concurrent use.  SPECIFICATION: every answer for tuple i is the digest of tuple i. *)
Definition multi_ok (ds : list (list N)) (seen : list (nat * list N)) : bool :=
  forallb (fun x => match nth_error ds (fst x) with
                    | Some d => bytes_eqb d (snd x)
                    | None => false
                    end) seen.

(* ---------------------------------------------------------------------------------------- *)
(* A whole call of Execute.
   chains/evm/executor/executor.go  Execute
     batches := proposalBatches(proposals)             (the first batch is EMPTY when the first pending
                                                        proposal alone reaches transactionMaxGas)
     for i, batch := range batches { if len(batch.proposals) == 0 { continue }
       i := i; b := batch
       p.Go(func() { propHash := e.bridge.ProposalsHash(b.proposals)      the digest of ITS batch
                     sessionID := <messageID>-<i>; signing.NewSigning(propHash, ..., sessionID, ...) ... }) }
   [bs] = the batch list (possibly with empty batches); one session per non-empty batch, each with the
   digest of its own batch. *)
Definition nonempty_batch (b : list proposal) : bool := match b with [] => false | _ => true end.

Section Exec.
  Variable H : list N -> list N.

  (* SPECIFICATION of what was observed of a whole call: every session satisfies [session_ok], and the
     call did not crash (a Go panic while the digests are obtained and handed over leaves batches without
     the value that was to be signed for them) *)
  Definition exec_ok (d : domain) (ss : list session) (crashed : bool) : bool :=
    forallb (session_ok H d) ss && negb crashed.

  (* as coded: (sessions, crashed) *)
  Definition model_exec (d : domain) (bs : list (list proposal)) : list session * bool :=
    (map (model_session H d) (filter nonempty_batch bs), false).

  (* NOT the code: the digests of the non-empty batches are computed up front into a slice
     (hashes = append(hashes, ProposalsHash(batch)) for every non-empty batch) and the session of the batch at
     position i of the UNFILTERED list takes hashes[i]; a Go index out of range panics.  Kept to state what
     goes wrong with it (C02_filtered_index_refuted) and when nothing shows (C02_filtered_index_no_empty). *)
  Fixpoint indexed_sessions (d : domain) (hashes : list (list N)) (i : nat) (bs : list (list proposal))
    : list session * bool :=
    match bs with
    | [] => ([], false)
    | b :: r =>
        let rest := indexed_sessions d hashes (S i) r in
        if nonempty_batch b then
          match nth_error hashes i with
          | Some h => ({| s_batch := b; s_signed := h; s_submitted := b |} :: fst rest, snd rest)
          | None => (fst rest, true)
          end
        else rest
    end.

  Definition filtered_index_exec (d : domain) (bs : list (list proposal)) : list session * bool :=
    indexed_sessions d (map (digest H d) (filter nonempty_batch bs)) 0 bs.
End Exec.

(* ---------------------------------------------------------------------------------------- *)
(* Histories on LONG-LIVED digest objects.
   chains/evm/calls/contracts/bridge/bridge.go  BridgeContract.ProposalsHash
     chainID, err := c.client.ChainID(context.Background())     one RPC per request
     if err != nil { return []byte{}, err }
     return chains.ProposalsHash(proposals, chainID.Int64(), c.ContractAddress().Hex(), bridgeVersion)
   chains/substrate/pallet/pallet.go  Pallet.ProposalsHash      no RPC: the chain id is held by the client
   A relayer builds one such object per destination and uses it for every batch; nothing is kept between
   two requests.  A request names the domain of its object (the REAL chain id of the endpoint, the
   contract the object was built for), its batch, and whether the chain-id RPC fails while it is served. *)

Inductive answer :=
| ADigest (d : list N)      (* a value came back without an error: it is handed to threshold signing *)
| AErr                      (* an error came back: nothing is handed to signing *)
| APanic.                   (* the request ended in a Go panic *)

(* SPECIFICATION of one answer; [want] = the EIP-712 digest for the object's real domain and the batch of
   THIS request.  (A panic is rejected for the reason given at [exec_ok].) *)
Definition answer_ok (want : list N) (a : answer) : bool :=
  match a with
  | ADigest d => bytes_eqb want d
  | AErr => true
  | APanic => false
  end.

(* SPECIFICATION of a history: every answer is judged on its own request - whatever was asked, answered or
   failed before *)
Definition hist_ok (h : list (list N * answer)) : bool :=
  forallb (fun x => answer_ok (fst x) (snd x)) h.

Record request := { q_dom : domain; q_batch : list proposal; q_rpc_fails : bool }.

Definition with_chain (d : domain) (c : N) : domain :=
  {| d_name := d_name d; d_version := d_version d; d_chain := c; d_contract := d_contract d |}.

Section Hist.
  Variable H : list N -> list N.

  Definition want_of (q : request) : list N := digest H (q_dom q) (q_batch q).

  (* as coded *)
  Definition model_answer (q : request) : answer :=
    if q_rpc_fails q then AErr else ADigest (want_of q).

  (* (reference digest, answer) per request; requests to several objects may be interleaved *)
  Definition model_hist (qs : list request) : list (list N * answer) :=
    map (fun q => (want_of q, model_answer q)) qs.

  (* NOT the code: ONE object that asks for the chain id once (sync.Once) and keeps it in a field; the error
     of that one call is returned to the request that made it, every later request uses the field - 0 when
     the call had failed.  State: None = not asked yet, Some c = the kept chain id.  Kept to state what goes
     wrong with it (C02_once_cache_refuted) and when nothing shows (C02_once_cache_healthy_first). *)
  Definition once_step (st : option N) (q : request) : option N * answer :=
    match st with
    | None => if q_rpc_fails q then (Some 0, AErr) else (Some (d_chain (q_dom q)), ADigest (want_of q))
    | Some c => (Some c, ADigest (digest H (with_chain (q_dom q) c) (q_batch q)))
    end.

  Fixpoint once_hist (st : option N) (qs : list request) : list (list N * answer) :=
    match qs with
    | [] => []
    | q :: r => let '(st', a) := once_step st q in (want_of q, a) :: once_hist st' r
    end.
End Hist.
