(* C08 - threshold signing yields a signature valid under the group key; refresh keeps it; for ECDSA
   only the coordinator's process releases the signature.                    (claimed PARTIALLY)

   Definitions only (plain Gallina, executable); proofs are in Proofs/C08.v (glue), the field-level
   algebra is in Proofs/C08_Lagrange.v (mathcomp) and the bridge between the two in
   Proofs/C08_Bridge.v.

   NOT modelled: the MPC protocols inside the third-party libraries (GG18/20 in tss-lib/threshlib,
   FROST in multi-party-sig: commitments, MtA, Paillier, zero-knowledge proofs, rounds) and
   elliptic-curve arithmetic.  What is modelled:
     * the share algebra the protocols rely on, executable over Z mod q   [reconstruct_Zq]
       (Shamir reconstruction at 0 = what tss-lib's PrepareForSigning / FROST's Lagrange
       coefficients compute "in the exponent"), so that REAL key-share files can be judged;
     * what the FROST refresh of this code base does to the shares: frost.RefreshTaproot as called
       by tss/frost/resharing: every member adds shares of a zero-constant polynomial to its OLD
       share, a joining member starts from share 0                                  [frost_refresh_Zq]
       (the ECDSA resharing of tss-lib - every old party re-deals its Lagrange-weighted share - and
       FROST's Derive(tweak) are covered at field level only: reshare_keeps_secret,
       derive_keeps_sharing in Proofs/C08_Lagrange.v)
     * this repository's glue:
         tss/ecdsa/signing/signing.go   processEndMessage          [release]
         the (blocking) send on the caller's result channel, read by the executors' watchExecution
         whenever it gets round to it                               [result_channel]
         tss/frost/signing/signing.go   Derive in NewSigning, not in the re-runnable Run
                                                                    [frost_attempt_share]
         tss/ecdsa/common/utils.go      CreatePartyID, PartiesFromPeers (+ tss.SortPartyIDs)
                                                                    [party_key, sort_keys]
         tss/ecdsa/resharing/resharing.go  sortParties, validateStartParams
                                                                    [sort_parties, validate_start_params]
     * the judges used on what real protocol runs leave behind  [shares_ok, sign_ok, scn_ok]  *)
From Coq Require Import List ZArith NArith Bool.
Import ListNotations.
Local Open Scope Z_scope.

(* ------------------------------------------------------------------------------------------------ *)
(* Arithmetic modulo q (q > 1; for the theorems q is prime).  Every result is in [0, q).            *)

Definition addm (q a b : Z) : Z := (a + b) mod q.
Definition subm (q a b : Z) : Z := (a - b) mod q.
Definition mulm (q a b : Z) : Z := (a * b) mod q.

(* a^e mod q by square-and-multiply over the binary exponent *)
Fixpoint pow_pos_mod (q a : Z) (e : positive) : Z :=
  match e with
  | xH => a mod q
  | xO e' => let r := pow_pos_mod q a e' in mulm q r r
  | xI e' => let r := pow_pos_mod q a e' in mulm q (mulm q r r) a
  end.

Definition powm (q a e : Z) : Z :=
  match e with Zpos p => pow_pos_mod q a p | _ => 1 mod q end.

(* Fermat inverse a^(q-2): correct for every prime q, but slow (hundreds of 256-bit products) *)
Definition fermat_inv (q a : Z) : Z := powm q a (q - 2).

(* Extended Euclid, fuelled: invariant r0 = s0 * a, r1 = s1 * a (mod q).  Its result is only a
   CANDIDATE: inv_mod checks it and otherwise falls back to Fermat, so nothing has to be trusted
   (or proved) about this loop. *)
Fixpoint egcd_inv (fuel : nat) (r0 r1 s0 s1 : Z) : Z :=
  match fuel with
  | O => s0
  | S f => if r1 =? 0 then s0
           else let d := r0 / r1 in egcd_inv f r1 (r0 - d * r1) s1 (s0 - d * s1)
  end.

Definition inv_guess (q a : Z) : Z :=
  egcd_inv (Z.to_nat (2 * Z.log2 q + 4)) q (a mod q) 0 1 mod q.

Definition inv_mod (q a : Z) : Z :=
  let u := inv_guess q a in
  if mulm q a u =? 1 then u else fermat_inv q a.

(* Lagrange coefficient at 0 of node i over the node list ids (nodes equal to i mod q are skipped):
   prod_{j in ids, j <> i} (0 - j) / (i - j) *)
Definition lag_coeff (q : Z) (ids : list Z) (i : Z) : Z :=
  fold_right (fun j acc =>
                if j mod q =? i mod q then acc
                else mulm q (mulm q (subm q 0 j) (inv_mod q (subm q i j))) acc)
             (1 mod q) ids.

(* Shamir reconstruction of the secret f(0) from points (node id, share) *)
Definition reconstruct_Zq (q : Z) (pts : list (Z * Z)) : Z :=
  fold_right (fun p acc => addm q (mulm q (snd p) (lag_coeff q (map fst pts) (fst p))) acc)
             0 pts.

(* polynomial with coefficient list cs (constant term first), Horner *)
Definition eval_Zq (q : Z) (cs : list Z) (x : Z) : Z :=
  fold_right (fun c acc => addm q c (mulm q x acc)) 0 cs.

Definition share_pts (q : Z) (cs : list Z) (ids : list Z) : list (Z * Z) :=
  map (fun i => (i, eval_Zq q cs i)) ids.

(* all sublists of length k (order kept) *)
Fixpoint sublists {A} (k : nat) (l : list A) {struct l} : list (list A) :=
  match l with
  | [] => match k with O => [[]] | S _ => [] end
  | x :: r => match k with
              | O => [[]]
              | S k' => map (cons x) (sublists k' r) ++ sublists k r
              end
  end.

Fixpoint distinct_mod (q : Z) (ids : list Z) : bool :=
  match ids with
  | [] => true
  | i :: r => negb (existsb (fun j => j mod q =? i mod q) r) && distinct_mod q r
  end.

(* THE JUDGE for a set of key shares: the node ids are distinct mod q, there are at least t+1 of
   them, and EVERY t+1 of the holders reconstruct one and the same secret x. *)
Definition shares_ok (q : Z) (t : nat) (pts : list (Z * Z)) (x : Z) : bool :=
  distinct_mod q (map fst pts)
  && (S t <=? length pts)%nat
  && forallb (fun s => reconstruct_Zq q s =? x) (sublists (S t) pts).

(* ---- the FROST refresh of this code base, on shares ------------------------------------------- *)

(* FROST (frost.RefreshTaproot through tss/frost/resharing): new share = old share (0 for a member
   that had none) + g(j), where g = the sum of the members' polynomials, each with constant term 0.
   gs = the coefficients of g above the constant term. *)
Definition lookup_share (q : Z) (old : list (Z * Z)) (j : Z) : Z :=
  match find (fun p => fst p mod q =? j mod q) old with Some p => snd p mod q | None => 0 end.

Definition frost_refresh_Zq (q : Z) (old : list (Z * Z)) (gs : list Z) (new_ids : list Z) : list (Z * Z) :=
  map (fun j => (j, addm q (lookup_share q old j) (eval_Zq q (0 :: gs) j))) new_ids.

(* ------------------------------------------------------------------------------------------------ *)
(* Glue of this repository.                                                                         *)

(* signing.go processEndMessage:  if s.coordinator { resultChn <- &sig } else { resultChn <- nil } *)
Definition release {S : Type} (coordinator : bool) (sig : S) : option S :=
  if coordinator then Some sig else None.

(* the processes of one session: process i runs with coordinator = (i = coord) (tss/coordinator.go:
   initiate -> Run(ctx, true, ...), waitForStart -> Run(ctx, false, ...)) *)
Definition session_release {S : Type} (n coord : nat) (sig : S) : list (option S) :=
  map (fun i => release (Nat.eqb i coord) sig) (seq 0 n).

(* The result channel.  processEndMessage (ECDSA and FROST signing) hands its value over with a plain
   channel send, `s.resultChn <- v`: it waits until the value is taken.  The channel belongs to the
   caller: unbuffered in the EVM and Substrate executors (chains/evm/executor/executor.go: sigChn :=
   make(chan interface{})), of capacity len(tx.TxIn) in the BTC executor, and its reader
   (watchExecution) may be busy when the session ends.  A send of one value into a channel of capacity
   cap either parks the value in the buffer (cap > 0) or blocks the sender until a receiver comes
   (cap = 0); either way the value is still there whenever the reader gets round to receiving.
   [slot] = where that one value is; the reader performs [n] receive operations, at whatever time. *)
Inductive slot (V : Type) := Buffered (v : V) | Blocked (v : V) | Empty.
Arguments Buffered {V} v.
Arguments Blocked {V} v.
Arguments Empty {V}.

Definition send_blocking {V : Type} (cap : nat) (v : V) : slot V :=
  if (0 <? cap)%nat then Buffered v else Blocked v.

Definition recv {V : Type} (s : slot V) : slot V * option V :=
  match s with
  | Buffered v | Blocked v => (Empty, Some v)
  | Empty => (Empty, None)
  end.

Fixpoint reader_receives {V : Type} (s : slot V) (n : nat) : list V :=
  match n with
  | O => []
  | S k => match recv s with
           | (s', Some v) => v :: reader_receives s' k
           | (s', None) => reader_receives s' k
           end
  end.

(* what the reader of the result channel of one process gets: exactly the value processEndMessage
   releases, once, for every capacity and every number (>= 1) / time of receive operations *)
Definition result_channel {S : Type} (coordinator : bool) (sig : S) (cap reads : nat) : list (option S) :=
  reader_receives (send_blocking cap (release coordinator sig)) reads.

(* NOT what the code does - a send that gives up when it cannot complete at once (`select { case ch <-
   v: default: }`): the value survives only in a buffer or with a receiver already parked.  Kept so
   that the model can tell the two apart (Proofs: nonblocking_send_loses). *)
Definition send_nonblocking {V : Type} (cap : nat) (reader_parked : bool) (v : V) : slot V :=
  if (0 <? cap)%nat then Buffered v else if reader_parked then Blocked v else Empty.

Definition got_sig {S : Type} (l : list (option S)) : bool :=
  existsb (fun o => match o with Some _ => true | None => false end) l.

(* judge of what the reader of one ECDSA process's result channel received: the signature iff the
   process is the coordinator's *)
Definition release_ok (coordinator got_signature : bool) : bool := Bool.eqb got_signature coordinator.

(* frost/signing.go: the Taproot tweak is applied to the key share ONCE, in NewSigning
   (TaprootConfig.Derive: share' = share + tweak, negated when the tweaked public key has odd y -
   [neg], an elliptic-curve fact that enters as an input).  Run - which tss.Coordinator calls AGAIN on
   the same object after a retryable failure (handleError -> retry -> start -> Run) - signs with the
   share it finds.  The share a process signs with in its k-th attempt (k = 0, 1, ...): *)
Definition derive_share (q : Z) (neg : bool) (share tweak : Z) : Z :=
  let s := addm q share tweak in if neg then (q - s) mod q else s.

Definition frost_attempt_share (q : Z) (neg : bool) (share tweak : Z) (k : nat) : Z :=
  derive_share q neg share tweak.

(* NOT what the code does: Derive inside Run would tweak once more per attempt *)
Fixpoint derive_in_run_share (q : Z) (neg : bool) (share tweak : Z) (k : nat) : Z :=
  match k with
  | O => derive_share q neg share tweak
  | S k' => derive_share q neg (derive_in_run_share q neg share tweak k') tweak
  end.

(* utils.go CreatePartyID: key = big.Int.SetBytes([]byte(peerID)) - big-endian value of the bytes *)
Definition party_key (bytes : list N) : Z :=
  fold_left (fun acc b => acc * 256 + Z.of_N b) bytes 0.

Definition wf_id (bytes : list N) : bool :=
  forallb (fun b => (b <? 256)%N) bytes
  && match bytes with [] => false | b :: _ => negb (b =? 0)%N end.

(* tss.SortPartyIDs: ascending by key (sort.Sort; unique result when the keys are distinct) *)
Fixpoint insert_key (k : Z) (l : list Z) : list Z :=
  match l with
  | [] => [k]
  | h :: t => if k <=? h then k :: l else h :: insert_key k t
  end.
Definition sort_keys (l : list Z) : list Z := fold_right insert_key [] l.

Definition memZ (k : Z) (l : list Z) : bool := existsb (Z.eqb k) l.

(* resharing.go sortParties(parties, oldParties):
     newParties := make(SortedPartyIDs, len(parties)); copy(newParties, oldParties)
     index := len(oldParties)
     for party in parties: if !IsParticipant(party, oldPeers) { newParties[index] = party; .Index = index; index++ }
   [parties] and [old] are the key-sorted party lists.  Index of every entry = its position. *)
Inductive sp_result := SpOk (l : list Z) | SpNilEntries | SpPanic.

Definition sort_parties (parties old : list Z) : sp_result :=
  let news := filter (fun p => negb (memZ p old)) parties in
  let n := length parties in
  match news with
  | [] => if (length old <? n)%nat then SpNilEntries else SpOk (firstn n old)
  | _ :: _ =>
      if (n <? length old + length news)%nat then SpPanic        (* newParties[index]: out of range *)
      else if (length old + length news <? n)%nat then SpNilEntries
      else SpOk (old ++ news)
  end.

Definition wf_sort_parties (parties old : list Z) : bool :=
  forallb (fun o => memZ o parties) old
  && distinct_mod 0 parties && distinct_mod 0 old.     (* x mod 0 = x: plain distinctness *)

(* spec used as judge: old parties keep their position (= index), the result is a rearrangement of
   the committee *)
Fixpoint list_eqb (a b : list Z) : bool :=
  match a, b with
  | [], [] => true
  | x :: a', y :: b' => (x =? y) && list_eqb a' b'
  | _, _ => false
  end.

Definition sort_parties_ok (parties old : list Z) (res : sp_result) : bool :=
  if wf_sort_parties parties old then
    match res with
    | SpOk l => list_eqb (firstn (length old) l) old
                && (length l =? length parties)%nat
                && forallb (fun p => memZ p l) parties
                && forallb (fun p => memZ p parties) l
    | _ => false
    end
  else true.

(* resharing.go validateStartParams *)
Inductive vres := VOk | VThresholdSmall | VSubsetSmall | VBadSubset.

Definition vres_eqb (a b : vres) : bool :=
  match a, b with
  | VOk, VOk | VThresholdSmall, VThresholdSmall | VSubsetSmall, VSubsetSmall | VBadSubset, VBadSubset => true
  | _, _ => false
  end.

Definition is_nil {A} (l : list A) : bool := match l with [] => true | _ => false end.

Definition validate_start_params (old_t : Z) (sub key_peers store : list Z) : vres :=
  if old_t <=? 0 then VThresholdSmall
  else if Z.of_nat (length sub) <? old_t then VSubsetSmall
  else if negb (is_nil key_peers)
          && negb (list_eqb (sort_keys sub) (filter (fun p => memZ p store) (sort_keys key_peers)))
       then VBadSubset
  else VOk.

(* spec used as judge: accepted iff 0 < old_t <= |sub| and (for a key holder) sub is, as a
   multiset, the holder's old committee restricted to the peers it knows *)
Definition count_Z (x : Z) (l : list Z) : nat := length (filter (Z.eqb x) l).

Definition same_members (a b : list Z) : bool :=
  forallb (fun x => (count_Z x a =? count_Z x b)%nat) (a ++ b).

Definition validate_accepts (old_t : Z) (sub key_peers store : list Z) : bool :=
  (0 <? old_t) && (old_t <=? Z.of_nat (length sub))
  && (is_nil key_peers || same_members sub (filter (fun p => memZ p store) key_peers)).

(* what a valid resharing needs: at least old_t + 1 old parties (tss-lib needs threshold+1 of them) *)
Definition validate_required (old_t : Z) (sub key_peers store : list Z) : bool :=
  (0 <? old_t) && (old_t <? Z.of_nat (length sub))
  && (is_nil key_peers || same_members sub (filter (fun p => memZ p store) key_peers)).

(* THE JUDGE of an observed verdict: nothing outside validate_accepts may be accepted (safety) and
   everything a valid resharing needs must be accepted; the band in between (|sub| = old_t) is left
   to the model <-> implementation comparison *)
Definition validate_ok (old_t : Z) (sub key_peers store : list Z) (accepted : bool) : bool :=
  implb accepted (validate_accepts old_t sub key_peers store)
  && implb (validate_required old_t sub key_peers store) accepted.

(* ------------------------------------------------------------------------------------------------ *)
(* Who may coordinate a session.  tss.Coordinator elects, on every relayer separately, the relayer
   that sorts first for the session id among the candidates the relayer's own process names
   (ValidCoordinators); all the others wait for THAT relayer's initiate and start messages.
     keygen     keygen.go      Host.Peerstore().Peers()            anybody of the committee-to-be
     signing    signing.go     key.Peers                           the holders of the key
     resharing  resharing.go   key.Peers that are in the peerstore the holders of the OLD key that take
                                                                   part in the refresh; a relayer that
                                                                   is only joining names nobody and
                                                                   takes whoever initiates
   [key_peers] = the committee the relayer's stored key share lists ([] = no share), [store] = the
   relayer's peerstore (the committee after the refresh).  A coordinator of a refresh that holds no old
   share sends start parameters everybody rejects (old threshold 0); one that is not in the peerstore
   takes no part in the refresh and is waited for in vain: either way the (non-retryable) refresh fails
   for the session ids for which such a candidate sorts first. *)
Inductive proc_kind := PKeygen | PSigning | PResharing.

Definition coordinator_candidates (k : proc_kind) (key_peers store : list Z) : list Z :=
  match k with
  | PKeygen => store
  | PSigning => key_peers
  | PResharing => filter (fun p => memZ p store) key_peers
  end.

(* tss/frost/resharing before fix 2f3fd0e (/repo): every peer of the stored key share, also those that leave *)
Definition old_frost_resharing_candidates (key_peers store : list Z) : list Z := key_peers.

Definition subsetZ (a b : list Z) : bool := forallb (fun x => memZ x b) a.

(* THE JUDGE of the candidates a real process names: every candidate is somebody the session can be
   coordinated by (keygen: a relayer of the peerstore; signing: a key holder; resharing: a holder of
   the old key that is in the peerstore), and there is a candidate whenever such a relayer exists *)
Definition candidates_ok (k : proc_kind) (key_peers store impl : list Z) : bool :=
  match k with
  | PKeygen => subsetZ impl store && implb (negb (is_nil store)) (negb (is_nil impl))
  | PSigning => subsetZ impl key_peers && implb (negb (is_nil key_peers)) (negb (is_nil impl))
  | PResharing =>
      subsetZ impl key_peers && subsetZ impl store
      && implb (negb (is_nil (filter (fun p => memZ p store) key_peers))) (negb (is_nil impl))
  end.

(* the static election: the candidate of the smallest rank (rank = where Keccak(id || session id)
   puts the relayer; comm/elector/static.go takes SortPeersForSession(candidates)[0]) *)
Fixpoint elect (rank : Z -> Z) (cands : list Z) : option Z :=
  match cands with
  | [] => None
  | c :: r => match elect rank r with
              | None => Some c
              | Some d => if rank c <=? rank d then Some c else Some d
              end
  end.

(* peer ids are compared as byte strings (slices.Sort on peer.ID); code = order-preserving and
   injective for ids of at most 40 bytes: value of the id right-padded with zeros, then the length *)
Definition peer_code (bytes : list N) : Z :=
  party_key (bytes ++ repeat 0%N (40 - length bytes)) * 64 + Z.of_nat (length bytes).

(* ------------------------------------------------------------------------------------------------ *)
(* Judge of a signing session as observed by the harness (EC verification is done by Go and
   enters as booleans; it is not modelled).
     released[i] : process i put a NON-nil signature on the result channel
     valid       : one entry per released signature: it is over exactly the requested digest and
                   verifies under the stored group key (ECDSA: ecrecover/verify; FROST: BIP-340
                   under the tweaked Taproot key)
     must_complete : the session follows a refresh ("the new committee can sign") *)
Fixpoint only_at (coord : nat) (i : nat) (released : list bool) : bool :=
  match released with
  | [] => true
  | b :: r => Bool.eqb b (Nat.eqb i coord) && only_at coord (S i) r
  end.

Definition sign_ok (ecdsa must_complete : bool) (coord : nat) (completed : bool)
           (released valid : list bool) : bool :=
  if completed then
    existsb (fun b => b) released
    && forallb (fun b => b) valid
    && (length (filter (fun b => b) released) =? length valid)%nat
    && (if ecdsa then only_at coord 0 released else true)
  else negb must_complete.

(* ------------------------------------------------------------------------------------------------ *)
(* A scenario = what a sequence of REAL protocol runs left behind: key shares after key generation
   and after every refresh, and the outcome of signing sessions in between. *)
Inductive sobs :=
| OShares (t : nat) (pts : list (Z * Z)) (x_go : Z) (pub_ok : bool)
          (frost_refresh_of : list (Z * Z))   (* non-empty: pts came out of a FROST refresh of these *)
| OSign (must_complete : bool) (coord : nat) (completed : bool) (released valid : list bool).


(* scenario judge: every stage's key shares pass shares_ok with the secret Go reconstructed and
   checked against the stored public key, the secret is the same at every stage (refresh keeps the
   key), every signing session satisfies sign_ok *)
Fixpoint scn_ok (q : Z) (ecdsa : bool) (prev : option Z) (obs : list sobs) : bool :=
  match obs with
  | [] => true
  | OShares t pts x pub _ :: r =>
      shares_ok q t pts x && pub
      && match prev with Some x' => x =? x' | None => true end
      && scn_ok q ecdsa (Some x) r
  | OSign must coord completed released valid :: r =>
      sign_ok ecdsa must coord completed released valid && scn_ok q ecdsa prev r
  end.


(* the secrets of the share stages of a scenario, in order *)
Fixpoint secrets (obs : list sobs) : list Z :=
  match obs with
  | [] => []
  | OShares _ _ x _ _ :: r => x :: secrets r
  | OSign _ _ _ _ _ :: r => secrets r
  end.


(* the ideal outcome of a signing session with n processes *)
Definition ideal_sign (ecdsa must : bool) (n coord : nat) : sobs :=
  OSign must coord true
        (if ecdsa then map (fun i => Nat.eqb i coord) (seq 0 n) else repeat true n)
        (if ecdsa then [true] else repeat true n).


(* the ideal scenario: every stage is a Shamir sharing (coefficients cs, degree <= t) of one secret
   s among nodes distinct mod q, every signing session completes with the expected releases *)
Inductive ideal := IStage (cs ids : list Z) (t : nat) | ISign (must : bool) (n coord : nat).

Definition ideal_obs (q : Z) (ecdsa : bool) (i : ideal) : sobs :=
  match i with
  | IStage cs ids t => OShares t (share_pts q cs ids) (hd 0 cs mod q) true []
  | ISign must n coord => ideal_sign ecdsa must n coord
  end.

Definition ideal_wf (q s : Z) (i : ideal) : bool :=
  match i with
  | IStage cs ids t =>
      distinct_mod q ids && (length cs <=? S t)%nat && (S t <=? length ids)%nat && (hd 0 cs mod q =? s)
  | ISign _ n coord => (coord <? n)%nat
  end.


(* ------------------------------------------------------------------------------------------------ *)
(* chains/btc/executor/executor.go  watchExecution: between the signing results and the broadcast.
   One FROST signing process per transaction input puts Signature{Id, Signature} on the shared
   channel (nil values are skipped); the executor stores it in signatures[Id] and sends the
   transaction as soon as signaturesFilled says every slot is non-empty - with whatever the slots
   hold at that moment.  A result is [None] (a nil value) or [Some id] (what the signing process of
   input id releases: a BIP-340 signature over THAT input's signature hash - so it is valid in slot
   i iff id = i; that the released signature is valid is the subject of sign_ok).  The same input
   can deliver more than once (a retried batch runs every process again) and in any order.       *)
Local Close Scope Z_scope.

Inductive wres :=
| WWaiting                              (* not every slot filled: nothing is sent (it keeps waiting
                                           until its context ends or the signing timeout strikes) *)
| WSent (witness : list (option nat))   (* SendRawTransaction with these per-input signatures *)
| WPanic.                               (* signatures[Id] with Id out of range *)

Fixpoint set_slot (i : nat) (v : option nat) (l : list (option nat)) {struct l} : option (list (option nat)) :=
  match l, i with
  | [], _ => None
  | _ :: r, O => Some (v :: r)
  | x :: r, S j => match set_slot j v r with Some r' => Some (x :: r') | None => None end
  end.

Definition slot_filled (s : option nat) : bool := match s with Some _ => true | None => false end.

Fixpoint btc_watch (slots : list (option nat)) (rs : list (option nat)) : wres :=
  match rs with
  | [] => WWaiting
  | None :: r => btc_watch slots r
  | Some id :: r =>
      match set_slot id (Some id) slots with
      | None => WPanic
      | Some slots' => if forallb slot_filled slots' then WSent slots' else btc_watch slots' r
      end
  end.

Definition btc_watch_tx (n : nat) (rs : list (option nat)) : wres := btc_watch (repeat None n) rs.

(* slot i carries a valid signature for input i *)
Definition slot_valid (i : nat) (s : option nat) : bool :=
  match s with Some id => Nat.eqb id i | None => false end.

Fixpoint slots_valid_from (i : nat) (l : list (option nat)) : list bool :=
  match l with [] => [] | s :: r => slot_valid i s :: slots_valid_from (S i) r end.

(* THE JUDGE of what the executor handed to the node: [sent] transactions were broadcast,
   valids[i] = the witness of input i verifies (btcd script engine, Taproot key path) in every one
   of them.  Whatever is broadcast carries a valid signature on EVERY input. *)
Definition btc_sent_ok (n sent : nat) (valids : list bool) : bool :=
  match sent with
  | O => true
  | _ => Nat.eqb (length valids) n && forallb (fun b => b) valids
  end.

(* THE JUDGE of one complete execution of the BTC executor by the relayers of a committee: per relayer
   (transactions that reached its node, per-input validity).  Whatever any relayer broadcasts is fully
   signed; must_sign - the execution follows a refresh of the committee's shares ("the new committee
   can sign"): the transfer is signed and broadcast by at least one relayer. *)
Definition btc_exec_ok (must_sign : bool) (n : nat) (relayers : list (nat * list bool)) : bool :=
  forallb (fun r => btc_sent_ok n (fst r) (snd r)) relayers
  && (negb must_sign || existsb (fun r => negb (Nat.eqb (fst r) 0)) relayers).

Definition results_in_range (n : nat) (rs : list (option nat)) : bool :=
  forallb (fun r => match r with Some id => Nat.ltb id n | None => true end) rs.

Definition input_delivered (i : nat) (rs : list (option nat)) : bool :=
  existsb (fun r => match r with Some id => Nat.eqb id i | None => false end) rs.
