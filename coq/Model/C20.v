(* C20 - configuration is validated, not silently reinterpreted.
   Executable model of the configuration loaders.  Definitions only; proofs are in Proofs/C20.v.

   Source anchors (Go):
     parse_port        config/relayer/config.go  NewRelayerConfig (HealthPort), parseMpcConfig (Port)
                       repaired:  strconv.ParseUint(s, 0, 16)            -> uint16(v)
                       before  :  strconv.ParseInt (s, 0, 16)            -> uint16(v)   ([old_parse_port])
     parse_duration    config/relayer/config.go  parseMpcConfig / parseBullyConfig  (time.ParseDuration,
                       the one-component grammar <digits><unit>)
     validate          chains/evm/config.go, chains/substrate/config.go, chains/btc/config/config.go
                       NewXConfig: mapstructure.Decode, defaults.Set (zero fields take the default),
                       Validate (repaired: blockInterval >= 1 in all three; before: no interval check,
                       [old_validate])
     accept_id         config/chain/config.go ValidateDomainID, called by the three constructors before
                       mapstructure.Decode (repaired: the raw id must be an integer in 0..255; before:
                       mapstructure narrowed any non-negative number to the uint8 of
                       GeneralChainConfig.Id - 257 -> 1, 1.5 -> 1 - [old_accept_id])
     parse_net         chains/substrate/config.go substrateNetwork int64 -> uint16 (repaired: range
                       check in Validate; before: silent wrap, [old_parse_net])
     calc_start        chains/util.go CalculateStartingBlock (big.Int.Mod panics on a zero modulus)
     merge / process   config/config.go processRawConfig, findChainConfig, compareDomainID and
                       mergo.Merge(&chain, shared) (mergo v0.3.12 deepMerge on map[string]interface{},
                       scalar values: a source value is taken where the destination key is absent or
                       its value is EMPTY: 0, "", false)

   Texts are modelled for the plain decimal grammar only ([+-]?digits, the texts [print_Z] produces
   plus a leading '+'); base prefixes, underscores and leading zeros of Go's base-0 syntax are outside
   the model (the runner does not generate them). *)
From Coq Require Import List ZArith NArith Bool String Ascii DecimalString.
Import ListNotations.
Local Open Scope Z_scope.

(* ---------------------------------------------------------------------------------------------- *)
(* Decimal texts *)

Definition print_N (n : N) : string := NilEmpty.string_of_uint (N.to_uint n).

Definition print_Z (z : Z) : string :=
  match z with
  | Zneg p => String "-" (print_N (Npos p))
  | _ => print_N (Z.to_N z)
  end.

(* digits only, at least one (strconv.ParseUint(s, 10, _) syntax) *)
Definition parse_digits (s : string) : option Z :=
  match s with
  | EmptyString => None
  | _ => option_map (fun u => Z.of_N (N.of_uint u)) (NilEmpty.uint_of_string s)
  end.

(* optional sign, then digits (strconv.ParseInt(s, 10, _) syntax) *)
Definition parse_int_text (s : string) : option Z :=
  match s with
  | String "+" r => parse_digits r
  | String "-" r => option_map Z.opp (parse_digits r)
  | _ => parse_digits s
  end.

(* ---------------------------------------------------------------------------------------------- *)
(* Ports *)

(* repaired code: ParseUint(s, 0, 16); uint16(v) is then the identity *)
Definition parse_port (s : string) : option Z :=
  match parse_digits s with
  | Some v => if v <=? 65535 then Some v else None
  | None => None
  end.

(* the code before the repair: ParseInt(s, 0, 16) accepts -32768..32767, uint16(v) wraps *)
Definition old_parse_port (s : string) : option Z :=
  match parse_int_text s with
  | Some v => if (-32768 <=? v) && (v <=? 32767) then Some (v mod 65536) else None
  | None => None
  end.

(* Specification (judge): [impl] is what the loader did with the written text.
   - accepted  -> the value is the written one and is a port number (0 = "any port" is tolerated:
                  the property speaks about 1..65535, negative and larger values only);
   - rejected  -> the text was not the canonical decimal of a port in 1..65535.
   Texts that are not decimal integers are outside the property. *)
Definition port_ok (text : string) (impl : option Z) : bool :=
  match parse_int_text text with
  | None => true
  | Some v =>
      match impl with
      | Some p => (0 <=? v) && (v <=? 65535) && (p =? v)
      | None => negb ((1 <=? v) && (v <=? 65535) && String.eqb text (print_Z v))
      end
  end.

(* ---------------------------------------------------------------------------------------------- *)
(* Durations: <digits><unit> *)

Inductive unit_ := Uns | Uus | Ums | Us | Um | Uh.

Definition unit_text (u : unit_) : string :=
  match u with Uns => "ns" | Uus => "us" | Ums => "ms" | Us => "s" | Um => "m" | Uh => "h" end.

Definition unit_ns (u : unit_) : Z :=
  match u with
  | Uns => 1 | Uus => 1000 | Ums => 1000000 | Us => 1000000000
  | Um => 60000000000 | Uh => 3600000000000
  end.

Definition unit_of_text (s : string) : option unit_ :=
  if String.eqb s "ns" then Some Uns else if String.eqb s "us" then Some Uus
  else if String.eqb s "ms" then Some Ums else if String.eqb s "s" then Some Us
  else if String.eqb s "m" then Some Um else if String.eqb s "h" then Some Uh else None.

Definition is_digit (a : ascii) : bool :=
  let n := N_of_ascii a in ((48 <=? n) && (n <=? 57))%N.

(* longest prefix of digits, and the rest *)
Fixpoint span_digits (s : string) : string * string :=
  match s with
  | EmptyString => (EmptyString, EmptyString)
  | String a r =>
      if is_digit a then let (d, t) := span_digits r in (String a d, t)
      else (EmptyString, s)
  end.

Definition max_int64 : Z := 9223372036854775807.

(* the text as a quantity: (digits value, unit); None = not of the one-component grammar *)
Definition duration_reading (s : string) : option (Z * unit_) :=
  let (d, t) := span_digits s in
  match parse_digits d, unit_of_text t with
  | Some n, Some u => Some (n, u)
  | _, _ => None
  end.

(* time.ParseDuration on that grammar: nanoseconds, error on int64 overflow *)
Definition parse_duration (s : string) : option Z :=
  match duration_reading s with
  | Some (n, u) => if n * unit_ns u <=? max_int64 then Some (n * unit_ns u) else None
  | None => None
  end.

(* Specification: an accepted duration is exactly the written quantity (and fits); a rejected one did
   not fit.  Texts outside the grammar are outside the property. *)
Definition duration_ok (text : string) (impl : option Z) : bool :=
  match duration_reading text with
  | None => true
  | Some (n, u) =>
      match impl with
      | Some d => (d =? n * unit_ns u) && (d <=? max_int64)
      | None => negb (n * unit_ns u <=? max_int64)
      end
  end.

(* ---------------------------------------------------------------------------------------------- *)
(* Per-chain constructors *)

Inductive chain_kind := Evm | Sub | Btc.

(* a JSON scalar.  Numbers: [JNum z] = the integer z; [JFrac n d] = the non-integral number n/d in
   lowest terms (d >= 2; the runner writes binary fractions such as 3/2, which float64 holds exactly),
   so that two numbers are equal iff their terms are equal *)
Inductive jv := JNum (z : Z) | JStr (s : string) | JBool (b : bool) | JFrac (n : Z) (d : positive).

(* The chain (domain) id.  On the wire a domain id is ONE BYTE (GeneralChainConfig.Id is a *uint8), so
   a written id is representable iff it is an integer in 0..255.
   repaired (config/chain ValidateDomainID before the decoding): exactly those are accepted, and as
   themselves; the int 1 and the float 1.0 are the same number (one [JNum 1]); a string or a bool is
   no number (mapstructure.Decode is not weakly typed: "unconvertible type"). *)
Definition accept_id (v : jv) : option Z :=
  match v with
  | JNum z => if (0 <=? z) && (z <=? 255) then Some z else None
  | _ => None
  end.

(* before the repair: mapstructure v1.4.2 decodeUint - a negative number is an error, any other number
   is converted with uint64(x) (a fraction is truncated) and stored into the uint8 with SetUint, which
   keeps the low byte *)
Definition old_accept_id (v : jv) : option Z :=
  match v with
  | JNum z => if z <? 0 then None else Some (z mod 256)
  | JFrac n d => if n <? 0 then None else Some ((n / Zpos d) mod 256)
  | _ => None
  end.

(* What was written in the chain entry.  [req_missing]: one of the required fields of this chain kind
   (id / endpoint / name / bridge / username / password) is absent.  [ci_id]: the id as written (not
   looked at when the id is the missing field).  The numeric fields are absent (None) or written
   (Some v). *)
Record chain_in := mkChainIn {
  ci_kind : chain_kind;
  ci_req_missing : bool;
  ci_id : jv;
  ci_interval : option Z;
  ci_confs : option Z;
  ci_start : option Z
}.

Record chain_cfg := mkChainCfg { cc_id : Z; cc_interval : Z; cc_confs : Z; cc_start : Z }.

Definition uses_confs (k : chain_kind) : bool := match k with Sub => false | _ => true end.

Definition default_interval : Z := 5.
Definition default_confs : Z := 10.

(* creasty/defaults: a field that is zero after decoding (absent or written 0) takes the default *)
Definition with_default (d : Z) (o : option Z) : Z :=
  match o with
  | Some v => if v =? 0 then d else v
  | None => d
  end.

Definition written (o : option Z) : Z := match o with Some v => v | None => 0 end.

(* the constructors, with the treatment of the id [acc] and whether the interval is checked *)
Definition validate_with (acc : jv -> option Z) (check_interval : bool) (c : chain_in) : option chain_cfg :=
  if ci_req_missing c then None else
  match acc (ci_id c) with
  | None => None
  | Some id =>
      let i := with_default default_interval (ci_interval c) in
      let n := if uses_confs (ci_kind c) then with_default default_confs (ci_confs c) else 0 in
      if uses_confs (ci_kind c) && (n <? 1) then None
      else if check_interval && (i <? 1) then None
      else Some (mkChainCfg id i n (written (ci_start c)))
  end.

(* repaired constructors *)
Definition validate : chain_in -> option chain_cfg := validate_with accept_id true.

(* before the id repair (interval checked, id narrowed) *)
Definition old_id_validate : chain_in -> option chain_cfg := validate_with old_accept_id true.

(* before the interval repair: the interval is not checked (and the id is narrowed) *)
Definition old_validate : chain_in -> option chain_cfg := validate_with old_accept_id false.

(* CalculateStartingBlock: big.Int.Mod is the Euclidean modulus and panics on a zero modulus *)
Inductive calc := Val (z : Z) | Panic.

Definition calc_start (start interval : Z) : calc :=
  if interval =? 0 then Panic else Val (start - start mod (Z.abs interval)).

Definition positive_or_absent (o : option Z) : bool :=
  match o with Some v => 1 <=? v | None => true end.

(* what the implementation did: None = constructor error; Some (cfg, start-block computation) *)
Definition chain_obs := option (chain_cfg * calc).

Definition field_ok (o : option Z) (got : Z) : bool :=
  match o with
  | Some v => if v =? 0 then 1 <=? got else got =? v     (* written non-zero values come back *)
  | None => 1 <=? got                                      (* defaults are positive *)
  end.

(* the id of an accepted configuration: a written NUMBER comes back as itself and is a domain id
   (an integer in 0..255) - so an id outside 0..255 or a non-integral id must not be accepted; on an id
   written as a string / bool the property has no opinion *)
Definition id_ok (v : jv) (got : Z) : bool :=
  match v with
  | JNum z => (0 <=? z) && (z <=? 255) && (got =? z)
  | JFrac _ _ => false
  | JStr _ | JBool _ => true
  end.

(* the written id is a domain id; anything else is a reason to reject *)
Definition id_representable (v : jv) : bool :=
  match v with JNum z => (0 <=? z) && (z <=? 255) | _ => false end.

(* Specification:
   accepted -> the id is the written id and lies in 0..255, interval >= 1, confirmations >= 1 (EVM,
               BTC), every written non-zero value comes back unchanged, the start block is the written
               one, and the start-block computation did not panic;
   rejected -> not (all required fields present, the id a domain id, and every numeric setting positive
               or absent). *)
Definition chain_ok (c : chain_in) (o : chain_obs) : bool :=
  match o with
  | Some (cfg, r) =>
      id_ok (ci_id c) (cc_id cfg)
      && (1 <=? cc_interval cfg) && field_ok (ci_interval c) (cc_interval cfg)
      && (if uses_confs (ci_kind c) then (1 <=? cc_confs cfg) && field_ok (ci_confs c) (cc_confs cfg) else true)
      && (cc_start cfg =? written (ci_start c))
      && match r with Val _ => true | Panic => false end
  | None =>
      negb (negb (ci_req_missing c) && id_representable (ci_id c) && positive_or_absent (ci_interval c)
            && (if uses_confs (ci_kind c) then positive_or_absent (ci_confs c) else true))
  end.

(* USING a loaded configuration.  The application hands the loaded values (the *big.Int pointers of the
   config object) to the start-block computation and to the listeners.  These consumers are functions of
   the values: they return results and leave the configuration as loaded, however often they run.
   [use_chain cfg n] = the configuration after n start-block computations and their results. *)
Definition use_chain (cfg : chain_cfg) (n : nat) : chain_cfg * list calc :=
  (cfg, repeat (calc_start (cc_start cfg) (cc_interval cfg)) n).

Definition chain_cfg_eqb (a b : chain_cfg) : bool :=
  (cc_id a =? cc_id b) && (cc_interval a =? cc_interval b) && (cc_confs a =? cc_confs b) && (cc_start a =? cc_start b).

(* what the runner saw after using an accepted configuration: the id and the three numeric settings read again,
   whether EVERY OTHER field of the config object (deep comparison by value with a snapshot taken right
   after loading) is unchanged, and the results of the start-block computations run after the first *)
Record chain_after := mkAfter { ca_cfg : chain_cfg; ca_rest_same : bool; ca_calcs : list calc }.

(* Specification of the use of an accepted configuration: the settings still equal what was loaded (so,
   with chain_ok, what was written) and no later start-block computation panics. *)
Definition use_ok (o : chain_obs) (a : option chain_after) : bool :=
  match o, a with
  | Some (cfg, _), Some af =>
      chain_cfg_eqb (ca_cfg af) cfg && ca_rest_same af
      && forallb (fun r => match r with Val _ => true | Panic => false end) (ca_calcs af)
  | Some _, None => false
  | None, _ => true
  end.

Definition model_after (o : chain_obs) (n : nat) : option chain_after :=
  match o with
  | Some (cfg, _) => let (cfg', rs) := use_chain cfg n in Some (mkAfter cfg' true rs)
  | None => None
  end.

Definition model_chain (c : chain_in) : chain_obs :=
  match validate c with
  | Some cfg => Some (cfg, calc_start (cc_start cfg) (cc_interval cfg))
  | None => None
  end.

Definition old_model_chain (c : chain_in) : chain_obs :=
  match old_validate c with
  | Some cfg => Some (cfg, calc_start (cc_start cfg) (cc_interval cfg))
  | None => None
  end.

Definition old_id_model_chain (c : chain_in) : chain_obs :=
  match old_id_validate c with
  | Some cfg => Some (cfg, calc_start (cc_start cfg) (cc_interval cfg))
  | None => None
  end.

(* ---------------------------------------------------------------------------------------------- *)
(* substrateNetwork (chains/substrate/config.go): decoded as int64, stored as uint16.
   repaired: Validate rejects values outside 0..65535; before: uint16(v) wrapped silently. *)

Definition parse_net (v : Z) : option Z :=
  if (0 <=? v) && (v <=? 65535) then Some v else None.

Definition old_parse_net (v : Z) : option Z := Some (v mod 65536).

(* Specification: an accepted value is the written one; only values that do not fit are rejected. *)
Definition net_ok (v : Z) (impl : option Z) : bool :=
  match impl with
  | Some p => p =? v
  | None => negb ((0 <=? v) && (v <=? 65535))
  end.

(* ---------------------------------------------------------------------------------------------- *)
(* Local-over-shared merge *)

(* the JSON scalars [jv] are defined above (chain ids) *)
Definition jv_eqb (a b : jv) : bool :=
  match a, b with
  | JNum x, JNum y => x =? y
  | JFrac n d, JFrac n' d' => (n =? n') && Pos.eqb d d'
  | JStr x, JStr y => String.eqb x y
  | JBool x, JBool y => Bool.eqb x y
  | _, _ => false
  end.

(* mergo's isEmptyValue on the scalar kinds *)
Definition jempty (v : jv) : bool :=
  match v with
  | JNum z => z =? 0
  | JStr s => String.eqb s ""
  | JBool b => negb b
  | JFrac _ _ => false            (* a non-integral number is not zero *)
  end.

Definition obj := list (string * jv).

Fixpoint lookup (k : string) (o : obj) : option jv :=
  match o with
  | [] => None
  | (k', v) :: r => if String.eqb k k' then Some v else lookup k r
  end.

Definition has (k : string) (o : obj) : bool := match lookup k o with Some _ => true | None => false end.

(* mergo.Merge(&local, shared) without options: every shared key whose local counterpart is absent
   OR EMPTY is copied from shared *)
Definition merge (local shared : obj) : obj :=
  map (fun kv : string * jv =>
         let (k, v) := kv in
         if jempty v then match lookup k shared with Some w => (k, w) | None => (k, v) end
         else (k, v)) local
  ++ filter (fun kv : string * jv => negb (has (fst kv) local)) shared.

Definition opt_jv_eqb (a b : option jv) : bool :=
  match a, b with
  | Some x, Some y => jv_eqb x y
  | None, None => true
  | _, _ => false
  end.

(* Chain ids.  A chain id is whatever NUMBER was written: an integer of any size and sign or a
   non-integral number; an id written as a string (or bool) is no id.  config.compareDomainID compares
   the decoded values (Go int or float64, in any combination) AS WRITTEN - numerically and exactly: no
   narrowing to the uint8 of the chain constructors, no rounding, no truncation of fractions.  So 257
   is not 1, -255 is not 1, 65537 is not 1, 3/2 is neither 1 nor 2, and the int 1 is the float 1. *)
Inductive idnum := IdInt (z : Z) | IdFrac (n : Z) (d : positive).

Definition compare_domain_id (a b : idnum) : bool :=
  match a, b with
  | IdInt x, IdInt y => x =? y
  | IdFrac n d, IdFrac n' d' => (n =? n') && Pos.eqb d d'
  | _, _ => false
  end.

Definition id_of (o : obj) : option idnum :=
  match lookup "id" o with
  | Some (JNum i) => Some (IdInt i)
  | Some (JFrac n d) => Some (IdFrac n d)
  | _ => None
  end.

(* findChainConfig: the first shared entry whose id compares equal *)
Fixpoint find_chain (i : idnum) (shared : list obj) : option obj :=
  match shared with
  | [] => None
  | s :: r => match id_of s with
              | Some j => if compare_domain_id i j then Some s else find_chain i r
              | None => find_chain i r
              end
  end.

Definition type_present (o : obj) : bool :=
  match lookup "type" o with
  | Some (JStr t) => negb (String.eqb t "")
  | Some _ => true
  | None => false
  end.

(* processRawConfig over the local chain entries; None = error *)
Fixpoint process (locals shared : list obj) : option (list obj) :=
  match locals with
  | [] => Some []
  | c :: r =>
      match id_of c with
      | None => None
      | Some i =>
          if negb (type_present c) then None else
          match find_chain i shared with
          | None => None
          | Some s => match process r shared with
                      | Some out => Some (merge c s :: out)
                      | None => None
                      end
          end
      end
  end.

(* Specification of ONE merged entry against its local entry and the matching shared entry:
   every locally supplied setting is kept, shared-only settings are kept, nothing else appears. *)
Definition entry_ok (local shared out : obj) : bool :=
  forallb (fun kv : string * jv => opt_jv_eqb (lookup (fst kv) out) (Some (snd kv))) local
  && forallb (fun kv : string * jv => has (fst kv) local || opt_jv_eqb (lookup (fst kv) out) (lookup (fst kv) shared)) shared
  && forallb (fun kv : string * jv => has (fst kv) local || has (fst kv) shared) out.

Fixpoint entries_ok (locals shared : list obj) (outs : list obj) : bool :=
  match locals, outs with
  | [], [] => true
  | c :: r, o :: outs' =>
      match id_of c with
      | Some i => match find_chain i shared with
                  | Some s => entry_ok c s o
                  | None => entry_ok c [] o
                  end
      | None => entry_ok c [] o
      end && entries_ok r shared outs'
  | _, _ => false
  end.

(* every local entry has an id, a type and a shared counterpart *)
Definition loadable (locals shared : list obj) : bool :=
  forallb (fun c => match id_of c with
                    | Some i => type_present c && match find_chain i shared with Some _ => true | None => false end
                    | None => false
                    end) locals.

Definition merge_ok (locals shared : list obj) (impl : option (list obj)) : bool :=
  match impl with
  | Some outs => entries_ok locals shared outs
  | None => negb (loadable locals shared)
  end.

(* keys are unique within an entry (JSON objects decoded into Go maps) *)
Fixpoint nodup_keys (o : obj) : bool :=
  match o with
  | [] => true
  | (k, _) :: r => negb (has k r) && nodup_keys r
  end.

(* no explicitly written empty value in the entry *)
Definition no_empty (o : obj) : bool := forallb (fun kv : string * jv => negb (jempty (snd kv))) o.

(* ---------------------------------------------------------------------------------------------- *)
(* KEY SPELLING.  A chain entry is a JSON object: a Go map[string]interface{} whose keys keep the case
   they were written in (viper lower-cases the keys of nested maps only, not of the maps inside the
   "domains" list; encoding/json keeps map keys as they are).  The constructors decode it with
   mapstructure v1.4.2, which looks a struct field's key up EXACTLY first and otherwise takes a key
   that is equal to it under case folding (strings.EqualFold; the first such key in Go's map order,
   which is random - [lookup_fold] takes the first in the order of the list, the correspondence run
   accepts the outcome of either order).  So "id", "Id", "ID" and "iD" are ONE setting for the decoder,
   and whatever is checked about the id must be checked for every spelling of it:
     config/chain ValidateDomainID   scans ALL keys k with EqualFold(k, "id") and demands of every
                                     numeric value that it is an integer in 0..255 ([ids_valid]);
     config.processRawConfig         (loading against a shared configuration) reads chain["id"] and
                                     chain["type"] exactly: an entry that spells them otherwise is
                                     rejected ("chain 'id' not configured") ([loader_pre]).
   Keys are modelled for ASCII letters (EqualFold's other folds - the Kelvin sign for 'k', the long s
   for 's' - are outside the model and not generated). *)

Definition lower_ascii (a : ascii) : ascii :=
  let n := N_of_ascii a in
  if ((65 <=? n) && (n <=? 90))%N then ascii_of_N (n + 32) else a.

Fixpoint lower (s : string) : string :=
  match s with
  | EmptyString => EmptyString
  | String a r => String (lower_ascii a) (lower r)
  end.

Definition eq_ci (a b : string) : bool := String.eqb (lower a) (lower b).

(* the entries of [o] whose key is a spelling of [k], and their values *)
Definition ci_entries (k : string) (o : obj) : obj := filter (fun kv : string * jv => eq_ci (fst kv) k) o.
Definition ci_values (k : string) (o : obj) : list jv := map snd (ci_entries k o).

Fixpoint lookup_fold (k : string) (o : obj) : option jv :=
  match o with
  | [] => None
  | (k', v) :: r => if eq_ci k' k then Some v else lookup_fold k r
  end.

(* mapstructure's key lookup for the field tagged [k] *)
Definition lookup_ci (k : string) (o : obj) : option jv :=
  match lookup k o with
  | Some v => Some v
  | None => lookup_fold k o
  end.

(* ValidateDomainID on one raw value: a number has to be an integer in 0..255; a value of another
   type is left for the decoder to refuse *)
Definition id_value_valid (v : jv) : bool :=
  match v with
  | JNum z => (0 <=? z) && (z <=? 255)
  | JFrac _ _ => false
  | JStr _ | JBool _ => true
  end.

(* ValidateDomainID: every key that is a spelling of "id" *)
Definition ids_valid (o : obj) : bool :=
  forallb (fun kv : string * jv => if eq_ci (fst kv) "id" then id_value_valid (snd kv) else true) o.

(* the 'simplified' validator that looks the key up exactly (chainConfig["id"]) - NOT the code;
   kept to state what goes wrong with it ([exact_validate_doc], C20_exact_id_lookup_refuted) *)
Definition exact_ids_valid (o : obj) : bool :=
  match lookup "id" o with Some v => id_value_valid v | None => true end.

(* a chain entry as written: the id, the type and the numeric settings with the spelling of their keys
   (possibly several spellings of one key); [cd_req_missing]: a required STRING setting (endpoint / name
   / bridge / username / password) is absent under every spelling; [cd_shared]: the entry is loaded by
   a loader against a shared configuration (which then carries the id the entry writes under "id") *)
Record chain_doc := mkDoc {
  cd_kind : chain_kind;
  cd_shared : bool;
  cd_req_missing : bool;
  cd_entry : obj
}.

Definition num_field (k : string) (o : obj) : option Z :=
  match lookup_ci k o with Some (JNum z) => Some z | _ => None end.

(* what the decoder reads out of the entry *)
Definition doc_in (d : chain_doc) : chain_in :=
  let e := cd_entry d in
  mkChainIn (cd_kind d)
    (cd_req_missing d || match lookup_ci "id" e with None => true | Some _ => false end)
    (match lookup_ci "id" e with Some v => v | None => JNum 0 end)
    (num_field "blockInterval" e) (num_field "blockConfirmations" e) (num_field "startBlock" e).

(* processRawConfig: chain["id"] a number, chain["type"] present - looked up exactly *)
Definition loader_pre (e : obj) : bool :=
  match lookup "id" e with
  | Some (JNum _) | Some (JFrac _ _) => type_present e
  | _ => false
  end.

Definition validate_doc_with (idsv : obj -> bool) (v : chain_in -> option chain_cfg) (d : chain_doc)
  : option chain_cfg :=
  if cd_shared d && negb (loader_pre (cd_entry d)) then None
  else if negb (idsv (cd_entry d)) then None
  else v (doc_in d).

(* the code: ValidateDomainID over every spelling, then decode + Validate *)
Definition validate_doc : chain_doc -> option chain_cfg := validate_doc_with ids_valid validate.

(* exact-key validator in front of the (narrowing) decoder *)
Definition exact_validate_doc : chain_doc -> option chain_cfg := validate_doc_with exact_ids_valid old_id_validate.

Definition obs_of (o : option chain_cfg) : chain_obs :=
  match o with
  | Some cfg => Some (cfg, calc_start (cc_start cfg) (cc_interval cfg))
  | None => None
  end.

Definition model_doc (d : chain_doc) : chain_obs := obs_of (validate_doc d).
Definition exact_model_doc (d : chain_doc) : chain_obs := obs_of (exact_validate_doc d).

(* the same entry listed in the opposite order (the other order in which Go may visit the map) *)
Definition rev_doc (d : chain_doc) : chain_doc :=
  mkDoc (cd_kind d) (cd_shared d) (cd_req_missing d) (rev (cd_entry d)).

Definition is_num (v : jv) : bool := match v with JNum _ | JFrac _ _ => true | _ => false end.

(* JUDGE for an entry with arbitrary key spellings.  The decoder treats all spellings of a key as the
   same setting, so: an ACCEPTED configuration's id equals one of the numbers written under a spelling
   of "id" and that number is a domain id (an integer in 0..255; no opinion when only strings / bools
   were written); interval and confirmations are >= 1 and each equals a value written under a spelling
   of its key (0 / absent: the positive default); the start block is one of the written ones (absent:
   0); the start-block computation did not panic.  Refusing to load is always allowed. *)
Definition id_ok_any (vs : list jv) (got : Z) : bool :=
  match filter is_num vs with
  | [] => true
  | ns => existsb (fun v => id_ok v got) ns
  end.

Definition field_ok_any (vs : list jv) (got : Z) : bool :=
  match vs with
  | [] => field_ok None got
  | _ => existsb (fun v => match v with JNum z => field_ok (Some z) got | _ => false end) vs
  end.

Definition start_ok_any (vs : list jv) (got : Z) : bool :=
  match vs with
  | [] => got =? 0
  | _ => existsb (fun v => match v with JNum z => got =? z | _ => false end) vs
  end.

Definition doc_ok (d : chain_doc) (o : chain_obs) : bool :=
  let e := cd_entry d in
  match o with
  | Some (cfg, r) =>
      id_ok_any (ci_values "id" e) (cc_id cfg)
      && (1 <=? cc_interval cfg) && field_ok_any (ci_values "blockInterval" e) (cc_interval cfg)
      && (if uses_confs (cd_kind d)
          then (1 <=? cc_confs cfg) && field_ok_any (ci_values "blockConfirmations" e) (cc_confs cfg)
          else true)
      && start_ok_any (ci_values "startBlock" e) (cc_start cfg)
      && match r with Val _ => true | Panic => false end
  | None => true
  end.

(* hypothesis of the theorems (the generator satisfies it): the numeric settings are written as
   integers *)
Definition numeric_key (k : string) : bool :=
  eq_ci k "blockInterval" || eq_ci k "blockConfirmations" || eq_ci k "startBlock".

Definition doc_wf (d : chain_doc) : bool :=
  forallb (fun kv : string * jv =>
             if numeric_key (fst kv) then match snd kv with JNum _ => true | _ => false end else true)
          (cd_entry d).

Local Open Scope string_scope.
(* ---------------------------------------------------------------------------------------------- *)
(* String-valued settings (config/relayer/config.go RawRelayerConfig and its sub-structs, the string /
   bool / list fields of the chain configs).  Both loaders hand the written text over unchanged:
     env loader   config/env.go loadENVToJsonStructure: the entry NAME=VALUE is split at its FIRST '=',
                  the NAME at every '_' (nesting; matched case-insensitively by encoding/json); the
                  VALUE is not interpreted;
     file loader  viper + mapstructure: keys are lower-cased, values are not interpreted.
   The only documented exceptions: a required setting (topology encryption key / url / path, chain
   name / endpoint / bridge / username / password) that is absent or empty is an error, and an absent
   or empty setting with a default takes the default (logFile -> "out.log", bools -> false). *)

Inductive str_rule := Required | Defaulted (d : string) | Plain.

Definition written_text (w : option string) : string := match w with Some s => s | None => "" end.

Definition load_string (r : str_rule) (w : option string) : option string :=
  if String.eqb (written_text w) "" then
    match r with Required => None | Defaulted d => Some d | Plain => Some "" end
  else Some (written_text w).

Definition missing_required (rw : str_rule * option string) : bool :=
  match load_string (fst rw) (snd rw) with None => true | Some _ => false end.

(* a whole configuration: any missing required setting fails the load *)
Definition load_strings (ws : list (str_rule * option string)) : option (list string) :=
  if existsb missing_required ws then None
  else Some (map (fun rw : str_rule * option string =>
                    match load_string (fst rw) (snd rw) with Some s => s | None => "" end) ws).

(* JUDGE: the load fails, or every loaded value equals the written text (an absent / empty text may
   have been replaced by the documented default) - never a silently altered value *)
Definition str_ok (r : str_rule) (w : option string) (got : string) : bool :=
  if String.eqb (written_text w) "" then
    String.eqb got "" || match r with Defaulted d => String.eqb got d | _ => false end
  else String.eqb got (written_text w).

Fixpoint strs_ok_list (ws : list (str_rule * option string)) (gs : list string) : bool :=
  match ws, gs with
  | [], [] => true
  | (r, w) :: ws', g :: gs' => str_ok r w g && strs_ok_list ws' gs'
  | _, _ => false
  end.

Definition strs_ok (ws : list (str_rule * option string)) (impl : option (list string)) : bool :=
  match impl with None => true | Some gs => strs_ok_list ws gs end.

(* LogLevel: zerolog.ParseLevel on the level names (numeric texts are outside the model) *)
Definition level_names : list string :=
  ["trace"; "debug"; "info"; "warn"; "error"; "fatal"; "panic"; "disabled"]%string.

Definition parse_level (s : string) : option string :=
  if existsb (String.eqb s) level_names then Some s else None.

Definition level_ok (text : string) (impl : option string) : bool :=
  match impl with None => true | Some l => String.eqb l text end.
