(* C07 - all relayers agree on who coordinates a session and who signs; only the coordinator's
   initiate / start / fail messages move a relayer.
   Executable model; definitions only (proofs: Proofs/C07.v).

   Source anchors (Go):
     less / sort_peers     tss/util/sort.go  SortablePeerSlice.Less:  uint64be(keccak256(Pretty(p) ++ sid)[0:8]) of i  >  of j
                           tss/util/util.go  SortPeersForSession (sort.Sort)
     coordinator           comm/elector/static.go  staticCoordinatorElector.Coordinator: first of the sorted slice, "" if empty
     ready_participants    tss/{ecdsa,frost}/signing/signing.go readyParticipants: ready peers contained in key.Peers
     is_ready              .. Ready:        len(readyParticipants) == Threshold+1
     start_params          .. StartParams:  sorted readyParticipants, appended until len == Threshold+1
     initiate              tss/coordinator.go initiate: readyPeers starts as [self]; a sender is appended unless excluded or
                           already present; Ready is asked after every ready message; on true the subset is announced
     wait_step             tss/coordinator.go waitForStart (initiate / start cases) and watchExecution (fail case)

   Peers are numbered (index into the case's peer table); the 64-bit sort key of a peer for the
   session is a parameter [key] (computed by keccak in Go; never needed in the proofs).          *)
From Coq Require Import List ZArith NArith Bool.
Import ListNotations.

Definition peer := N.

Definition memb (p : peer) (l : list peer) : bool := existsb (N.eqb p) l.

Fixpoint nodupb (l : list peer) : bool :=
  match l with
  | [] => true
  | x :: r => negb (memb x r) && nodupb r
  end.

Section Election.
  Variable key : peer -> N.

  (* Go: Less(i, j) = key(i) > key(j)  (descending order of the hash prefix) *)
  Definition less (p q : peer) : bool := (key q <? key p)%N.

  Fixpoint insert (p : peer) (l : list peer) : list peer :=
    match l with
    | [] => [p]
    | q :: r => if less p q then p :: q :: r else q :: insert p r
    end.

  Definition sort_peers (l : list peer) : list peer := fold_right insert [] l.

  (* None = the empty peer id "" returned for an empty candidate list *)
  Definition coordinator (l : list peer) : option peer := hd_error (sort_peers l).

  Definition ready_participants (holders ready : list peer) : list peer :=
    filter (fun p => memb p holders) ready.

  Definition is_ready (holders : list peer) (t : Z) (ready : list peer) : bool :=
    (Z.of_nat (length (ready_participants holders ready)) =? t + 1)%Z.

  (* for _, p := range l { out = append(out, p); if len(out) == n { break } }   (cnt = len(out) so far) *)
  Fixpoint take_until (n cnt : Z) (l : list peer) : list peer :=
    match l with
    | [] => []
    | x :: r => if (cnt + 1 =? n)%Z then [x] else x :: take_until n (cnt + 1)%Z r
    end.

  Definition start_params (holders : list peer) (t : Z) (ready : list peer) : list peer :=
    take_until (t + 1)%Z 0%Z (sort_peers (ready_participants holders ready)).

  Definition add_ready (excluded ready : list peer) (f : peer) : list peer :=
    if memb f excluded || memb f ready then ready else ready ++ [f].

  (* The coordinator's ready loop over a stream of ready-message senders.
     Result: the readyPeers argument of every Ready call, and the announced subset (if any). *)
  Fixpoint initiate (holders : list peer) (t : Z) (excluded ready : list peer) (msgs : list peer)
    : list (list peer) * option (list peer) :=
    match msgs with
    | [] => ([], None)
    | f :: r =>
        let ready' := add_ready excluded ready f in
        if is_ready holders t ready' then ([ready'], Some (start_params holders t ready'))
        else let (cs, a) := initiate holders t excluded ready' r in (ready' :: cs, a)
    end.
End Election.

(* Specification of an announced subset (the judge of the Subset cases). *)
Definition subset_ok (holders : list peer) (t : Z) (excluded : list peer) (self : peer)
           (senders : list peer) (S : list peer) : bool :=
  (Z.of_nat (length S) =? t + 1)%Z
  && nodupb S
  && forallb (fun p => memb p holders) S
  && forallb (fun p => N.eqb p self || memb p senders) S
  && memb self S
  && forallb (fun p => negb (memb p excluded)) S.

(* ---------------------------------------------------------------------------------------------- *)
(* The non-coordinator side: reactions to initiate / start / fail messages. *)

Inductive wmsg :=
| MInitiate (from : peer)
| MStart (from : peer) (params : option (list peer))   (* None: payload is not a start message *)
| MFail (from : peer).

Inductive wout :=
| OReady (to : peer)            (* ready message sent to [to] *)
| ORun (params : list peer)     (* TssProcess.Run called with these params *)
| OBadStart                     (* the session ended with the start message's decoding error *)
| OAbort.                       (* the session ended with "tss fail message received" *)

Inductive wstate := Waiting | Running | Finished.

Definition msg_from (m : wmsg) : peer :=
  match m with MInitiate f | MStart f _ | MFail f => f end.

(* waitForStart: coordinator == "" (None) accepts every sender *)
Definition from_ok (c : option peer) (f : peer) : bool :=
  match c with None => true | Some c => N.eqb f c end.
(* watchExecution: msg.From.Pretty() != coordinator.Pretty() -> ignored; nobody's id prints as "" *)
Definition fail_ok (c : option peer) (f : peer) : bool :=
  match c with None => false | Some c => N.eqb f c end.

Definition wait_step (c : option peer) (st : wstate) (m : wmsg) : wstate * list wout :=
  match st with
  | Finished => (Finished, [])
  | Waiting =>
      match m with
      | MInitiate f => if from_ok c f then (Waiting, [OReady f]) else (Waiting, [])
      | MStart f ps =>
          if from_ok c f then
            match ps with Some l => (Running, [ORun l]) | None => (Finished, [OBadStart]) end
          else (Waiting, [])
      | MFail f => if fail_ok c f then (Finished, [OAbort]) else (Waiting, [])
      end
  | Running =>
      (* waitForStart is blocked in the process pool: initiate / start messages are not read *)
      match m with
      | MFail f => if fail_ok c f then (Finished, [OAbort]) else (Running, [])
      | _ => (Running, [])
      end
  end.

Fixpoint run_wait (c : option peer) (st : wstate) (msgs : list wmsg) : wstate * list wout :=
  match msgs with
  | [] => (st, [])
  | m :: r =>
      let (st', o) := wait_step c st m in
      let (st'', o') := run_wait c st' r in (st'', o ++ o')
  end.

Definition from_is (c : peer) (m : wmsg) : bool := N.eqb (msg_from m) c.

Definition list_peer_eqb (a b : list peer) : bool :=
  (fix go a b := match a, b with
                 | [], [] => true
                 | x :: a', y :: b' => N.eqb x y && go a' b'
                 | _, _ => false
                 end) a b.

Definition opt_list_eqb (a b : option (list peer)) : bool :=
  match a, b with
  | None, None => true
  | Some x, Some y => list_peer_eqb x y
  | _, _ => false
  end.

(* Specification used as judge: every output is caused by a message of the coordinator [c]. *)
Definition caused (c : peer) (msgs : list wmsg) (o : wout) : bool :=
  match o with
  | OReady p => N.eqb p c && existsb (fun m => match m with MInitiate f => N.eqb f c | _ => false end) msgs
  | ORun l => existsb (fun m => match m with MStart f (Some l') => N.eqb f c && list_peer_eqb l l' | _ => false end) msgs
  | OBadStart => existsb (fun m => match m with MStart f None => N.eqb f c | _ => false end) msgs
  | OAbort => existsb (fun m => match m with MFail f => N.eqb f c | _ => false end) msgs
  end.

Definition count_ready (outs : list wout) : nat :=
  length (filter (fun o => match o with OReady _ => true | _ => false end) outs).
Definition count_runs (outs : list wout) : nat :=
  length (filter (fun o => match o with ORun _ => true | _ => false end) outs).
Definition count_initiates (c : peer) (msgs : list wmsg) : nat :=
  length (filter (fun m => match m with MInitiate f => N.eqb f c | _ => false end) msgs).

Definition outs_justified (c : peer) (msgs : list wmsg) (outs : list wout) : bool :=
  forallb (caused c msgs) outs
  && (count_ready outs <=? count_initiates c msgs)%nat
  && (count_runs outs <=? 1)%nat.

(* ---------------------------------------------------------------------------------------------- *)
(* The retried attempt (tss/coordinator.go handleError -> retry -> start).  handleError starts
   watchExecution with the EMPTY coordinator id ([wc] = None) although the attempt does have a
   coordinator - the winner [c] of the bully election, which start() hands to waitForStart (or this
   relayer itself, which then runs the ready loop).  [wait_step2] separates the two ids: [wc] is what
   the watcher was told, [c] what waitForStart was told; [wait_step c] = [wait_step2 c c]. *)

Definition wait_step2 (wc c : option peer) (st : wstate) (m : wmsg) : wstate * list wout :=
  match st with
  | Finished => (Finished, [])
  | Waiting =>
      match m with
      | MInitiate f => if from_ok c f then (Waiting, [OReady f]) else (Waiting, [])
      | MStart f ps =>
          if from_ok c f then
            match ps with Some l => (Running, [ORun l]) | None => (Finished, [OBadStart]) end
          else (Waiting, [])
      | MFail f => if fail_ok wc f then (Finished, [OAbort]) else (Waiting, [])
      end
  | Running =>
      match m with
      | MFail f => if fail_ok wc f then (Finished, [OAbort]) else (Running, [])
      | _ => (Running, [])
      end
  end.

Fixpoint run_wait2 (wc c : option peer) (st : wstate) (msgs : list wmsg) : wstate * list wout :=
  match msgs with
  | [] => (st, [])
  | m :: r =>
      let (st', o) := wait_step2 wc c st m in
      let (st'', o') := run_wait2 wc c st' r in (st'', o ++ o')
  end.

(* a non-coordinator of the retried attempt, as coded *)
Definition retry_wait (c2 : peer) (msgs : list wmsg) : wstate * list wout :=
  run_wait2 None (Some c2) Waiting msgs.

(* The coordinator of the retried attempt: the ready loop sees the ready messages, the watcher
   (empty coordinator id) the fail messages.  Event = (true, p): ready message from p;
   (false, p): fail message from p.  Result: announced subset (= Run params) and whether the
   session was aborted by a fail message. *)
Definition ev_readies (evs : list (bool * peer)) : list peer :=
  flat_map (fun e : bool * peer => if fst e then [snd e] else []) evs.
Definition ev_fails (evs : list (bool * peer)) : list peer :=
  flat_map (fun e : bool * peer => if fst e then [] else [snd e]) evs.

Section RetryCoord.
  Variable key : peer -> N.
  (* as coded the watcher was told the empty id: no fail message aborts the attempt *)
  Definition retry_coord (holders : list peer) (t : Z) (excluded : list peer) (self : peer)
             (evs : list (bool * peer)) : option (list peer) * bool :=
    (snd (initiate key holders t excluded [self] (ev_readies evs)), existsb (fail_ok None) (ev_fails evs)).
End RetryCoord.

(* Specification of the coordinator's side of a retried attempt: an abort needs a fail message
   authenticated as coming from the attempt's coordinator (this relayer itself), and an announced
   subset is well-formed. *)
Definition retry_coord_ok (holders : list peer) (t : Z) (excluded : list peer) (self : peer)
           (evs : list (bool * peer)) (run : option (list peer)) (aborted : bool) : bool :=
  (if aborted then memb self (ev_fails evs) else true)
  && match run with
     | Some sub => subset_ok holders t excluded self (ev_readies evs) sub
     | None => true
     end.

(* ---------------------------------------------------------------------------------------------- *)
(* The waits with time (tss/coordinator.go waitForStart's coordinatorTimeoutTicker next to the
   watchExecution ticker).  Messages carry arrival times (ms after the wait began).

     [deadline]  when waitForStart's ticker fires next: time.NewTicker(timeout) at the beginning, and
                 ONLY an initiate message whose sender passes the coordinator check re-arms it
                 (coordinatorTimeoutTicker.Reset(timeout)); its first tick ends the wait with
                 CoordinatorError{coordinator}
     [tto]       the watcher's ticker (c.TssTimeout), never re-armed: "tss process timed out"
     [horizon]   how long the relayer is watched

   [tw_run] = what the relayer did and how the observation ended: by one of the two tickers, or still
   waiting / still running at the horizon, or finished by the coordinator's fail / undecodable start
   message. *)

Inductive tend := TWaiting | TRunning | TFinished | TCoordTimeout | TWatchTimeout.

Definition tend_of (st : wstate) : tend :=
  match st with Waiting => TWaiting | Running => TRunning | Finished => TFinished end.

(* which ticker ends the present state, and when *)
Definition expiry (deadline tto : N) (st : wstate) : N * tend :=
  match st with
  | Waiting => if (deadline <? tto)%N then (deadline, TCoordTimeout) else (tto, TWatchTimeout)
  | _ => (tto, TWatchTimeout)
  end.

Definition rearm (c : option peer) (cto deadline : N) (st : wstate) (at_ : N) (m : wmsg) : N :=
  match st, m with
  | Waiting, MInitiate f => if from_ok c f then (at_ + cto)%N else deadline
  | _, _ => deadline
  end.

Fixpoint tw_run (wc c : option peer) (cto tto horizon deadline : N) (st : wstate) (msgs : list (N * wmsg))
  : list wout * tend :=
  match msgs with
  | [] =>
      match st with
      | Finished => ([], TFinished)
      | _ => let (e, k) := expiry deadline tto st in ([], if (e <? horizon)%N then k else tend_of st)
      end
  | (at_, m) :: r =>
      match st with
      | Finished => ([], TFinished)
      | _ =>
          let (e, k) := expiry deadline tto st in
          if (e <=? at_)%N then ([], k)
          else
            let (st', o) := wait_step2 wc c st m in
            let (o', k') := tw_run wc c cto tto horizon (rearm c cto deadline st at_ m) st' r in
            (o ++ o', k')
      end
  end.

(* the first attempt of a relayer whose coordinator is [c]: Execute's watcher is told [c] too *)
Definition timed_first (c : peer) (cto tto horizon : N) (msgs : list (N * wmsg)) : list wout * tend :=
  tw_run (Some c) (Some c) cto tto horizon cto Waiting msgs.

(* the retried attempt of a relayer that lost the re-election to [c2]: handleError's watcher is told
   the empty id *)
Definition timed_retry (c2 : peer) (cto tto horizon : N) (msgs : list (N * wmsg)) : list wout * tend :=
  tw_run None (Some c2) cto tto horizon cto Waiting msgs.

(* arrival times do not decrease, and everything arrives while the relayer is watched *)
Fixpoint sorted_times (msgs : list (N * wmsg)) : bool :=
  match msgs with
  | [] => true
  | x :: r => forallb (fun y : N * wmsg => (fst x <=? fst y)%N) r && sorted_times r
  end.

Definition in_horizon (horizon : N) (msgs : list (N * wmsg)) : bool :=
  forallb (fun x : N * wmsg => (fst x <? horizon)%N) msgs.

Definition own_msgs (c : peer) (msgs : list (N * wmsg)) : list (N * wmsg) :=
  filter (fun x : N * wmsg => from_is c (snd x)) msgs.

Definition tend_eqb (a b : tend) : bool :=
  match a, b with
  | TWaiting, TWaiting | TRunning, TRunning | TFinished, TFinished
  | TCoordTimeout, TCoordTimeout | TWatchTimeout, TWatchTimeout => true
  | _, _ => false
  end.

Definition wout_eqb (a b : wout) : bool :=
  match a, b with
  | OReady p, OReady q => N.eqb p q
  | ORun l, ORun l' => list_peer_eqb l l'
  | OBadStart, OBadStart => true
  | OAbort, OAbort => true
  | _, _ => false
  end.

Fixpoint wouts_eqb (a b : list wout) : bool :=
  match a, b with
  | [], [] => true
  | x :: a', y :: b' => wout_eqb x y && wouts_eqb a' b'
  | _, _ => false
  end.

Definition tobs_eqb (a b : list wout * tend) : bool :=
  wouts_eqb (fst a) (fst b) && tend_eqb (snd a) (snd b).

(* Specification used as judge of the timed cases: the relayer was watched twice, once fed [msgs] and
   once fed only the coordinator's own messages of [msgs] (same arrival times): what it did and how
   the wait ended - in particular WHETHER AND BY WHICH TICKER it timed out within the horizon - is the
   same.  Messages of other peers are ignored: they neither move the relayer nor keep it waiting. *)
Definition timed_ignored (c : peer) (horizon : N) (msgs : list (N * wmsg))
           (with_all with_own : list wout * tend) : bool :=
  if sorted_times msgs && in_horizon horizon msgs
  then tobs_eqb with_all with_own && outs_justified c (map snd msgs) (fst with_all)
  else true.

(* ---------------------------------------------------------------------------------------------- *)
(* Which role a relayer takes in an attempt (tss/coordinator.go start):
     coordinator.Pretty() == c.host.ID().Pretty()  ->  initiate (the coordinator's ready loop),
     otherwise                                          waitForStart.
   Pretty() is the base58 text of ALL bytes of an id, an injective printing: the comparison is identity of
   peers, which is what a peer number stands for here (two table entries are two different byte strings,
   however much alike they look).  The empty id returned for an empty candidate list ([None]) is nobody's
   host id. *)
Definition takes_coordinator_role (c : option peer) (self : peer) : bool :=
  match c with Some c => N.eqb c self | None => false end.

(* ---------------------------------------------------------------------------------------------- *)
(* Several sessions on ONE relayer (one long-lived tss.Coordinator object serves every session of a
   relayer; Execute runs once per session, concurrently).  Every Execute call has its own coordinator
   (elected from ITS session id), its own waitForStart loop and its own watcher - the Coordinator
   object shares nothing between sessions but the table of pending session ids.  A session is named by
   a number; [cs s] is the coordinator of session s (the id both waitForStart and the watcher of that
   session are told); an event (s, m) is message m arriving for session s (messages carry their
   session id; the communication layer hands them to the subscriptions of that session only).
   [multi_run] is what the relayer does, every action tagged with the session it belongs to. *)
Definition session := N.
Definition sstate := session -> wstate.

Definition upd (st : sstate) (s : session) (x : wstate) : sstate :=
  fun k => if N.eqb k s then x else st k.

(* [wcs s] = what the watcher of session s was told, [cs s] = what its waitForStart was told: the same id in
   a first attempt, the empty id / the re-elected coordinator in a retried attempt (see wait_step2) *)
Fixpoint multi_run2 (wcs cs : session -> option peer) (st : sstate) (script : list (session * wmsg))
  : list (session * wout) :=
  match script with
  | [] => []
  | (s, m) :: r =>
      let (st', o) := wait_step2 (wcs s) (cs s) (st s) m in
      map (pair s) o ++ multi_run2 wcs cs (upd st s st') r
  end.

(* every session in its first attempt *)
Definition multi_run (cs : session -> option peer) : sstate -> list (session * wmsg) -> list (session * wout) :=
  multi_run2 cs cs.

Definition of_session {A : Type} (s : session) (l : list (session * A)) : list A :=
  map snd (filter (fun x : session * A => N.eqb (fst x) s) l).

Definition all_waiting : sstate := fun _ => Waiting.

(* the events a session's own coordinator sent (sessions without a coordinator accept everybody) *)
Definition own_events (cs : session -> option peer) (script : list (session * wmsg)) : list (session * wmsg) :=
  filter (fun e : session * wmsg => match cs (fst e) with Some c => from_is c (snd e) | None => true end) script.
