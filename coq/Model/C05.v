(* C05 - every finalized source block is scanned despite faults and restarts.
   Executable model of the three scan loops, of the start-block wiring of app.Run, and the
   specification predicate (judge) on observed traces.  Definitions only; proofs in Proofs/C05.v.

   Source anchors (Go):
     Btc  chains/btc/listener/listener.go  BtcListener.ListenToEvents
            block s when head - s >= conf; handlers in order, first error -> `continue loop`
            (same s); StoreBlock(s) (error only logged); s := s+1
     Evm  sygma-core chains/evm/listener/listener.go  EVMListener.ListenToEvents
            range [s, s+i-1] when head - (s+i) >= conf; StoreBlock(s+i); s := s+i
     Sub  sygma-core chains/substrate/listener/listener.go  SubstrateListener.ListenToEvents
            range [s, s+i-1] when finalized >= s+i; StoreBlock(s+i); s := s+i
     all three: startBlock == nil is replaced by the first head that is read
     sygma-core store/blockstore.go  GetStartBlock (latest -> nil; fresh -> configured;
            else the larger of stored (0 if absent) and configured)
     chains/util.go  CalculateStartingBlock (s - s mod i; nil -> error)
     app/app.go  Run: per chain kind, which of these are composed, with which arguments (the quantity
            the start block is aligned to, which start values pass through that call) and what
            reaches NewXChain(...).PollEvents -> ListenToEvents(ctx, start): the [wiring] record, whose
            three instances are GENERATED into Gen/C05_Wiring.v by tools/wiring2coq, together with
            the arguments of the GetStartBlock call ([start_call], below).

   Block numbers are non-negative in every use (the generator and the well-formedness predicates
   say so); big.Int.Bytes() dropping the sign of a stored block is therefore not modelled. *)
From Coq Require Import List ZArith NArith Bool.
Import ListNotations.
Local Open Scope Z_scope.

Inductive kind := Evm | Sub | Btc.

(* which quantity app.Run passes at a call site that expects the block interval *)
Inductive align_source :=
| AlignInterval        (* config.BlockInterval *)
| AlignConfirmations   (* config.BlockConfirmations *)
| AlignNone            (* no such call (CalculateStartingBlock is not called / the Bitcoin listener) *)
| AlignOther.          (* any other expression: neither composed by the runner nor modelled *)

(* what app.Run hands to the chain constructor as the start block *)
Inductive chain_source :=
| ChainStart           (* NewXChain(..., startBlock): the value derived above *)
| ChainConfigured      (* NewXChain(..., config.StartBlock); not modelled: GetStartBlock may return that very
                          *big.Int and CalculateStartingBlock works in place, so the configured value may
                          have been aligned by then (the runner composes the real calls on one pointer) *)
| ChainNil             (* NewXChain(..., nil) / no start-block parameter *)
| ChainOther.          (* any other expression: neither composed by the runner nor modelled *)

Record wiring := {
  reads_store : bool;            (* startBlock, err := blockstore.GetStartBlock(...) *)
  head_if_nil : bool;            (* if startBlock == nil { startBlock = client.LatestBlock() } *)
  align_arg : align_source;      (* startBlock, err = chains.CalculateStartingBlock(startBlock, <align_arg>) *)
  aligns_known : bool;           (* ... and the value read from the store / configuration goes through that call *)
  aligns_head : bool;            (* ... and the head substituted for nil goes through that call
                                    (both false when align_arg = AlignNone) *)
  chain_arg : chain_source;      (* NewXChain(..., <chain_arg>) and PollEvents hands it to the listener *)
  steps_by_interval : bool       (* NewEVMListener / NewSubstrateListener (..., config.BlockInterval); Bitcoin: the
                                    listener is built over the configuration.  The scan loops below step by
                                    [ival c]: they model the code only for wirings with this flag (wiring_ok). *)
}.

(* the two flags the record used to consist of *)
Definition aligns_to_interval (w : wiring) : bool :=
  match align_arg w with AlignInterval => aligns_known w && aligns_head w | _ => false end.
Definition passes_start_to_chain (w : wiring) : bool :=
  match chain_arg w with ChainStart => true | _ => false end.

Record cfg := {
  kd : kind;
  ival : Z;        (* config BlockInterval *)
  conf : Z;        (* config BlockConfirmations (unused on Substrate) *)
  nh : nat;        (* number of event handlers *)
  cstart : Z;      (* config StartBlock *)
  latest : bool;   (* GeneralChainConfig.LatestBlock *)
  fresh : bool     (* GeneralChainConfig.FreshStart *)
}.

(* ---- what app.Run hands to blockstore.GetStartBlock(domainID, startBlock, latest, fresh) ----------
   app.go (directly, through local names or through helper functions of package app) gives each
   parameter an expression over the chain's configuration; tools/wiring2coq extracts, per chain kind,
   WHICH: Gen/C05_Wiring.v start_evm / start_substrate / start_btc.  GetStartBlock then sees the
   configuration [sc_cfg sc c], not [c]. *)
Inductive flag_expr :=
| FLatest                       (* config.GeneralChainConfig.LatestBlock *)
| FFresh                        (* config.GeneralChainConfig.FreshStart *)
| FConst (b : bool)
| FNot (e : flag_expr)
| FAnd (a b : flag_expr) | FOr (a b : flag_expr) | FEq (a b : flag_expr) | FNe (a b : flag_expr)
| FOther.                       (* anything else: neither composed by the runner nor modelled *)

Inductive block_expr :=
| BConfigured                   (* config.StartBlock *)
| BLit (v : Z)                  (* big.NewInt(v) *)
| BOther.

Record start_call := { sc_block : block_expr; sc_latest : flag_expr; sc_fresh : flag_expr }.

Fixpoint flag_val (l f : bool) (e : flag_expr) : bool :=
  match e with
  | FLatest => l
  | FFresh => f
  | FConst b => b
  | FNot a => negb (flag_val l f a)
  | FAnd a b => flag_val l f a && flag_val l f b
  | FOr a b => flag_val l f a || flag_val l f b
  | FEq a b => Bool.eqb (flag_val l f a) (flag_val l f b)
  | FNe a b => xorb (flag_val l f a) (flag_val l f b)
  | FOther => false
  end.

Fixpoint flag_known (e : flag_expr) : bool :=
  match e with
  | FOther => false
  | FNot a => flag_known a
  | FAnd a b | FOr a b | FEq a b | FNe a b => flag_known a && flag_known b
  | _ => true
  end.

Definition block_val (configured : Z) (b : block_expr) : Z :=
  match b with BLit v => v | _ => configured end.

(* the configuration as GetStartBlock is told it *)
Definition sc_cfg (sc : start_call) (c : cfg) : cfg :=
  {| kd := kd c; ival := ival c; conf := conf c; nh := nh c;
     cstart := block_val (cstart c) (sc_block sc);
     latest := flag_val (latest c) (fresh c) (sc_latest sc);
     fresh := flag_val (latest c) (fresh c) (sc_fresh sc) |}.

(* The call tells GetStartBlock the truth: the configured start block, and each flag is given an
   expression that equals that flag under all four settings of (latest, fresh). *)
Definition flags_faithful (sc : start_call) : bool :=
  forallb (fun lf : bool * bool =>
             Bool.eqb (flag_val (fst lf) (snd lf) (sc_latest sc)) (fst lf) &&
             Bool.eqb (flag_val (fst lf) (snd lf) (sc_fresh sc)) (snd lf))
          [(false, false); (false, true); (true, false); (true, true)].

Definition start_call_ok (sc : start_call) : bool :=
  match sc_block sc with BConfigured => true | _ => false end &&
  flag_known (sc_latest sc) && flag_known (sc_fresh sc) && flags_faithful sc.

(* app.go as it stands: blockstore.GetStartBlock(id, config.StartBlock, latest, fresh) *)
Definition canonical_start : start_call :=
  {| sc_block := BConfigured; sc_latest := FLatest; sc_fresh := FFresh |}.

Definition align (s i : Z) : Z := s - s mod i.

Definition stored_or0 (stored : option Z) : Z := match stored with Some v => v | None => 0 end.

(* sygma-core BlockStore.GetStartBlock *)
Definition get_start_block (stored : option Z) (c : cfg) : option Z :=
  if latest c then None
  else if fresh c then Some (cstart c)
  else if stored_or0 stored >? cstart c then Some (stored_or0 stored) else Some (cstart c).

(* What the wiring of app.Run does before the listener goroutine exists. *)
Inductive boot_result :=
| BReady (cur : option Z)   (* PollEvents -> ListenToEvents(ctx, cur) *)
| BNeedHead                 (* app.Run itself asks the node for the head first *)
| BDead.                    (* CalculateStartingBlock(nil, _) -> error -> panic, or a zero modulus: never starts *)

(* chains.CalculateStartingBlock(v, d) = v - v mod d with d as app.Run chooses it.  big.Int.Mod panics
   on a zero modulus: [align_dead] (the block interval is >= 1: wf_cfg and the configuration loader;
   confirmation depths are >= 0). *)
Definition align_by (w : wiring) (c : cfg) (v : Z) : Z :=
  match align_arg w with
  | AlignInterval => align v (ival c)
  | AlignConfirmations => if 1 <=? conf c then align v (conf c) else v
  | _ => v
  end.

Definition align_dead (w : wiring) (c : cfg) : bool :=
  match align_arg w with AlignConfirmations => conf c <=? 0 | _ => false end.

(* a start block known before the node is asked (block store / configuration) *)
Definition app_align (w : wiring) (c : cfg) (v : Z) : Z :=
  if aligns_known w then align_by w c v else v.

(* the head substituted for a nil start block *)
Definition app_align_head (w : wiring) (c : cfg) (h : Z) : Z :=
  if aligns_head w then align_by w c h else h.

Definition to_chain (w : wiring) (c : cfg) (v : option Z) : option Z :=
  match chain_arg w with
  | ChainStart => v
  | ChainConfigured => Some (cstart c)
  | _ => None
  end.

Definition boot (w : wiring) (c : cfg) (stored : option Z) : boot_result :=
  match (if reads_store w then get_start_block stored c else None) with
  | None => if head_if_nil w then BNeedHead
            else if aligns_known w then BDead
            else BReady (to_chain w c None)
  | Some v => if aligns_known w && align_dead w c then BDead
              else BReady (to_chain w c (Some (app_align w c v)))
  end.

(* ---- the scan loop --------------------------------------------------------------------------- *)

Definition stp (c : cfg) : Z := match kd c with Btc => 1 | _ => ival c end.

Definition ready (c : cfg) (head s : Z) : bool :=
  match kd c with
  | Evm => negb (head - (s + ival c) <? conf c)
  | Sub => negb (head <? s + ival c)
  | Btc => negb (head - s <? conf c)
  end.

(* value handed to StoreBlock after the range starting at s was handled *)
Definition pv (c : cfg) (s : Z) : Z := match kd c with Btc => s | _ => s + ival c end.

Inductive pc := PBoot | PPoll | PHandle (k : nat) | PStore | PDead.

Record st := { s_pc : pc; s_cur : option Z; s_stored : option Z }.

(* what the environment does at the next externally visible step *)
Inductive ev :=
| RpcFail               (* the node cannot be read *)
| Head (h : Z)          (* the node reports head h (Substrate: finalized head) *)
| Handler (ok : bool)   (* the event handler that is called next returns nil / an error *)
| Store (ok : bool)     (* the block-store write succeeds / fails *)
| Crash.                (* the process dies here; it is started again from the block store.
                           That is also what a Go PANIC inside a handler, the node client or the
                           block store is on this code: none of the three scan loops recovers, so
                           the panic ends the process.  The runner raises such panics, observes
                           whether the listener died (then the event is this Crash) or somebody
                           recovered and the same listener went on (then the call counts as failed:
                           Handler false / RpcFail / Store false) and the judge holds the trace to
                           the same specification either way. *)

Inductive out :=
| OStart (cur : option Z)            (* a lifetime begins: ListenToEvents(ctx, cur) *)
| OHandle (k : nat) (s e : Z) (ok : bool)   (* handler k was given [s, e] and returned ok *)
| OStore (v : Z) (ok : bool).        (* StoreBlock(v) *)

Definition reboot (w : wiring) (c : cfg) (stored : option Z) : st * list out :=
  match boot w c stored with
  | BReady cur => ({| s_pc := PPoll; s_cur := cur; s_stored := stored |}, [OStart cur])
  | BNeedHead => ({| s_pc := PBoot; s_cur := None; s_stored := stored |}, [])
  | BDead => ({| s_pc := PDead; s_cur := None; s_stored := stored |}, [])
  end.

(* An event that does not apply to the current program point is consumed without effect (the
   scripted environment of the runner does the same). *)
Definition step (w : wiring) (c : cfg) (s : st) (e : ev) : st * list out :=
  match e with
  | Crash => reboot w c (s_stored s)
  | _ =>
    match s_pc s with
    | PDead => (s, [])
    | PBoot =>
        match e with
        | Head h =>
            if aligns_head w && align_dead w c
            then ({| s_pc := PDead; s_cur := None; s_stored := s_stored s |}, [])
            else
            let cur := to_chain w c (Some (app_align_head w c h)) in
            ({| s_pc := PPoll; s_cur := cur; s_stored := s_stored s |}, [OStart cur])
        | _ => (s, [])   (* RpcFail: app.Run panics, the process starts again: same state *)
        end
    | PPoll =>
        match e with
        | Head h =>
            let b := match s_cur s with Some b => b | None => h end in
            if ready c h b
            then ({| s_pc := (if Nat.eqb (nh c) 0 then PStore else PHandle 0);
                     s_cur := Some b; s_stored := s_stored s |}, [])
            else ({| s_pc := PPoll; s_cur := Some b; s_stored := s_stored s |}, [])
        | _ => (s, [])
        end
    | PHandle k =>
        match e, s_cur s with
        | Handler ok, Some b =>
            ({| s_pc := (if ok then (if Nat.eqb (S k) (nh c) then PStore else PHandle (S k)) else PPoll);
                s_cur := Some b; s_stored := s_stored s |},
             [OHandle k b (b + stp c - 1) ok])
        | _, _ => (s, [])
        end
    | PStore =>
        match e, s_cur s with
        | Store ok, Some b =>
            ({| s_pc := PPoll; s_cur := Some (b + stp c);
                s_stored := (if ok then Some (pv c b) else s_stored s) |},
             [OStore (pv c b) ok])
        | _, _ => (s, [])
        end
    end
  end.

Fixpoint run_from (w : wiring) (c : cfg) (s : st) (evs : list ev) : list out :=
  match evs with
  | [] => []
  | e :: r => let (s', o) := step w c s e in o ++ run_from w c s' r
  end.

Fixpoint state_after (w : wiring) (c : cfg) (s : st) (evs : list ev) : st :=
  match evs with
  | [] => s
  | e :: r => state_after w c (fst (step w c s e)) r
  end.

(* The whole history of a relayer: first start with block-store contents [stored0], then [evs]. *)
Definition run (w : wiring) (c : cfg) (stored0 : option Z) (evs : list ev) : list out :=
  snd (reboot w c stored0) ++ run_from w c (fst (reboot w c stored0)) evs.

(* ---- the wiring conditions ------------------------------------------------------------------ *)

(* C05: the persisted cursor is read and reaches the listener (and, if it is aligned on the way, then
   to the block interval, by which the listener steps). *)
Definition align_safe (w : wiring) : bool :=
  match align_arg w with AlignInterval | AlignNone => true | _ => false end.

Definition wiring_ok (w : wiring) : bool :=
  reads_store w && passes_start_to_chain w && align_safe w && steps_by_interval w.

(* C19 (interval chains): additionally every start - stored, configured or head - is aligned. *)
Definition wiring_aligned (w : wiring) : bool :=
  reads_store w && head_if_nil w && aligns_to_interval w && passes_start_to_chain w && steps_by_interval w.

Definition wf_cfg (c : cfg) : bool := (1 <=? ival c) && negb (Nat.eqb (nh c) 0).

(* ---- the specification on observed traces (the judge) --------------------------------------- *)

(* The relayer's starting point: the configured start block or the persisted cursor, whichever is
   larger ([fresh]: the configured one).  [latest]: wherever the head is - no fixed point. *)
Definition start_point (c : cfg) (stored0 : option Z) : option Z :=
  if latest c then None
  else Some (if fresh c then cstart c else Z.max (stored_or0 stored0) (cstart c)).

Record jst := {
  j_lf : option Z;          (* this lifetime: everything visited below it is fully handled *)
  j_hi : option Z;          (* all lifetimes: everything from the starting point below it is fully handled *)
  j_rng : option (Z * Z);   (* range of the round in progress *)
  j_got : list nat          (* handlers that returned nil on that range in this round *)
}.

Definition le_opt (x : Z) (o : option Z) : bool := match o with Some y => x <=? y | None => true end.

Definition all_handlers (n : nat) (got : list nat) : bool :=
  forallb (fun k => existsb (Nat.eqb k) got) (seq 0 n).

Definition jstep (c : cfg) (j : jst) (o : out) : option jst :=
  match o with
  | OStart _ =>
      (* a new lifetime; with the [latest] flag the operator chose a new starting point *)
      Some {| j_lf := None; j_hi := (if latest c then None else j_hi j); j_rng := None; j_got := [] |}
  | OHandle k s e ok =>
      if negb (s <=? e) then None else
      let cont := match j_rng j with Some (s', e') => (s =? s') && (e =? e') | None => false end in
      let j1 :=
        if cont then Some j
        else if le_opt s (j_lf j) && le_opt s (j_hi j)
             then Some {| j_lf := Some s;
                          j_hi := (match j_hi j with None => Some s | Some h => Some h end);
                          j_rng := Some (s, e); j_got := [] |}
             else None in
      match j1 with
      | None => None
      | Some j1 =>
          let got' := if ok then k :: j_got j1 else j_got j1 in
          if all_handlers (nh c) got'
          then Some {| j_lf := Some (e + 1);
                       j_hi := (match j_hi j1 with None => Some (e + 1) | Some h => Some (Z.max h (e + 1)) end);
                       j_rng := j_rng j1; j_got := got' |}
          else Some {| j_lf := j_lf j1; j_hi := j_hi j1; j_rng := j_rng j1; j_got := got' |}
      end
  | OStore v _ =>
      if le_opt v (j_lf j) && le_opt v (j_hi j)
      then Some {| j_lf := j_lf j; j_hi := j_hi j; j_rng := None; j_got := [] |}
      else None
  end.

Fixpoint jrun (c : cfg) (j : jst) (obs : list out) : option jst :=
  match obs with
  | [] => Some j
  | o :: r => match jstep c j o with Some j' => jrun c j' r | None => None end
  end.

Definition jinit (c : cfg) (stored0 : option Z) : jst :=
  {| j_lf := None; j_hi := start_point c stored0; j_rng := None; j_got := [] |}.

(* THE judge: the observed trace of a relayer (all its lifetimes) is acceptable. *)
Definition trace_ok (c : cfg) (stored0 : option Z) (obs : list out) : bool :=
  match jrun c (jinit c stored0) obs with Some _ => true | None => false end.

(* ---- Prop-level vocabulary of the property --------------------------------------------------- *)

(* block b was handed to handler k, which returned nil *)
Definition covered (tr : list out) (k : nat) (b : Z) : Prop :=
  exists s e, In (OHandle k s e true) tr /\ s <= b <= e.

(* block b was handed successfully to every handler *)
Definition full (n : nat) (tr : list out) (b : Z) : Prop :=
  forall k, (k < n)%nat -> covered tr k b.

(* some range starting at or below b was looked at *)
Definition visited (tr : list out) (b : Z) : Prop :=
  exists k s e ok, In (OHandle k s e ok) tr /\ s <= b.

(* the events of the lifetime in progress at the end of [tr] *)
Definition cur_life (tr : list out) : list out :=
  fold_left (fun acc o => match o with OStart _ => [] | _ => acc ++ [o] end) tr [].

(* ---- event handlers propagate fetch errors (second part of the correspondence) -------------- *)

(* A handler whose fetch of the range fails must return an error (so that the loop above keeps the
   range); nothing else is demanded of it here. *)
Definition propagate_ok (fetch_ok returned_err : bool) : bool := fetch_ok || returned_err.
Definition handler_returns_err (fetch_ok : bool) : bool := negb fetch_ok.

(* ---- handlers ask the node for the range they were given (third part of the correspondence) --- *)

(* One HandleEvents(s, e) call of a repository event handler over a node that records the
   arguments of every read: [asked] = the (from, to) bounds of the range reads it made, as given (a
   read with from > to asks for nothing: sygma-core's connection loops `for i := from; i <= to`,
   eth_getLogs returns nothing; Bitcoin: (n, n) for a block whose transactions were fetched with
   the hash the node returned for n); [fired] = some read of that call could not be served by the
   node (several fallible reads may belong to one call: one per retry event, one per block);
   [err] = the handler returned an error. *)
Fixpoint zrange (s : Z) (n : nat) : list Z :=
  match n with O => [] | S n' => s :: zrange (s + 1) n' end.

Definition asked_b (asked : list (Z * Z)) (b : Z) : bool :=
  existsb (fun r => (fst r <=? b) && (b <=? snd r)) asked.

(* every block of [s, e] lies inside some range the node was asked for *)
Definition covers (s e : Z) (asked : list (Z * Z)) : bool :=
  forallb (asked_b asked) (zrange s (Z.to_nat (e - s + 1))).

(* The specification of one call: a read that failed is reported (whichever of the call's reads it
   was, whatever the later ones did), and a call that reports success has asked the node for every
   block of its range. *)
Definition reads_ok (s e : Z) (fired : bool) (asked : list (Z * Z)) (err : bool) : bool :=
  propagate_ok (negb fired) err && (err || covers s e asked).

(* the handlers as they are: one read of exactly the range; an error iff a read failed *)
Definition handler_asks (s e : Z) : list (Z * Z) := [(s, e)].
