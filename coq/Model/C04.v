(* C04 - only sufficiently confirmed source events are relayed.
   Executable model of the five confirmation guards and of the BTC scan loop's waiting rule.
   Definitions only; proofs are in Proofs/C04.v.

   Source anchors (Go):
     BtcScan     chains/btc/listener/listener.go        ListenToEvents:  head - start  <  conf  -> wait
     EvmRetryTx  chains/evm/calls/events/listener.go    FetchRetryDepositEvents: latest.Cmp(rblk+conf) != 1 -> error
     EvmRetryMsg chains/evm/executor/message-handler.go RetryMessageHandler:     latest.Cmp(h+conf)   != 1 -> error
     BtcRetryMsg chains/btc/executor/message-handler.go RetryMessageHandler:     latest.Cmp(h+conf)   != 1 -> error
     SubRetryMsg chains/substrate/executor/message-handler.go  finalized.Cmp(h) != 1 -> error
     SubRetryEvt chains/substrate/listener/event-handlers.go   finalized.Cmp(h) == -1 -> skip            *)
From Coq Require Import List ZArith NArith Bool.
Import ListNotations.
Local Open Scope Z_scope.

Inductive path := BtcScan | EvmRetryTx | EvmRetryMsg | BtcRetryMsg | SubRetryMsg | SubRetryEvt.

(* [head] is the chain head (on Substrate: the finalized head), [blk] the block of the event. *)
Definition accept (p : path) (head blk conf : Z) : bool :=
  match p with
  | BtcScan => negb (head - blk <? conf)
  | EvmRetryTx | EvmRetryMsg | BtcRetryMsg => head >? blk + conf
  | SubRetryMsg => head >? blk
  | SubRetryEvt => negb (head <? blk)
  end.

Definition uses_conf (p : path) : bool :=
  match p with SubRetryMsg | SubRetryEvt => false | _ => true end.

(* Number of confirmations of block [blk] when the head is [head]. *)
Definition confirmations (head blk : Z) : Z := head - blk + 1.

(* The specification used as judge on what the implementation did (handled = the event of block
   [blk] was turned into messages / handed to the deposit processing). *)
Definition single_ok (p : path) (head blk conf : Z) (handled : bool) : bool :=
  (* safety, every path *)
  (if handled then (if uses_conf p then conf <=? confirmations head blk else blk <=? head) else true)
  &&
  (* liveness, regular scan only: one confirmation more than required is enough *)
  (match p with
   | BtcScan => if conf + 1 <=? confirmations head blk then handled else true
   | _ => true
   end).

(* The BTC scan loop over a history of observed heads (one successful poll per element; all event
   handlers succeed - handler and RPC failures are C05's subject).  [cur = None] is the nil start
   block, replaced by the first head seen.  Output: (poll index, block handled at that poll). *)
Fixpoint scan (cur : option Z) (conf : Z) (k : N) (heads : list Z) : list (N * Z) :=
  match heads with
  | [] => []
  | h :: r =>
      let c := match cur with Some c => c | None => h end in
      if h - c <? conf then scan (Some c) conf (k + 1)%N r
      else (k, c) :: scan (Some (c + 1)) conf (k + 1)%N r
  end.

(* Judge for a whole history: walk the polls with the cursor implied by the observation itself. *)
Fixpoint hist_ok (cur : option Z) (conf : Z) (k : N) (heads : list Z) (obs : list (N * Z)) : bool :=
  match heads with
  | [] => match obs with [] => true | _ => false end
  | h :: r =>
      let c := match cur with Some c => c | None => h end in
      match obs with
      | (k', b) :: obs' =>
          if N.eqb k' k then
            (* handled now: must be the cursor block, and sufficiently confirmed *)
            Z.eqb b c && (conf <=? confirmations h b) && hist_ok (Some (c + 1)) conf (k + 1)%N r obs'
          else
            (* not handled at this poll: allowed only if it lacks the extra confirmation *)
            negb (conf + 1 <=? confirmations h c) && hist_ok (Some c) conf (k + 1)%N r obs
      | [] => negb (conf + 1 <=? confirmations h c) && hist_ok (Some c) conf (k + 1)%N r obs
      end
  end.
