(* C04 - only sufficiently confirmed source events are relayed.
   Executable model of the five confirmation guards and of the BTC scan loop's waiting rule.
   Definitions only; proofs are in Proofs/C04.v.

   Source anchors (Go):
     BtcScan     chains/btc/listener/listener.go        ListenToEvents:  head - start  <  conf  -> wait
     EvmRetryTx  chains/evm/calls/events/listener.go    FetchRetryDepositEvents: latest.Cmp(rblk+conf) != 1 -> error
     EvmRetryMsg chains/evm/executor/message-handler.go RetryMessageHandler:     latest.Cmp(h+conf)   != 1 -> error
     BtcRetryMsg chains/btc/executor/message-handler.go RetryMessageHandler:     latest.Cmp(h+conf)   != 1 -> error
     SubRetryMsg chains/substrate/executor/message-handler.go  finalized.Cmp(h) != 1 -> error
     SubRetryEvt chains/substrate/listener/event-handlers.go   finalized.Cmp(h) == -1 -> skip            *)
From Coq Require Import List ZArith NArith Bool.
Import ListNotations.
Local Open Scope Z_scope.

Inductive path := BtcScan | EvmRetryTx | EvmRetryMsg | BtcRetryMsg | SubRetryMsg | SubRetryEvt.

(* [head] is the chain head (on Substrate: the finalized head), [blk] the block of the event. *)
Definition accept (p : path) (head blk conf : Z) : bool :=
  match p with
  | BtcScan => negb (head - blk <? conf)
  | EvmRetryTx | EvmRetryMsg | BtcRetryMsg => head >? blk + conf
  | SubRetryMsg => head >? blk
  | SubRetryEvt => negb (head <? blk)
  end.

Definition uses_conf (p : path) : bool :=
  match p with SubRetryMsg | SubRetryEvt => false | _ => true end.

(* Number of confirmations of block [blk] when the head is [head]. *)
Definition confirmations (head blk : Z) : Z := head - blk + 1.

(* ---- the domain of each path's inputs -------------------------------------------------------
   The guards are modelled over unbounded Z.  The Go values they are computed from live in these
   types (the correspondence run generates exactly these domains, up to and beyond every width
   boundary; nothing the types can hold is excluded):
     BtcScan      head  int64 (btcjson block.Height)     start block, conf  *big.Int (any integer)
     EvmRetryTx   head, receipt block, conf              *big.Int (any integer)
     EvmRetryMsg  head, retry height, conf               *big.Int (any integer)
     BtcRetryMsg  head  int64                            retry height, conf *big.Int (any integer)
     SubRetryMsg  head  uint32 (types.BlockNumber)       retry height       *big.Int (any integer)
     SubRetryEvt  head  uint32                           deposit_on_block_height  u128 (0 .. 2^128-1)
   Not representable, hence not generated: BTC heads outside int64, Substrate finalized heads
   outside uint32, a negative or >= 2^128 u128 height.  (The configuration loader additionally
   restricts BTC confirmations to 1 .. 2^63-1; the handlers themselves take any *big.Int.) *)
Definition in_int64 (x : Z) : bool := (- 2 ^ 63 <=? x) && (x <? 2 ^ 63).
Definition in_uint32 (x : Z) : bool := (0 <=? x) && (x <? 2 ^ 32).
Definition in_u128 (x : Z) : bool := (0 <=? x) && (x <? 2 ^ 128).

Definition in_domain (p : path) (head blk : Z) : bool :=
  match p with
  | BtcScan | BtcRetryMsg => in_int64 head
  | EvmRetryTx | EvmRetryMsg => true
  | SubRetryMsg => in_uint32 head
  | SubRetryEvt => in_uint32 head && in_u128 blk
  end.

(* [buried p head b conf]: block [b] may be relayed on path [p] when the head is [head]. *)
Definition buried (p : path) (head b conf : Z) : bool :=
  if uses_conf p then conf <=? confirmations head b else b <=? head.

(* What an accepting guard hands to the deposit processing: the two retry-by-height handlers that
   go through DepositProcessor.ProcessDeposits(start, end) pass the height as both ends of the
   range; the others process the one block (BTC: HandleEvents(block) / ProcessDeposits(height);
   Substrate retry event: GetBlockHash(height.Uint64()) - see [sub_evt_fetch_exact] in the proofs:
   whenever the guard accepts an in-domain height the conversion is exact; EVM retry by
   transaction hash: the receipt's own block). *)
Definition range_path (p : path) : bool :=
  match p with EvmRetryMsg | SubRetryMsg => true | _ => false end.

Definition processed (p : path) (head blk conf : Z) : list Z :=
  if accept p head blk conf then (if range_path p then [blk; blk] else [blk]) else [].

(* The specification used as judge on what the implementation did ([blocks] = the block numbers
   whose events it turned into messages / handed to the deposit processing; empty = nothing). *)
Definition single_ok (p : path) (head blk conf : Z) (blocks : list Z) : bool :=
  (* safety, every path: every processed block is buried deep enough *)
  forallb (fun b => buried p head b conf) blocks
  &&
  (* liveness, regular scan only: one confirmation more than required is enough *)
  (match p with
   | BtcScan => if conf + 1 <=? confirmations head blk then existsb (Z.eqb blk) blocks else true
   | _ => true
   end).

(* The BTC scan loop over a history of observed heads (one successful poll per element; all event
   handlers succeed - handler and RPC failures are C05's subject).  [cur = None] is the nil start
   block, replaced by the first head seen.  Output: (poll index, block handled at that poll). *)
Fixpoint scan (cur : option Z) (conf : Z) (k : N) (heads : list Z) : list (N * Z) :=
  match heads with
  | [] => []
  | h :: r =>
      let c := match cur with Some c => c | None => h end in
      if h - c <? conf then scan (Some c) conf (k + 1)%N r
      else (k, c) :: scan (Some (c + 1)) conf (k + 1)%N r
  end.

(* Judge for a whole history: walk the polls with the cursor implied by the observation itself. *)
Fixpoint hist_ok (cur : option Z) (conf : Z) (k : N) (heads : list Z) (obs : list (N * Z)) : bool :=
  match heads with
  | [] => match obs with [] => true | _ => false end
  | h :: r =>
      let c := match cur with Some c => c | None => h end in
      match obs with
      | (k', b) :: obs' =>
          if N.eqb k' k then
            (* handled now: must be the cursor block, and sufficiently confirmed *)
            Z.eqb b c && (conf <=? confirmations h b) && hist_ok (Some (c + 1)) conf (k + 1)%N r obs'
          else
            (* not handled at this poll: allowed only if it lacks the extra confirmation *)
            negb (conf + 1 <=? confirmations h c) && hist_ok (Some c) conf (k + 1)%N r obs
      | [] => negb (conf + 1 <=? confirmations h c) && hist_ok (Some c) conf (k + 1)%N r obs
      end
  end.
