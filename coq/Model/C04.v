(* C04 - only sufficiently confirmed source events are relayed.
   Executable model of the six confirmation guards, of the BTC scan loop's waiting rule (over
   answered and failed head lookups) and of the lookups that establish the bound (which may fail,
   stall or advance).  Definitions only; proofs are in Proofs/C04.v.

   Source anchors (Go):
     BtcScan     chains/btc/listener/listener.go        ListenToEvents:  head - start  <  conf  -> wait
     EvmRetryTx  chains/evm/calls/events/listener.go    FetchRetryDepositEvents: latest.Cmp(rblk+conf) != 1 -> error
     EvmRetryMsg chains/evm/executor/message-handler.go RetryMessageHandler:     latest.Cmp(h+conf)   != 1 -> error
     BtcRetryMsg chains/btc/executor/message-handler.go RetryMessageHandler:     latest.Cmp(h+conf)   != 1 -> error
     SubRetryMsg chains/substrate/executor/message-handler.go  finalized.Cmp(h) != 1 -> error
     SubRetryEvt chains/substrate/listener/event-handlers.go   finalized.Cmp(h) == -1 -> skip            *)
From Coq Require Import List ZArith NArith Bool.
Import ListNotations.
Local Open Scope Z_scope.

Inductive path := BtcScan | EvmRetryTx | EvmRetryMsg | BtcRetryMsg | SubRetryMsg | SubRetryEvt.

(* [head] is the chain head (on Substrate: the finalized head), [blk] the block of the event. *)
Definition accept (p : path) (head blk conf : Z) : bool :=
  match p with
  | BtcScan => negb (head - blk <? conf)
  | EvmRetryTx | EvmRetryMsg | BtcRetryMsg => head >? blk + conf
  | SubRetryMsg => head >? blk
  | SubRetryEvt => negb (head <? blk)
  end.

Definition uses_conf (p : path) : bool :=
  match p with SubRetryMsg | SubRetryEvt => false | _ => true end.

(* Number of confirmations of block [blk] when the head is [head]. *)
Definition confirmations (head blk : Z) : Z := head - blk + 1.

(* ---- the domain of each path's inputs -------------------------------------------------------
   The guards are modelled over unbounded Z.  The Go values they are computed from live in these
   types (the correspondence run generates exactly these domains, up to and beyond every width
   boundary; nothing the types can hold is excluded):
     BtcScan      head  int64 (btcjson block.Height)     start block, conf  *big.Int (any integer)
     EvmRetryTx   head, receipt block, conf              *big.Int (any integer)
     EvmRetryMsg  head, retry height, conf               *big.Int (any integer)
     BtcRetryMsg  head  int64                            retry height, conf *big.Int (any integer)
     SubRetryMsg  head  uint32 (types.BlockNumber)       retry height       *big.Int (any integer)
     SubRetryEvt  head  uint32                           deposit_on_block_height  u128 (0 .. 2^128-1)
   Not representable, hence not generated: BTC heads outside int64, Substrate finalized heads
   outside uint32, a negative or >= 2^128 u128 height.  (The configuration loader additionally
   restricts BTC confirmations to 1 .. 2^63-1; the handlers themselves take any *big.Int.) *)
Definition in_int64 (x : Z) : bool := (- 2 ^ 63 <=? x) && (x <? 2 ^ 63).
Definition in_uint32 (x : Z) : bool := (0 <=? x) && (x <? 2 ^ 32).
Definition in_u128 (x : Z) : bool := (0 <=? x) && (x <? 2 ^ 128).

Definition in_domain (p : path) (head blk : Z) : bool :=
  match p with
  | BtcScan | BtcRetryMsg => in_int64 head
  | EvmRetryTx | EvmRetryMsg => true
  | SubRetryMsg => in_uint32 head
  | SubRetryEvt => in_uint32 head && in_u128 blk
  end.

(* [buried p head b conf]: block [b] may be relayed on path [p] when the head is [head]. *)
Definition buried (p : path) (head b conf : Z) : bool :=
  if uses_conf p then conf <=? confirmations head b else b <=? head.

(* What an accepting guard hands to the deposit processing: the two retry-by-height handlers that
   go through DepositProcessor.ProcessDeposits(start, end) pass the height as both ends of the
   range; the others process the one block (BTC: HandleEvents(block) / ProcessDeposits(height);
   Substrate retry event: GetBlockHash(height.Uint64()) - see [sub_evt_fetch_exact] in the proofs:
   whenever the guard accepts an in-domain height the conversion is exact; EVM retry by
   transaction hash: the receipt's own block). *)
Definition range_path (p : path) : bool :=
  match p with EvmRetryMsg | SubRetryMsg => true | _ => false end.

Definition processed (p : path) (head blk conf : Z) : list Z :=
  if accept p head blk conf then (if range_path p then [blk; blk] else [blk]) else [].

(* The specification used as judge on what the implementation did ([blocks] = the block numbers
   whose events it turned into messages / handed to the deposit processing; empty = nothing). *)
Definition single_ok (p : path) (head blk conf : Z) (blocks : list Z) : bool :=
  (* safety, every path: every processed block is buried deep enough *)
  forallb (fun b => buried p head b conf) blocks
  &&
  (* liveness, regular scan only: one confirmation more than required is enough *)
  (match p with
   | BtcScan => if conf + 1 <=? confirmations head blk then existsb (Z.eqb blk) blocks else true
   | _ => true
   end).

(* The BTC scan loop over a history of polls (one poll per element; all event handlers succeed -
   handler failures are C05's subject).  A poll is [Some h] - the head lookup (GetBestBlockHash, then
   GetBlockVerboseTx of that hash) answered height h - or [None] - one of the two RPCs failed: the
   loop waits and polls again, nothing is handled.  [cur = None] is the nil start block, replaced by
   the first head seen.  Output: (poll index, block handled at that poll). *)
Fixpoint scan (cur : option Z) (conf : Z) (k : N) (polls : list (option Z)) : list (N * Z) :=
  match polls with
  | [] => []
  | None :: r => scan cur conf (k + 1)%N r
  | Some h :: r =>
      let c := match cur with Some c => c | None => h end in
      if h - c <? conf then scan (Some c) conf (k + 1)%N r
      else (k, c) :: scan (Some (c + 1)) conf (k + 1)%N r
  end.

Definition is_nil {A : Type} (l : list A) : bool := match l with [] => true | _ => false end.

(* The highest head known after one more answer ([None]: the lookup failed, nothing is learnt). *)
Definition learn (best : option Z) (a : option Z) : option Z :=
  match best, a with
  | Some m, Some h => Some (Z.max m h)
  | None, _ => a
  | _, None => best
  end.

(* The entries of the observation that belong to poll [k]: consecutive blocks from the cursor [c],
   each with enough confirmations under the highest head [m] known at that poll.  Returns the cursor
   after them and the rest of the observation. *)
Fixpoint take_poll (k : N) (c m conf : Z) (obs : list (N * Z)) : option (Z * list (N * Z)) :=
  match obs with
  | (k', b) :: obs' =>
      if N.eqb k' k then
        if Z.eqb b c && (conf <=? confirmations m b) then take_poll k (c + 1) m conf obs' else None
      else Some (c, obs)
  | [] => Some (c, [])
  end.

Definition at_poll (k : N) (obs : list (N * Z)) : bool :=
  match obs with (k', _) :: _ => N.eqb k' k | [] => false end.

(* Judge for a whole history: walk the polls with the cursor implied by the observation itself.
   Safety: whatever is handled at a poll are the next blocks from the cursor, each buried deep enough
   under the highest head the loop has been served so far (a block that had its confirmations at an
   earlier poll still has them; a failed poll teaches nothing, and while no head is known nothing may
   be handled).  The property does not limit how many sufficiently buried blocks one poll handles.
   Liveness: a poll that was served a head under which the cursor block has one confirmation more
   than required must handle something. *)
Fixpoint hist_ok (cur best : option Z) (conf : Z) (k : N) (polls : list (option Z)) (obs : list (N * Z)) : bool :=
  match polls with
  | [] => is_nil obs
  | a :: r =>
      let best' := learn best a in
      let cur' := match cur with Some c => Some c | None => a end in
      if at_poll k obs then
        match cur', best' with
        | Some c, Some m =>
            match take_poll k c m conf obs with
            | Some (c', rest) => hist_ok (Some c') best' conf (k + 1)%N r rest
            | None => false
            end
        | _, _ => false
        end
      else
        (* nothing handled at this poll: allowed only if the cursor block lacks the extra confirmation *)
        match a, cur' with
        | Some h, Some c => negb (conf + 1 <=? confirmations h c)
        | _, _ => true
        end && hist_ok cur' best' conf (k + 1)%N r obs
  end.

(* ---- several guard evaluations: batches, sequences, concurrent schedules -------------------------
   The guards are pure functions of what ONE evaluation is given: the head THAT evaluation was
   served and the block of ITS event.  Several retry requests in one scanned range / one message
   batch, and several goroutines inside one long-lived handler at the same time (sygma-core routes
   every message batch in its own goroutine), are therefore a list of independent evaluations: the
   model of a batch / sequence / schedule is the pointwise map of [processed] and its judge the
   pointwise conjunction of the single-evaluation judge (Proofs: [multi_pointwise],
   [multi_schedule_independent]).

   Degenerate RPC answers enlarge the input domain by an explicit "unknown": a transaction that is
   in no block yet has a receipt WITHOUT block number (receipt.BlockNumber == nil after decoding
   "blockNumber": null), a node may answer the head request with no number (LatestBlock == nil).
   The unchanged code dereferences the nil *big.Int and panics; the panic is recovered per retry
   event (RetryV1EventHandler.HandleEvents) - the outcome of the path is "not processed".  The
   judge: with an unknown event block or an unknown head there is no evidence whatsoever that the
   event is buried, so nothing may be processed. *)
Definition evaluation := (path * option Z * option Z)%type.   (* path, head served, event block *)

Definition processed_opt (p : path) (ohead oblk : option Z) (conf : Z) : list Z :=
  match ohead, oblk with
  | Some head, Some blk => processed p head blk conf
  | _, _ => []
  end.

Definition eval_ok (p : path) (ohead oblk : option Z) (conf : Z) (blocks : list Z) : bool :=
  match ohead, oblk with
  | Some head, Some blk => single_ok p head blk conf blocks
  | _, _ => is_nil blocks
  end.

Fixpoint all2 {A B : Type} (f : A -> B -> bool) (l : list A) (l' : list B) : bool :=
  match l, l' with
  | [], [] => true
  | a :: r, b :: r' => f a b && all2 f r r'
  | _, _ => false
  end.

Definition eval_model (conf : Z) (e : evaluation) : list Z :=
  match e with (p, oh, ob) => processed_opt p oh ob conf end.
Definition eval_judge (conf : Z) (e : evaluation) (blocks : list Z) : bool :=
  match e with (p, oh, ob) => eval_ok p oh ob conf blocks end.

Definition multi_model (conf : Z) (evs : list evaluation) : list (list Z) := map (eval_model conf) evs.
(* [obs]: per evaluation, the blocks THAT evaluation handed to processing *)
Definition multi_ok (conf : Z) (evs : list evaluation) (obs : list (list Z)) : bool :=
  all2 (eval_judge conf) evs obs.

(* One call that is served ONE head and finds several retry requests in its range (Substrate
   RetryEventHandler.HandleEvents: the finalized head is fetched once per scanned range): the
   observation is flat - the blocks whose deposits were turned into messages, in order. *)
Definition batch_model (p : path) (head conf : Z) (blks : list Z) : list Z :=
  flat_map (fun b => processed p head b conf) blks.
Definition batch_ok (p : path) (head conf : Z) (blocks : list Z) : bool :=
  forallb (fun b => buried p head b conf) blocks.

(* ---- the lookups that establish the bound ---------------------------------------------------------
   Every guard compares the event block with a bound it has to fetch first: LatestBlock (EVM),
   GetBestBlockHash + GetBlockVerboseTx (BTC), GetFinalizedHead + GetBlock (Substrate).  A lookup may
   fail, and an implementation may look the bound up more than once (a head that stalls, or advances,
   while it waits).  [answers] are the answers ONE evaluation was actually served, in order: [Some h] -
   the lookup answered height h; [None] - an RPC of the lookup returned an error, or the answer
   carried no number.  The unchanged code looks the bound up once and gives up on an error.

   The judge: what was processed must be buried deep enough under the highest head the evaluation was
   served ([best_known]; heads only grow, so confirmations counted against any head that was served
   are confirmations the block has).  Without any answered lookup there is no bound: nothing may be
   processed - an error or a skip are both fine. *)
Definition best_known (answers : list (option Z)) : option Z := fold_left learn answers None.

Definition bound_ok (p : path) (obound : option Z) (conf : Z) (blocks : list Z) : bool :=
  match obound with
  | Some h => batch_ok p h conf blocks
  | None => is_nil blocks
  end.

(* one evaluation with scripted lookups; [oblk = None]: the block of the event is unknown (the
   receipt lookup failed, or the receipt names no block) *)
Definition lookup_model (p : path) (script : list (option Z)) (oblk : option Z) (conf : Z) : list Z :=
  match script with
  | a :: _ => processed_opt p a oblk conf
  | [] => []
  end.

Definition lookup_ok (p : path) (answers : list (option Z)) (oblk : option Z) (conf : Z) (blocks : list Z) : bool :=
  match oblk with
  | Some _ => bound_ok p (best_known answers) conf blocks
  | None => is_nil blocks
  end.

(* Several evaluations, one after the other, on ONE long-lived handler whose lookups are answered
   from one script: every evaluation of the unchanged code consumes one answer.  Each evaluation is
   observed with the answers the handler has been served SO FAR (a handler may legitimately remember
   a head it was served by an earlier call) and judged on them. *)
Fixpoint scripted_model (p : path) (conf : Z) (script : list (option Z)) (blks : list (option Z)) : list (list Z) :=
  match blks with
  | [] => []
  | ob :: r => lookup_model p script ob conf :: scripted_model p conf (tl script) r
  end.

Definition scripted_eval := (option Z * list (option Z) * list Z)%type.  (* event block, served so far, processed *)

Definition scripted_ok (p : path) (conf : Z) (evs : list scripted_eval) : bool :=
  forallb (fun e => match e with (oblk, served, blocks) => lookup_ok p served oblk conf blocks end) evs.

(* the unchanged code on a whole script: evaluation i decides on answer i, the handler having been
   served the answers 0..i *)
Fixpoint served_so_far (seen script : list (option Z)) (blks : list (option Z)) : list (list (option Z)) :=
  match blks with
  | [] => []
  | _ :: r => (seen ++ firstn 1 script) :: served_so_far (seen ++ firstn 1 script) (tl script) r
  end.

(* one range with several retry requests whose one bound lookup may fail *)
Definition batch_model_opt (p : path) (ohead : option Z) (conf : Z) (blks : list Z) : list Z :=
  match ohead with
  | Some h => batch_model p h conf blks
  | None => []
  end.

(* EVM retry by transaction hash through the real event handler: one RetryV1 event of a scanned
   range = (the receipt was served with status 1?, head served to this event, the receipt's block
   number, the receipt's logs: (emitted by the bridge contract?, the log's own block number)).
   "null" block numbers are [None].  The code returns the deposits of ALL bridge logs of the receipt
   once head > receipt block + confirmations.  Observation: the indices of the logs whose deposits
   became messages.  The judge asks of every such log that a block it is KNOWN to be in - by the
   receipt or by the log itself (consistent answers name the same block; for inconsistent ones the
   property's text does not say which one counts, so either is accepted) - is buried deep enough. *)
Definition txlog := (bool * option Z)%type.
Definition txev := (bool * option Z * option Z * list txlog)%type.

Fixpoint mine_idx (logs : list txlog) (k : N) : list N :=
  match logs with
  | [] => []
  | (m, _) :: r => (if m then [k] else []) ++ mine_idx r (k + 1)%N
  end.

Definition tx_model (conf : Z) (e : txev) : list N :=
  match e with
  | (served, oh, orb, logs) =>
      if served then
        match oh, orb with
        | Some h, Some rb => if accept EvmRetryTx h rb conf then mine_idx logs 0%N else []
        | _, _ => []
        end
      else []
  end.

Definition known_buried (ohead oblk : option Z) (conf : Z) : bool :=
  match ohead, oblk with
  | Some h, Some b => buried EvmRetryTx h b conf
  | _, _ => false
  end.

Definition tx_ok (conf : Z) (e : txev) (obs : list N) : bool :=
  match e with
  | (_, oh, orb, logs) =>
      forallb (fun i => match nth_error logs (N.to_nat i) with
                        | Some (_, lb) => known_buried oh orb conf || known_buried oh lb conf
                        | None => false
                        end) obs
  end.

Definition txs_model (conf : Z) (evs : list txev) : list (list N) := map (tx_model conf) evs.
Definition txs_ok (conf : Z) (evs : list txev) (obs : list (list N)) : bool := all2 (tx_ok conf) evs obs.
