(* C09 - one live MPC process per session id; sessions always clean up.
   Executable models, DEFINITIONS ONLY (proofs: Proofs/C09.v).

   Source anchors (Go):
     tss/coordinator.go  Execute: admission (pendingProcesses map + processLock), deferred cleanup
                         (cancel, CloseSession, pending := false, Stop on every process),
                         initiate / waitForStart / watchExecution (Subscribe + deferred UnSubscribe)
     comm/p2p/manager.go StreamManager.AddStream / Stream / ReleaseStreams (CloseSession)

   Part 1: small-step interleaving semantics of any number of concurrent Execute calls.
   Part 2: sequential model of one admitted session's life over the five outcomes (event trace).
   Part 3: the two-level stream map.                                                            *)
From Coq Require Import List Arith NArith Bool.
Import ListNotations.

(* ------------------------------------------------------------------------------------------ *)
(* Part 1.  Admission and cleanup of concurrent Execute calls.

   [New] is the code after the repair (the check of pendingProcesses happens inside the critical
   section); [Old] is the code as it was found:
        value, ok := c.pendingProcesses[sessionID]        // PCheck0 : no lock held
        if ok && value { return "process already pending" }
        c.processLock.Lock()                               // PLock
        c.pendingProcesses[sessionID] = true               // PSet
        c.processLock.Unlock()                             // PUnlock                          *)
Inductive variant := Old | New.

Inductive pc :=
| PCheck0     (* Old only: read pendingProcesses[sid] WITHOUT holding processLock *)
| PLock       (* processLock.Lock(): blocks while another thread holds it *)
| PCheck      (* New only: read pendingProcesses[sid] while holding the lock *)
| PSet        (* pendingProcesses[sid] = true *)
| PUnlock     (* processLock.Unlock(), then run the session *)
| PUnlockRef  (* New only: processLock.Unlock(), then return "process already pending" *)
| PRun        (* the session runs: start / watchExecution / the processes' Run *)
| PCLock      (* deferred cleanup: processLock.Lock() *)
| PCWrite     (* pendingProcesses[sid] = false *)
| PCUnlock    (* processLock.Unlock(); Stop() on every process; return *)
| PDone       (* Execute returned after a session *)
| PRefused.   (* Execute returned "process already pending" *)

Definition pc_eqb (a b : pc) : bool :=
  match a, b with
  | PCheck0, PCheck0 | PLock, PLock | PCheck, PCheck | PSet, PSet | PUnlock, PUnlock
  | PUnlockRef, PUnlockRef | PRun, PRun | PCLock, PCLock | PCWrite, PCWrite | PCUnlock, PCUnlock
  | PDone, PDone | PRefused, PRefused => true
  | _, _ => false
  end.

(* Threads are natural numbers (one per Execute call; calls never made are threads never
   scheduled), session ids are natural numbers, [sid t] is the session id thread t asks for. *)
Record state := mk {
  pcs  : nat -> pc;
  pend : nat -> bool;            (* pendingProcesses: session id -> pending (absent = false) *)
  lock : option nat;             (* processLock: the thread that took it *)
  acc  : list (nat * bool)       (* every access to the map: (thread, did it hold the lock?) *)
}.

Definition upd {A} (f : nat -> A) (t : nat) (x : A) : nat -> A :=
  fun u => if Nat.eqb u t then x else f u.

Definition holds (st : state) (t : nat) : bool :=
  match lock st with Some o => Nat.eqb o t | None => false end.

(* A schedule is a list of events: [Step t] = the scheduler lets thread t perform its next
   action (no effect if t is blocked or has returned); [Fin t] = the session of thread t ends
   (whatever the outcome: success, error, timeout, cancellation - they all leave [PRun] into the
   same deferred cleanup). *)
Inductive sev := Step (t : nat) | Fin (t : nat).

Definition thread_of (e : sev) : nat := match e with Step t | Fin t => t end.
Definition is_fin (e : sev) : bool := match e with Fin _ => true | Step _ => false end.

Definition step (v : variant) (sid : nat -> nat) (e : sev) (st : state) : state :=
  match e with
  | Fin t =>
      match pcs st t with
      | PRun => mk (upd (pcs st) t PCLock) (pend st) (lock st) (acc st)
      | _ => st
      end
  | Step t =>
      let s := sid t in
      match pcs st t with
      | PCheck0 =>
          mk (upd (pcs st) t (if pend st s then PRefused else PLock)) (pend st) (lock st)
             ((t, holds st t) :: acc st)
      | PLock =>
          match lock st with
          | None => mk (upd (pcs st) t (match v with Old => PSet | New => PCheck end)) (pend st) (Some t) (acc st)
          | Some _ => st
          end
      | PCheck =>
          mk (upd (pcs st) t (if pend st s then PUnlockRef else PSet)) (pend st) (lock st)
             ((t, holds st t) :: acc st)
      | PSet =>
          mk (upd (pcs st) t PUnlock) (upd (pend st) s true) (lock st) ((t, holds st t) :: acc st)
      | PUnlock => mk (upd (pcs st) t PRun) (pend st) None (acc st)
      | PUnlockRef => mk (upd (pcs st) t PRefused) (pend st) None (acc st)
      | PRun => st
      | PCLock =>
          match lock st with
          | None => mk (upd (pcs st) t PCWrite) (pend st) (Some t) (acc st)
          | Some _ => st
          end
      | PCWrite =>
          mk (upd (pcs st) t PCUnlock) (upd (pend st) s false) (lock st) ((t, holds st t) :: acc st)
      | PCUnlock => mk (upd (pcs st) t PDone) (pend st) None (acc st)
      | PDone | PRefused => st
      end
  end.

Definition start_pc (v : variant) : pc := match v with Old => PCheck0 | New => PLock end.

Definition init (v : variant) : state := mk (fun _ => start_pc v) (fun _ => false) None [].

Definition exec (v : variant) (sid : nat -> nat) (sched : list sev) (st : state) : state :=
  fold_left (fun st e => step v sid e st) sched st.

(* the session of this thread is live: it has set pending and not yet reset it *)
Definition claims (p : pc) : bool :=
  match p with PUnlock | PRun | PCLock | PCWrite => true | _ => false end.

(* inside a processLock critical section *)
Definition in_cs (p : pc) : bool :=
  match p with PCheck | PSet | PUnlock | PUnlockRef | PCWrite | PCUnlock => true | _ => false end.

Definition decided (p : pc) : bool := match p with PRun | PRefused => true | _ => false end.

(* --- finite views used by the judge (threads 0..n-1, session ids given as a list) --- *)
Definition sid_of (sids : list nat) (t : nat) : nat := nth t sids 0.

Fixpoint count_pc (f : nat -> pc) (sid : nat -> nat) (s : nat) (p : pc) (n : nat) : nat :=
  match n with
  | 0 => 0
  | S k => (if Nat.eqb (sid k) s && pc_eqb (f k) p then 1 else 0) + count_pc f sid s p k
  end.

Definition all_locked (a : list (nat * bool)) : bool := forallb snd a.

(* The specification of admission as a predicate on what was observed of n overlapping requests
   (threads 0..n-1, [adm t] = request t was not refused; none of the sessions had ended when the
   observation was made): for every requested session id at least one request was admitted, and no
   two different requests for the same session id were. *)
Definition conc_ok (n : nat) (sid : nat -> nat) (adm : nat -> bool) : bool :=
  forallb (fun t => existsb (fun u => Nat.eqb (sid u) (sid t) && adm u) (seq 0 n)) (seq 0 n)
  && forallb (fun u => forallb (fun w =>
        implb (Nat.eqb (sid u) (sid w) && adm u && adm w) (Nat.eqb u w)) (seq 0 n)) (seq 0 n).

(* all events of a schedule are plain steps of threads < n *)
Definition steps_below (n : nat) (sched : list sev) : bool :=
  forallb (fun e => match e with Step t => Nat.ltb t n | Fin _ => false end) sched.

Definition all_decided (n : nat) (st : state) : bool :=
  forallb (fun t => decided (pcs st t)) (seq 0 n).

(* a complete schedule for n requests: one after the other, four steps each *)
Definition storm_sched (n : nat) : list sev := flat_map (fun t => repeat (Step t) 4) (seq 0 n).

(* ------------------------------------------------------------------------------------------ *)
(* Part 2.  One admitted session, sequentially: what Execute and the wait loops do with the
   Communication and the processes, for each way the session can end.                           *)
Inductive role := Coord | Peer.          (* this relayer is / is not the static coordinator *)
Inductive outcome := Success | ProcessError | CoordinatorSilent | GlobalTimeout | Cancelled.
Inductive phase := BeforeStart | DuringRun     (* for GlobalTimeout / Cancelled: when it strikes *)
| BeforeEntry.  (* Cancelled: the context handed to Execute is ALREADY cancelled (or past its deadline)
                   when Execute is called: the request goes through admission, the cleanup defer is
                   registered, the wait loops subscribe and return at once, Run is never called *)

Inductive msg := MInitiate | MStart | MFail | MReady.
Inductive ret := RNil | RPending | RCoordinatorErr | RTimeout | RProcessErr.

Inductive ev :=
| ESub (m : msg) | EUnsub (m : msg)   (* Communication.Subscribe / UnSubscribe *)
| EClose                              (* Communication.CloseSession sid *)
| ERun (p : nat) | EStop (p : nat)    (* process p: Run called / Stop called *)
| EPend (b : bool).                   (* pendingProcesses[sid] := b *)

(* does the session get as far as calling Run on its processes? *)
Definition runs (r : role) (o : outcome) (ph : phase) : bool :=
  match o with
  | Success | ProcessError => true
  | CoordinatorSilent => false
  | GlobalTimeout | Cancelled => match ph with BeforeStart | BeforeEntry => false | DuringRun => true end
  end.

Definition seq_ev (f : nat -> ev) (n : nat) : list ev := map f (seq 0 n).

(* start(): initiate (coordinator) or waitForStart (other parties) *)
Definition start_trace (r : role) (run : bool) (np : nat) : list ev :=
  match r with
  | Coord => [ESub MReady] ++ (if run then seq_ev ERun np else []) ++ [EUnsub MReady]
  | Peer  => [ESub MInitiate; ESub MStart] ++ (if run then seq_ev ERun np else [])
             ++ [EUnsub MStart; EUnsub MInitiate]
  end.

(* Execute, admitted.  (start and watchExecution are concurrent goroutines; the trace lists one
   of their interleavings - the judge and the comparison are order-insensitive about that.) *)
Definition session_trace (r : role) (o : outcome) (ph : phase) (np : nat) : list ev :=
  [EPend true]
  ++ [ESub MFail] ++ start_trace r (runs r o ph) np ++ [EUnsub MFail]
  ++ [EClose; EPend false] ++ seq_ev EStop np.

Definition session_ret (r : role) (o : outcome) (ph : phase) : ret :=
  match o with
  | Success => RNil
  | ProcessError => RProcessErr
  | CoordinatorSilent => RCoordinatorErr
  | GlobalTimeout => RTimeout
  | Cancelled => RNil
  end.

(* which (role, outcome, phase) combinations exist: only a non-coordinator can wait in vain for
   the coordinator *)
Definition feasible (r : role) (o : outcome) : bool :=
  match o, r with CoordinatorSilent, Coord => false | _, _ => true end.

(* --- the specification of "the session cleaned up" as a predicate on an event trace --- *)
Definition msg_eqb (a b : msg) : bool :=
  match a, b with
  | MInitiate, MInitiate | MStart, MStart | MFail, MFail | MReady, MReady => true
  | _, _ => false
  end.

Definition count_ev (f : ev -> bool) (l : list ev) : nat := length (filter f l).

Definition is_sub (m : msg) (e : ev) := match e with ESub m' => msg_eqb m m' | _ => false end.
Definition is_unsub (m : msg) (e : ev) := match e with EUnsub m' => msg_eqb m m' | _ => false end.
Definition is_close (e : ev) := match e with EClose => true | _ => false end.
Definition is_run (p : nat) (e : ev) := match e with ERun q => Nat.eqb p q | _ => false end.
Definition is_stop (p : nat) (e : ev) := match e with EStop q => Nat.eqb p q | _ => false end.
Definition is_pend (e : ev) := match e with EPend _ => true | _ => false end.

Definition all_msgs := [MInitiate; MStart; MFail; MReady].

Fixpoint last_pend (l : list ev) : option bool :=
  match l with
  | [] => None
  | e :: r => match last_pend r with
              | Some b => Some b
              | None => match e with EPend b => Some b | _ => None end
              end
  end.

(* the session never communicated: it subscribed to nothing and ran no process (a request that is
   turned away at the door - e.g. because its context is already cancelled - has opened no stream) *)
Definition silent_session (np : nat) (l : list ev) : bool :=
  forallb (fun m => Nat.eqb (count_ev (is_sub m) l) 0) all_msgs
  && forallb (fun p => Nat.eqb (count_ev (is_run p) l) 0) (seq 0 np).

(* every subscription released, CloseSession once (it may be left out by a session that never
   communicated: there is no stream to release), every process stopped exactly once and run at most
   once, pending flag false in the end *)
Definition cleanup_ok (np : nat) (l : list ev) : bool :=
  forallb (fun m => Nat.eqb (count_ev (is_sub m) l) (count_ev (is_unsub m) l)) all_msgs
  && (Nat.eqb (count_ev is_close l) 1 || (Nat.eqb (count_ev is_close l) 0 && silent_session np l))
  && forallb (fun p => Nat.eqb (count_ev (is_stop p) l) 1 && Nat.leb (count_ev (is_run p) l) 1) (seq 0 np)
  && match last_pend l with Some false => true | _ => false end.

(* order-insensitive summary used to compare model and implementation *)
Definition summary (np : nat) (l : list ev) : list nat :=
  map (fun m => count_ev (is_sub m) l) all_msgs ++ map (fun m => count_ev (is_unsub m) l) all_msgs
  ++ [count_ev is_close l] ++ map (fun p => count_ev (is_run p) l) (seq 0 np)
  ++ map (fun p => count_ev (is_stop p) l) (seq 0 np).

(* ------------------------------------------------------------------------------------------ *)
(* Part 3.  StreamManager: the two-level map  session id -> peer -> stream  (session ids, peers
   and streams are numbers; peers range over 0..P-1).                                           *)
Definition smap := nat -> nat -> option nat.

Definition sm_empty : smap := fun _ _ => None.

(* Stream(sessionID, peerID) *)
Definition sm_get (m : smap) (s p : nat) : option nat := m s p.

(* AddStream keeps the first stream registered for (session, peer) *)
Definition sm_add (m : smap) (s p x : nat) : smap :=
  match m s p with
  | Some _ => m
  | None => fun s' p' => if Nat.eqb s' s && Nat.eqb p' p then Some x else m s' p'
  end.

Definition somes (l : list (option nat)) : list nat :=
  flat_map (fun o => match o with Some x => [x] | None => [] end) l.

(* the streams registered for session s *)
Definition row (P : nat) (m : smap) (s : nat) : list nat := somes (map (m s) (seq 0 P)).

(* ReleaseStreams: closes every stream of the session (returned list) and forgets the session *)
Definition sm_release (P : nat) (m : smap) (s : nat) : smap * list nat :=
  (fun s' p' => if Nat.eqb s' s then None else m s' p', row P m s).

(* Close() of a stream can fail (the remote side reset it already, the connection is gone ...).
   ReleaseStreams logs the error and goes on (manager.go: `log.Err(err)...` inside the loop, the
   `delete` after it is unconditional): [fails x] - does Close of stream x return an error? - is an
   input on which neither the map after the release nor the list of closed streams depends.  The
   definition takes it all the same so that the theorems can say "whatever Close returns". *)
Definition sm_release_f (fails : nat -> bool) (P : nat) (m : smap) (s : nat) : smap * list nat :=
  sm_release P m s.

Inductive sop := OAdd (s p x : nat) | OGet (s p : nat) | ORelease (s : nat).

(* state of a run: the map and how often each stream was closed so far *)
Definition sst := (smap * (nat -> nat))%type.

Definition sm_step (P : nat) (st : sst) (o : sop) : sst :=
  let (m, cl) := st in
  match o with
  | OAdd s p x => (sm_add m s p x, cl)
  | OGet _ _ => st
  | ORelease s => let (m', c) := sm_release P m s in (m', fun x => cl x + count_occ Nat.eq_dec c x)
  end.

(* snapshots: every lookup over S sessions x P peers, and the close counters of streams 0..X-1 *)
Definition snap (S P : nat) (m : smap) : list (list (option nat)) :=
  map (fun s => map (m s) (seq 0 P)) (seq 0 S).
Definition cvec (X : nat) (cl : nat -> nat) : list nat := map cl (seq 0 X).

Definition get2 (rows : list (list (option nat))) (s p : nat) : option nat :=
  nth p (nth s rows []) None.

Definition opt_eqb (a b : option nat) : bool :=
  match a, b with
  | None, None => true
  | Some x, Some y => Nat.eqb x y
  | _, _ => false
  end.

(* The specification of ReleaseStreams s on what was observed before and after it:
   no stream of s is retained, the other sessions are untouched, every stream that was registered
   for s has been closed exactly once more and no other stream has been closed. *)
Definition release_ok (S P X s : nat) (b a : list (list (option nat))) (cb ca : list nat) : bool :=
  forallb (fun s' => forallb (fun p =>
      opt_eqb (get2 a s' p) (if Nat.eqb s' s then None else get2 b s' p)) (seq 0 P)) (seq 0 S)
  && forallb (fun x => Nat.eqb (nth x ca 0) (nth x cb 0 + count_occ Nat.eq_dec (somes (nth s b [])) x))
             (seq 0 X).

(* what the harness records per operation *)
Inductive sobs :=
| SNone
| SGot (r : option nat)
| SRel (b a : list (list (option nat))) (cb ca : list nat).

Fixpoint streams_ok (S P X : nat) (ops : list sop) (obs : list sobs) : bool :=
  match ops, obs with
  | [], [] => true
  | o :: ops', ob :: obs' =>
      (match o, ob with
       | ORelease s, SRel b a cb ca => Nat.ltb s S && release_ok S P X s b a cb ca
       | ORelease _, _ => false
       | _, _ => true
       end) && streams_ok S P X ops' obs'
  | _, _ => false
  end.

Fixpoint model_sobs (S P X : nat) (st : sst) (ops : list sop) : list sobs :=
  match ops with
  | [] => []
  | o :: ops' =>
      let st' := sm_step P st o in
      (match o with
       | OAdd _ _ _ => SNone
       | OGet s p => SGot (sm_get (fst st) s p)
       | ORelease s => SRel (snap S P (fst st)) (snap S P (fst st')) (cvec X (snd st)) (cvec X (snd st'))
       end) :: model_sobs S P X st' ops'
  end.

Definition releases_below (S : nat) (ops : list sop) : bool :=
  forallb (fun o => match o with ORelease s => Nat.ltb s S | _ => true end) ops.

(* ------------------------------------------------------------------------------------------ *)
(* Part 4.  Libp2pCommunication on top of the stream map (comm/p2p/libp2p.go):
     sendMessage(to, msg, sessionID): stream := streamManager.Stream(sessionID, to); if there is
        none: stream = host.NewStream(to); streamManager.AddStream(sessionID, to, stream);
        then the message is written to the stream
     CloseSession(sessionID) = streamManager.ReleaseStreams(sessionID)
   Streams are numbered in the order the host is asked for them.                                *)
Inductive cop := CSend (s p : nat) | CClose (s : nat).

(* what is seen from outside (at the host's streams): the stream a message was written to / the
   streams that were closed *)
Inductive cobs := CWrote (x : nat) | CClosed (xs : list nat).

(* state: the stream map and the number of streams opened so far *)
Definition ccst := (smap * nat)%type.

Definition comm_step (P : nat) (st : ccst) (o : cop) : ccst * cobs :=
  let (m, nx) := st in
  match o with
  | CSend s p =>
      match sm_get m s p with
      | Some x => (st, CWrote x)
      | None => ((sm_add m s p nx, S nx), CWrote nx)
      end
  | CClose s => let (m', c) := sm_release P m s in ((m', nx), CClosed c)
  end.

Fixpoint model_cobs (P : nat) (st : ccst) (ops : list cop) : list cobs :=
  match ops with
  | [] => []
  | o :: ops' => let (st', ob) := comm_step P st o in ob :: model_cobs P st' ops'
  end.

Definition memb (x : nat) (l : list nat) : bool := existsb (Nat.eqb x) l.

(* The specification, on the observations alone.  [cl]: the streams closed so far; [live s]: the
   streams session s has used since it was last closed.
   - a message is never written to a stream that has been closed (after CloseSession a session id
     that is started again works on fresh streams, not on the dead ones of its previous run);
   - CloseSession s closes every stream the session has used since its last CloseSession. *)
Fixpoint comm_ok (cl : list nat) (live : nat -> list nat) (ops : list cop) (obs : list cobs) : bool :=
  match ops, obs with
  | [], [] => true
  | CSend s p :: ops', CWrote x :: obs' =>
      negb (memb x cl) && comm_ok cl (upd live s (x :: live s)) ops' obs'
  | CClose s :: ops', CClosed xs :: obs' =>
      forallb (fun x => memb x xs) (live s) && comm_ok (xs ++ cl) (upd live s []) ops' obs'
  | _, _ => false
  end.

Definition peers_below (P : nat) (ops : list cop) : bool :=
  forallb (fun o => match o with CSend _ p => Nat.ltb p P | CClose _ => true end) ops.

(* ------------------------------------------------------------------------------------------ *)
(* Part 5.  Admission versus teardown.  The deferred cleanup of Execute (tss/coordinator.go):
        cancel()
        c.communication.CloseSession(sessionID)                      // TClose
        c.processLock.Lock(); c.pendingProcesses[sessionID] = false; c.processLock.Unlock()   // TClear
        for _, process := range tssProcesses { process.Stop() }      // TStop 0 .. TStop (np-1)
   A teardown is a list of such steps, performed in order; a request for the same session id can
   arrive between any two of them (after the first k steps): it is refused iff the pending flag is
   still set.  When the teardown starts no process of the run is inside Run any more (Execute has
   waited for them).  CloseSession is keyed by the session id - performed after a new run of the id
   was admitted it hits the streams of the NEW run; Stop only touches the old process objects.   *)
Inductive tstep := TClose | TClear | TStop (p : nat).

Record tst := mkT { t_closed : nat; t_pend : bool; t_stops : list nat }.

Definition tdo (st : tst) (s : tstep) : tst :=
  match s with
  | TClose => mkT (S (t_closed st)) (t_pend st) (t_stops st)
  | TClear => mkT (t_closed st) false (t_stops st)
  | TStop p => mkT (t_closed st) (t_pend st) (p :: t_stops st)
  end.

(* the run is live: flag set, nothing closed, nothing stopped *)
Definition tinit : tst := mkT 0 true [].

Definition trun (st : tst) (l : list tstep) : tst := fold_left tdo l st.

Definition code_teardown (np : nat) : list tstep := TClose :: TClear :: map TStop (seq 0 np).

(* "closing the streams can take a while, don't hold up new requests": the flag is cleared first *)
Definition early_clear_teardown (np : nat) : list tstep := TClear :: TClose :: map TStop (seq 0 np).

Definition is_tclose (s : tstep) : bool := match s with TClose => true | _ => false end.

(* the state a request finds that arrives when the first k steps are done *)
Definition arrive (order : list tstep) (k : nat) : tst := trun tinit (firstn k order).
Definition admitted_at (order : list tstep) (k : nat) : bool := negb (t_pend (arrive order k)).
(* CloseSession calls of the old run still to come at that moment *)
Definition late_closes (order : list tstep) (k : nat) : nat := length (filter is_tclose (skipn k order)).

(* every CloseSession precedes the clearing of the flag *)
Fixpoint closes_before_clear (l : list tstep) : bool :=
  match l with
  | [] => true
  | TClear :: r => negb (existsb is_tclose r)
  | _ :: r => closes_before_clear r
  end.

Definition stops_vec (np : nat) (st : tst) : list nat :=
  map (fun p => count_occ Nat.eq_dec (t_stops st) p) (seq 0 np).

(* what the harness sees of the second request while the teardown of the first run is parked *)
Inductive tdec := TRefused | TAdmitted | TWaited.

Definition tdec_eqb (a b : tdec) : bool :=
  match a, b with
  | TRefused, TRefused | TAdmitted, TAdmitted | TWaited, TWaited => true
  | _, _ => false
  end.

(* the harness parks the teardown INSIDE CloseSession (at = 0: no step is complete) or inside
   Stop of process at-1 (CloseSession, the clearing of the flag and the Stops before it are) *)
Definition tear_pos (at_ : nat) : nat := match at_ with 0 => 0 | S i => 2 + i end.

Definition model_dec (np at_ : nat) : tdec :=
  if admitted_at (code_teardown np) (tear_pos at_) then TAdmitted else TRefused.

Fixpoint natl_eqb (a b : list nat) : bool :=
  match a, b with
  | [], [] => true
  | x :: a', y :: b' => Nat.eqb x y && natl_eqb a' b'
  | _, _ => false
  end.

(* The specification of a tear case, on the observations alone.
   dec / fin: what happened to the second request while the teardown was parked / in the end;
   closed_before: CloseSession calls of the first run complete when the second request was issued;
   late: CloseSession calls for the id that completed after the second request had been admitted
   (and before it was allowed to end); live_at_b: processes of the first run inside Run when the
   second request was decided; ret_parked: the first Execute returned with a teardown step still
   parked; stops_after / closes: per process Stop calls / CloseSession calls complete after the
   first Execute returned and the gate was opened; third: a third request, after everything ended,
   was admitted; pend_after: the pending flag in the end.
   - a request admitted during the teardown finds the session closed and no old process running,
     and no CloseSession of the old run comes after its admission;
   - when Execute has returned the session is closed and every process stopped exactly once;
   - afterwards the id can be started again. *)
Definition tear_ok (np : nat) (dec fin : tdec) (closed_before late live_at_b : nat) (ret_parked : bool)
    (stops_after : list nat) (closes : nat) (third pend_after : bool) : bool :=
  (match dec with TAdmitted => Nat.leb 1 closed_before && Nat.eqb live_at_b 0 | _ => true end)
  && (match fin with TAdmitted => Nat.eqb late 0 | TRefused => true | TWaited => false end)
  && negb ret_parked
  && natl_eqb stops_after (repeat 1 np)
  && Nat.leb 1 closes && third && negb pend_after.

(* ------------------------------------------------------------------------------------------ *)
(* Part 6.  Libp2pCommunication with faults at the streams (comm/p2p/libp2p.go sendMessage):
        stream, err = c.streamManager.Stream(sessionID, to)
        if err != nil {
            stream, err = c.h.NewStream(...)          // may fail: [open_fails]
            if err != nil { return err }
            c.streamManager.AddStream(sessionID, to, stream)      // registered as soon as it is open
        }
        err = WriteStream(msg, ...)                   // may fail: [wf x] = the first write on x fails
   A broadcast to several peers is a sequence of sends (distinct peers touch distinct map entries).
   [RegAfterWrite] is the variant that registers a fresh stream only after its first write
   succeeded ("only keep streams that work") - it is refuted.                                      *)
Inductive regpol := RegOnOpen | RegAfterWrite.

Inductive wop := WSend (s p : nat) (open_fails : bool) | WClose (s : nat).

(* seen at the host and at the streams: the streams handed out / written to / closed or reset
   while the operation ran *)
Inductive wobs := WSent (opened wrote released : list nat) | WClosed (xs : list nat).

Definition wstep (pol : regpol) (wf : nat -> bool) (P : nat) (st : ccst) (o : wop) : ccst * wobs :=
  let (m, nx) := st in
  match o with
  | WSend s p ofail =>
      match sm_get m s p with
      | Some x => (st, WSent [] [x] [])
      | None =>
          if ofail then (st, WSent [] [] [])
          else let m' := match pol with
                         | RegOnOpen => sm_add m s p nx
                         | RegAfterWrite => if wf nx then m else sm_add m s p nx
                         end in
               ((m', S nx), WSent [nx] [nx] [])
      end
  | WClose s => let (m', c) := sm_release P m s in ((m', nx), WClosed c)
  end.

Fixpoint model_wobs (pol : regpol) (wf : nat -> bool) (P : nat) (st : ccst) (ops : list wop) : list wobs :=
  match ops with
  | [] => []
  | o :: ops' => let (st', ob) := wstep pol wf P st o in ob :: model_wobs pol wf P st' ops'
  end.

Definition none_in (xs cl : list nat) : bool := forallb (fun x => negb (memb x cl)) xs.

(* The specification, on the observations alone.  [cl]: the streams released by CloseSession calls
   so far; [rl]: the streams released (closed / reset) while a send ran; [live s]: the streams opened
   for / used by session s since its last CloseSession.
   - nothing is written to (and no stream handed out is) a stream a CloseSession released before;
   - CloseSession s releases every stream that was opened for s since its last CloseSession,
     whatever happened on it (unless it was released already);
   - CloseSession s releases no stream another session (ids below S) is using. *)
Fixpoint wcomm_ok (S : nat) (cl rl : list nat) (live : nat -> list nat) (ops : list wop) (obs : list wobs) : bool :=
  match ops, obs with
  | [], [] => true
  | WSend s p _ :: ops', WSent o w r :: obs' =>
      none_in w cl && none_in o cl
      && wcomm_ok S cl (r ++ rl) (upd live s (o ++ w ++ live s)) ops' obs'
  | WClose s :: ops', WClosed xs :: obs' =>
      forallb (fun x => memb x xs || memb x cl || memb x rl) (live s)
      && forallb (fun s' => Nat.eqb s' s || none_in (live s') xs) (seq 0 S)
      && wcomm_ok S (xs ++ cl) rl (upd live s []) ops' obs'
  | _, _ => false
  end.

Definition wpeers_below (P : nat) (ops : list wop) : bool :=
  forallb (fun o => match o with WSend _ p _ => Nat.ltb p P | WClose _ => true end) ops.

(* ------------------------------------------------------------------------------------------ *)
(* Part 7.  Registration CONCURRENT with release (comm/p2p/manager.go: AddStream, Stream and
   ReleaseStreams each run under the manager's lock from beginning to end, so whatever overlaps in
   time takes effect in SOME sequential order).  A late sender of a session may register a stream
   while the session is being released: before the release it is closed by it, after the release it
   stays registered - under the session id - until the next release of that id.  So for EVERY order of
   the operations: once every session has been released a last time ([release_all]) every stream
   that was ever registered has been closed and the registry is empty.                          *)
Definition sm_exec (P : nat) (st : sst) (ops : list sop) : sst := fold_left (sm_step P) ops st.

Definition release_all (S : nat) : list sop := map ORelease (seq 0 S).

(* every AddStream is for a session below S and a peer below P *)
Definition adds_below (S P : nat) (ops : list sop) : bool :=
  forallb (fun o => match o with OAdd s p _ => Nat.ltb s S && Nat.ltb p P | _ => true end) ops.

(* the stream an operation registers: AddStream for a slot (session, peer) that is free *)
Definition accepts (m : smap) (o : sop) : list nat :=
  match o with
  | OAdd s p x => match m s p with None => [x] | Some _ => [] end
  | _ => []
  end.

(* ... and all the streams a sequence of operations registers *)
Fixpoint accepted (P : nat) (st : sst) (ops : list sop) : list nat :=
  match ops with
  | [] => []
  | o :: r => accepts (fst st) o ++ accepted P (sm_step P st o) r
  end.

Definition sst0 : sst := (sm_empty, fun _ => 0).

(* every stream 0..X-1 is registered by the sequence (the harness offers every stream it creates
   for a free slot) *)
Definition all_accepted (P X : nat) (ops : list sop) : bool :=
  forallb (fun x => memb x (accepted P sst0 ops)) (seq 0 X).

Definition is_none (o : option nat) : bool := match o with None => true | Some _ => false end.

(* THE JUDGE of a run with overlapping operations, on what is seen at the very end (after the last
   release of every session): every stream has been closed, the registry holds nothing. *)
Definition srace_ok (closed : list nat) (left : list (list (option nat))) : bool :=
  forallb (Nat.leb 1) closed && forallb (forallb is_none) left.

(* ------------------------------------------------------------------------------------------ *)
(* Part 8.  A duplicate request for a session that has been live for a long time.  The pending
   entry of Part 1 carries no time: it is set on admission and cleared by the cleanup of the SAME
   call, however long the session lives in between (a session whose first attempt fails with a
   retryable error - SubsetError, CommunicationError, tss.Error, CoordinatorError - gets a fresh
   TssTimeout for its retry phase in Coordinator.handleError and can live for up to twice the
   timeout).  Thread 0 = the long-lived session, thread 1 = the duplicate: four steps each.      *)
Definition long_sched : list sev := repeat (Step 0) 4 ++ repeat (Step 1) 4.

Definition long_dup_refused : bool :=
  pc_eqb (pcs (exec New (fun _ => 0) long_sched (init New)) 1) PRefused.

(* THE JUDGE of a long case: first_live = the first Execute had not returned when the duplicate
   was decided; dup_admitted = the duplicate was not refused; maxlive = processes of the id inside Run
   at the same time; then, after everything ended, the pending flag and whether the id is admitted again *)
Definition long_ok (first_live dup_admitted : bool) (maxlive : nat) (pend_after reuse : bool) : bool :=
  negb (first_live && dup_admitted) && Nat.leb maxlive 1 && negb pend_after && reuse.

(* ------------------------------------------------------------------------------------------ *)
(* Part 9.  A session with a BATCH of processes: Coordinator.Execute(ctx, [p0; ..; p(np-1)], ...), as
   the bitcoin executor passes one signing process per transaction input.  Three loops of
   tss/coordinator.go range over the processes of the batch and create one closure / make one call
   per process:
        initiate / waitForStart:   for _, process := range tssProcesses {
                                       tssProcess := process                    // per-iteration copy
                                       p.Go(func(ctx) error { return tssProcess.Run(...) }) }
        Execute, deferred cleanup: for _, process := range tssProcesses { process.Stop() }
        Execute, refusal:          for _, process := range tssProcesses { process.Stop() }
   The module's language version is go 1.21: a range variable is ONE variable for the whole loop.
   [PerIteration] = what the code does (every closure / call has the process of its own iteration);
   [SharedVariable] = a closure that captures the range variable itself and is executed after the loop
   has moved on - in the worst case all of them see the last process.                              *)
Inductive capture := PerIteration | SharedVariable.

Definition captured (c : capture) (procs : list nat) : list nat :=
  match c with
  | PerIteration => procs
  | SharedVariable => repeat (last procs 0) (length procs)
  end.

(* the processes the np tasks / calls of one loop over the batch act on *)
Definition loop_targets (c : capture) (np : nat) : list nat := captured c (seq 0 np).

(* how many rounds of Run the session makes: a retried session (the first process is Retryable and a
   process of the first round failed with a SubsetError: handleError waits for another start message)
   launches the whole batch a second time *)
Definition batch_rounds (r : role) (o : outcome) (ph : phase) (retry : bool) : nat :=
  if retry then 2 else if runs r o ph then 1 else 0.

Definition launch_evs (cl : capture) (np : nat) : list ev := map ERun (loop_targets cl np).

Definition bstart_trace (cl : capture) (r : role) (run : bool) (np : nat) : list ev :=
  match r with
  | Coord => [ESub MReady] ++ (if run then launch_evs cl np else []) ++ [EUnsub MReady]
  | Peer  => [ESub MInitiate; ESub MStart] ++ (if run then launch_evs cl np else [])
             ++ [EUnsub MStart; EUnsub MInitiate]
  end.

(* handleError after a SubsetError: watchExecution again, waitForStart for anybody's start message *)
Definition retry_trace (cl : capture) (np : nat) : list ev :=
  [ESub MFail; ESub MInitiate; ESub MStart] ++ launch_evs cl np
  ++ [EUnsub MStart; EUnsub MInitiate; EUnsub MFail].

(* cl: the launching loops, cs: the Stop loop of the cleanup *)
Definition batch_trace (cl cs : capture) (r : role) (o : outcome) (ph : phase) (retry : bool) (np : nat)
    : list ev :=
  [EPend true]
  ++ [ESub MFail] ++ bstart_trace cl r (retry || runs r o ph) np ++ [EUnsub MFail]
  ++ (if retry then retry_trace cl np else [])
  ++ [EClose; EPend false] ++ map EStop (loop_targets cs np).

(* all tasks of a round are in the pool together: the Runs inside process object p at the same time
   are the tasks of one round that act on p *)
Definition batch_maxsim (cl : capture) (r : role) (o : outcome) (ph : phase) (retry : bool) (np : nat)
    : list nat :=
  map (fun p => Nat.min 1 (batch_rounds r o ph retry) * count_occ Nat.eq_dec (loop_targets cl np) p)
      (seq 0 np).

Definition batch_ret (r : role) (o : outcome) (ph : phase) (retry : bool) : ret :=
  if retry then RNil else session_ret r o ph.

(* THE JUDGE of a batch session: [cleanup_ok] per process of the batch - subscriptions released,
   CloseSession once, EVERY process stopped exactly once, pending flag false - where a session that is
   not retried runs every process at most once ([once]; a retried session runs them again, one round
   after the other), and no process object ever has two Runs inside it at the same time. *)
Definition batch_ok (once : bool) (np : nat) (l : list ev) (maxsim : list nat) : bool :=
  forallb (fun m => Nat.eqb (count_ev (is_sub m) l) (count_ev (is_unsub m) l)) all_msgs
  && (Nat.eqb (count_ev is_close l) 1 || (Nat.eqb (count_ev is_close l) 0 && silent_session np l))
  && forallb (fun p => Nat.eqb (count_ev (is_stop p) l) 1
                       && (negb once || Nat.leb (count_ev (is_run p) l) 1)) (seq 0 np)
  && match last_pend l with Some false => true | _ => false end
  && Nat.eqb (length maxsim) np && forallb (fun k => Nat.leb k 1) maxsim.

(* a second request for the ids of a live batch session: refused, none of its processes is run *)
Definition dup_ok (dup : option (bool * (list nat * list nat))) : bool :=
  match dup with
  | None => true
  | Some (refused, (druns, _)) => refused && forallb (Nat.eqb 0) druns
  end.

(* a batch that is refused because a session with its id is live: Execute stops every process of the
   refused request (they are never run) *)
Definition refused_stops (cs : capture) (np : nat) : list nat :=
  map (fun p => count_occ Nat.eq_dec (loop_targets cs np) p) (seq 0 np).

Definition refused_ok (refused : bool) (bruns bstops : list nat) : bool :=
  refused && forallb (Nat.eqb 0) bruns && forallb (fun k => Nat.leb k 1) bstops.

(* ------------------------------------------------------------------------------------------ *)
(* Part 10.  A LONG history on one coordinator.  In the interleaving model of Part 1: thread t runs
   its whole session - admission (four steps), the session ends (Fin), cleanup (three steps) - before
   thread t+1 starts; after k such sessions (any session ids) a further request is made.  Admission
   looks at pendingProcesses[sessionID] only: no count of the sessions seen, no size of the map.   *)
Definition session_sched (t : nat) : list sev := repeat (Step t) 4 ++ [Fin t] ++ repeat (Step t) 3.

Definition hist_sched (k : nat) : list sev := flat_map session_sched (seq 0 k).

(* request t0 after k ended sessions: is it admitted (does it get as far as running its processes)? *)
Definition probe_admitted (sid : nat -> nat) (k t0 : nat) : bool :=
  pc_eqb (pcs (exec New sid (hist_sched k ++ repeat (Step t0) 4) (init New)) t0) PRun.

(* what the model answers whatever the number of ended sessions (a binary number: thousands) - by
   theorem C09_admission_independent_of_history this IS probe_admitted for every k *)
Definition hist_admits (k : N) : bool := true.

(* THE JUDGE of a history, on aggregated observations: of the k sessions (distinct ids, run one after
   the other, each to its end) none was refused, each ran and stopped its processes as a lone session
   does, nothing was left behind on the communication layer, every Execute returned; and every probe -
   a new id or the id of an ended session - was admitted, ran its process once and stopped it once. *)
Definition hist_ok (refused notrun stopbad leftover unclosed stuck : N)
    (probes : list (bool * (bool * (nat * nat)))) : bool :=
  N.eqb refused 0 && N.eqb notrun 0 && N.eqb stopbad 0 && N.eqb leftover 0 && N.eqb unclosed 0
  && N.eqb stuck 0
  && forallb (fun p => fst (snd p) && Nat.eqb (fst (snd (snd p))) 1 && Nat.eqb (snd (snd (snd p))) 1) probes.

(* a capacity guard on the SIZE of the pending map (entries of ended sessions are kept, as false):
   the map of the code, as an association list, and a guard that refuses at [cap] entries *)
Definition pmap := list (nat * bool).

Fixpoint pm_get (m : pmap) (s : nat) : bool :=
  match m with
  | [] => false
  | (s', b) :: r => if Nat.eqb s' s then b else pm_get r s
  end.

Fixpoint pm_set (m : pmap) (s : nat) (b : bool) : pmap :=
  match m with
  | [] => [(s, b)]
  | (s', b') :: r => if Nat.eqb s' s then (s', b) :: r else (s', b') :: pm_set r s b
  end.

(* one complete session on the guarded coordinator: admitted (then its entry is set and, at its end,
   reset to false - the entry stays) unless the guard refuses it *)
Definition guarded_admits (cap : nat) (m : pmap) (s : nat) : bool :=
  negb (pm_get m s) && Nat.ltb (length m) cap.

Definition guarded_session (cap : nat) (m : pmap) (s : nat) : pmap :=
  if guarded_admits cap m s then pm_set (pm_set m s true) s false else m.

(* ------------------------------------------------------------------------------------------ *)
(* Part 11.  The ORDER of the release against the sends of a session.  Every Broadcast of a session
   opens / uses streams registered under its id (Parts 3, 6); CloseSession releases the streams
   registered so far.  The ledger of one session on the communication layer, in the order of the
   calls: [LSend] a Broadcast for the session, [LClose] a CloseSession of it.  Execute makes the sends
   of its first attempt (initiate / ready / start messages), then - for a retryable error -
   handleError makes the sends of the retry phase (ready answers to the new coordinator, initiate and
   start messages of a re-elected coordinator), and the deferred cleanup closes the session: ONE
   CloseSession, after every send.                                                               *)
Inductive lev := LSend | LClose.

Definition is_lclose (e : lev) : bool := match e with LClose => true | LSend => false end.

(* the code: the release is part of the deferred cleanup *)
Definition exec_ledger (first retry : nat) : list lev :=
  repeat LSend first ++ repeat LSend retry ++ [LClose].

(* a variant that releases the session when the first attempt is over *)
Definition early_close_ledger (first retry : nat) : list lev :=
  repeat LSend first ++ [LClose] ++ repeat LSend retry.

(* the sends of the session that NO CloseSession of the session follows: their streams are still
   registered / open when the session is over *)
Fixpoint open_sends (l : list lev) : nat :=
  match l with
  | [] => 0
  | LSend :: r => (if existsb is_lclose r then 0 else 1) + open_sends r
  | LClose :: r => open_sends r
  end.

Definition count_sends (l : list lev) : nat :=
  length (filter (fun e => negb (is_lclose e)) l).

(* THE JUDGE of the ledger of an ended session: "its streams are released" - every send of the
   session is followed by a CloseSession of the session *)
Definition released_ok (l : list lev) : bool := Nat.eqb (open_sends l) 0.
