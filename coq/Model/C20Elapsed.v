(* C20, uploaderConfig.maxElapsedTime of the relayer section of a config FILE (a time.Duration, default
   300000 ns): viper.Unmarshal with the hooks of config.GetConfigFromFile - a string goes through
   time.ParseDuration (mapstructure.StringToTimeDurationHookFunc), a number through
   config.ExactNumbersHook (integral and within int64, else an error) and is the number of nanoseconds,
   a bool is 1 / 0 (weakly typed decode); 0 (also: the key left out) takes the default of
   creasty/defaults.  DEFINITIONS ONLY. *)
From Coq Require Import List ZArith Bool String.
Import ListNotations.
From SygmaV Require Import Model.C20 Model.C20Num.
Local Open Scope Z_scope.

Definition elapsed_default : Z := 300000.

(* the float64 (or the Go integer) the decoder is handed for a written integer *)
Definition given (z : Z) (h : how) : Z := match h with AsInt => z | AsFloat => round53 z end.

Definition decode_elapsed (w : wnum) : option Z :=
  match w with
  | WAbsent => Some 0
  | WBool b => Some (if b then 1 else 0)
  | WStr s => parse_duration s
  | WNum z h => let f := given z h in if (min_i64 <=? f) && (f <? two63) then Some f else None
  | WFrac _ _ => None
  end.

Definition model_elapsed (w : wnum) : option Z :=
  match decode_elapsed w with
  | Some v => Some (if v =? 0 then elapsed_default else v)
  | None => None
  end.

(* THE SPECIFICATION: a configuration that loads holds the written number of nanoseconds / the written
   <digits><unit> quantity (0: the default); a non-integral number of nanoseconds cannot be held and must
   not load; rejecting is always allowed; texts outside the one-component grammar, bools and a missing
   key are outside the statement *)
Definition elapsed_ok (w : wnum) (impl : option Z) : bool :=
  match impl with
  | None => true
  | Some v =>
      match w with
      | WNum z h => (v =? given z h) || ((given z h =? 0) && (v =? elapsed_default))
      | WFrac _ _ => false
      | WStr s =>
          match duration_reading s with
          | Some (n, u) => (v =? n * unit_ns u) || ((n * unit_ns u =? 0) && (v =? elapsed_default))
          | None => true
          end
      | WBool _ | WAbsent => true
      end
  end.

Definition elapsed_wf (w : wnum) : bool :=
  match w with WNum z AsFloat => exact53 z | _ => true end.
