(* C15 - Bitcoin deposits are recognised and credited to the satoshi; the nonce is a pure function
   of height and transaction hash.  Executable model, DEFINITIONS ONLY.

   Source anchors (Go):
     chains/btc/listener/util.go            DecodeDepositEvent  (decode, float -> satoshi)
     chains/btc/listener/event-handlers.go  ProcessDeposits, CalculateNonce
     chains/btc/listener/deposit-handler.go HandleDeposit (OP_RETURN payload, x10^10)

   Floating point: IEEE-754 binary64 is the Coq standard library's executable [SpecFloat]
   (round to nearest even), which carries no proofs and therefore no axioms.  Proofs/C15_Real.v
   connects it to Flocq's [Bdiv]/[Bmult] and to real-number rounding. *)
From Coq Require Import List ZArith NArith Bool String Ascii.
From Coq Require Import SpecFloat.
From SygmaV Require Import Lib.Hex Lib.C15_Sha256.
Import ListNotations.
Local Open Scope Z_scope.

(* ---------------------------------------------------------------------------------------- *)
(* binary64 *)

Definition prec : Z := 53.
Definition emax : Z := 1024.
Definition sf_of_Z (z : Z) : spec_float := binary_normalize prec emax z 0 false.
Definition sf_1e8 : spec_float := sf_of_Z 100000000.

(* The float64 that a correctly rounding parser (encoding/json -> strconv.ParseFloat) yields for
   the 8-decimal literal whose integer value is [s] satoshi:  RN(s / 10^8).  Both operands are
   exactly representable for |s| < 2^53. *)
Definition value_of (s : Z) : spec_float := SFdiv prec emax (sf_of_Z s) sf_1e8.

(* vout.Value * 1e8 *)
Definition times_1e8 (v : spec_float) : spec_float := SFmul prec emax v sf_1e8.

(* Go's float64 -> int64 conversion of an integer-valued intermediate: in range it is the integer,
   out of range (and for NaN / infinities, see [trunc_Z]/[round_Z]) amd64 yields -2^63. *)
Definition int64_min : Z := - 9223372036854775808.
Definition int64_max : Z := 9223372036854775807.
Definition go_int64 (z : option Z) : Z :=
  match z with
  | Some z => if (int64_min <=? z) && (z <=? int64_max) then z else int64_min
  | None => int64_min
  end.

(* truncation toward zero of a float (the conversion int64(f) as coded before the repair) *)
Definition trunc_Z (f : spec_float) : option Z :=
  match f with
  | S754_zero _ => Some 0
  | S754_finite s m e =>
      Some (cond_Zopp s (if 0 <=? e then Zpos m * 2 ^ e else Zpos m / 2 ^ (- e)))
  | _ => None
  end.

(* math.Round: nearest integer, halves away from zero *)
Definition round_Z (f : spec_float) : option Z :=
  match f with
  | S754_zero _ => Some 0
  | S754_finite s m e =>
      Some (cond_Zopp s (if 0 <=? e then Zpos m * 2 ^ e
                         else (2 * Zpos m + 2 ^ (- e)) / 2 ^ (- e + 1)))
  | _ => None
  end.

(* the conversion BEFORE the repair:  int64(vout.Value * 1e8) *)
Definition old_sat_of_value (v : spec_float) : Z := go_int64 (trunc_Z (times_1e8 v)).
(* the conversion AFTER the repair:   int64(math.Round(vout.Value * 1e8)) *)
Definition sat_of_value (v : spec_float) : Z := go_int64 (round_Z (times_1e8 v)).

Definition old_credited (s : Z) : Z := old_sat_of_value (value_of s).
Definition credited (s : Z) : Z := sat_of_value (value_of s).

Definition max_sat : Z := 2100000000000000.
Definition sat_wf (s : Z) : bool := (0 <=? s) && (s <=? max_sat).

(* IEEE-754 bit pattern of a non-negative finite binary64 (used only to compare [value_of] with
   the float the real JSON parser produced) *)
Definition bits_of (f : spec_float) : Z :=
  match f with
  | S754_zero false => 0
  | S754_finite false m e =>
      if Zpos m <? 2 ^ 52 then Zpos m else (e + 1075) * 2 ^ 52 + (Zpos m - 2 ^ 52)
  | _ => -1
  end.

(* ---------------------------------------------------------------------------------------- *)
(* encoding/hex.DecodeString: decoded prefix, and whether the whole string was well-formed *)

Definition hexval_strict (n : N) : option N :=
  if ((48 <=? n) && (n <=? 57))%N then Some (n - 48)%N
  else if ((97 <=? n) && (n <=? 102))%N then Some (n - 87)%N
  else if ((65 <=? n) && (n <=? 70))%N then Some (n - 55)%N
  else None.

Fixpoint hex_decode (s : list N) : list N * bool :=
  match s with
  | [] => ([], true)
  | [_] => ([], false)
  | p :: q :: r =>
      match hexval_strict p, hexval_strict q with
      | Some a, Some b => let '(l, ok) := hex_decode r in ((a * 16 + b)%N :: l, ok)
      | _, _ => ([], false)
      end
  end.

(* ---------------------------------------------------------------------------------------- *)
(* DecodeDepositEvent *)

Record vout := { o_type : string; o_hex : string; o_addr : string; o_sat : Z }.
Record resource := { r_addr : string; r_fee : Z; r_id : list N }.

Definition is_nulldata (o : vout) : bool := String.eqb (o_type o) "nulldata".
Definition is_taproot (o : vout) : bool := String.eqb (o_type o) "witness_v1_taproot".
Definition to_bridge (r : resource) (o : vout) : bool := String.eqb (r_addr r) (o_addr o).
Definition to_fee (faddr : string) (o : vout) : bool := String.eqb faddr (o_addr o).

Inductive dec :=
| NotDeposit                              (* (Deposit{}, false, nil) *)
| DecErr                                  (* (Deposit{}, true, err): undecodable OP_RETURN hex *)
| DecPanic                                (* opReturnData[2:] on fewer than two bytes *)
| IsDeposit (amount : Z) (data : list N). (* (Deposit{...}, true, nil) *)

(* the OP_RETURN step of the loop body: Some (inl result) = leave, Some (inr data) = go on *)
Definition opret_step (o : vout) (data : list N) : dec + list N :=
  if is_nulldata o then
    let '(b, ok) := hex_decode (bytes_of_string (o_hex o)) in
    if negb ok then inl DecErr
    else if (List.length b <? 2)%nat then inl DecPanic
    else inr (skipn 2 b)
  else inr data.

Section Decode.
  (* [cv s] : what the code credits for an output whose JSON value is the literal of s satoshi *)
  Variable cv : Z -> Z.

  Fixpoint decode_go (outs : list vout) (r : resource) (faddr : string)
           (amount fee : Z) (isdep : bool) (data : list N) : dec :=
    match outs with
    | [] => if negb isdep || (fee <? r_fee r) then NotDeposit else IsDeposit amount data
    | o :: rest =>
        match opret_step o data with
        | inl res => res
        | inr data' =>
            let amount' := if to_bridge r o && is_taproot o then amount + cv (o_sat o) else amount in
            let fee' := if to_fee faddr o then fee + cv (o_sat o) else fee in
            decode_go rest r faddr amount' fee' (isdep || to_bridge r o) data'
        end
    end.

  Definition decode (outs : list vout) (r : resource) (faddr : string) : dec :=
    decode_go outs r faddr 0 0 false [].
End Decode.

(* ---------------------------------------------------------------------------------------- *)
(* HandleDeposit: payload "<recipient hex>_<destination domain>", amount x 10^10 *)

Definition us : N := 95. (* "_" *)

(* strings.Split(data, "_") *)
Fixpoint split_us (cur : list N) (d : list N) : list (list N) :=
  match d with
  | [] => [rev cur]
  | c :: r => if N.eqb c us then rev cur :: split_us [] r else split_us (c :: cur) r
  end.

(* strconv.ParseUint(s, 10, 8) *)
Fixpoint parse_dec (acc : N) (s : list N) : option N :=
  match s with
  | [] => Some acc
  | c :: r => if ((48 <=? c) && (c <=? 57))%N then parse_dec (acc * 10 + (c - 48))%N r else None
  end.
Definition parse_u8 (s : list N) : option N :=
  match s with
  | [] => None
  | _ => match parse_dec 0%N s with
         | Some v => if (v <=? 255)%N then Some v else None
         | None => None
         end
  end.

(* common.HexToAddress = BytesToAddress(FromHex(s)) *)
Definition from_hex (s : list N) : list N :=
  let s1 := match s with
            | 48%N :: x :: r => if N.eqb x 120 || N.eqb x 88 then r else s
            | _ => s
            end in
  let s2 := if Nat.odd (List.length s1) then 48%N :: s1 else s1 in
  fst (hex_decode s2).
Definition bytes_to_address (b : list N) : list N :=
  let n := List.length b in
  if (20 <? n)%nat then skipn (n - 20) b else repeat 0%N (20 - n) ++ b.
Definition hex_to_address (s : list N) : list N := bytes_to_address (from_hex s).

(* None: parsedData[1] index out of range (panic, recovered by ProcessDeposits) or ParseUint error *)
Definition parse_payload (data : list N) : option (N * list N) :=
  match split_us [] data with
  | p0 :: p1 :: _ =>
      match parse_u8 p1 with
      | Some d => Some (d, hex_to_address p0)
      | None => None
      end
  | _ => None
  end.

Definition scale (a : Z) : Z := a * 10 ^ 10.

(* ---------------------------------------------------------------------------------------- *)
(* CalculateNonce *)

Fixpoint dec_digits (fuel : nat) (n : N) (acc : list N) : list N :=
  match fuel with
  | O => acc
  | S f => let acc' := (48 + n mod 10)%N :: acc in
           if (n <? 10)%N then acc' else dec_digits f (n / 10)%N acc'
  end.
(* big.Int.String() of a non-negative integer *)
Definition dec_string (n : N) : list N := dec_digits (S (N.to_nat (N.log2 n))) n [].

Definition nonce_preimage (height : N) (txhash : string) : list N :=
  dec_string height ++ [45%N] ++ bytes_of_string txhash.

Definition xor_fold (h : list N) : N :=
  N.lxor (N.lxor (be_to_N (firstn 8 h)) (be_to_N (firstn 8 (skipn 8 h))))
         (N.lxor (be_to_N (firstn 8 (skipn 16 h))) (be_to_N (firstn 8 (skipn 24 h)))).

Definition nonce (height : N) (txhash : string) : N := xor_fold (sha256 (nonce_preimage height txhash)).

(* ---------------------------------------------------------------------------------------- *)
(* ProcessDeposits on one transaction: first resource (in iteration order) for which the
   transaction is a deposit; an error or panic of DecodeDepositEvent abandons the transaction. *)

Inductive pres :=
| NoMsg
| Msg (dest : N) (nonce : N) (rid : list N) (amount : Z) (recipient : list N).

Section Process.
  Variable cv : Z -> Z.
  (* the nonce function; the model is [process credited nonce] *)
  Variable nf : N -> string -> N.
  Fixpoint process (outs : list vout) (rs : list resource) (faddr : string)
           (height : N) (txhash : string) : pres :=
    match rs with
    | [] => NoMsg
    | r :: rest =>
        match decode cv outs r faddr with
        | NotDeposit => process outs rest faddr height txhash
        | DecErr | DecPanic => NoMsg
        | IsDeposit a d =>
            match parse_payload d with
            | Some (dst, rcpt) => Msg dst (nf height txhash) (r_id r) (scale a) rcpt
            | None => NoMsg
            end
        end
    end.
End Process.

(* ---------------------------------------------------------------------------------------- *)
(* SPECIFICATION (judge): integer arithmetic on the decimal literals only - no float anywhere *)

Definition pays_bridge (outs : list vout) (r : resource) : bool := existsb (to_bridge r) outs.
Definition sum_sat (f : vout -> bool) (outs : list vout) : Z :=
  fold_right (fun o acc => if f o then o_sat o + acc else acc) 0 outs.
Definition fee_sum (outs : list vout) (faddr : string) : Z := sum_sat (to_fee faddr) outs.
Definition taproot_sum (outs : list vout) (r : resource) : Z :=
  sum_sat (fun o => to_bridge r o && is_taproot o) outs.

(* every OP_RETURN output carries decodable hex of at least two bytes (what a node returns) *)
Definition opret_ok (o : vout) : bool :=
  if is_nulldata o then
    let '(b, ok) := hex_decode (bytes_of_string (o_hex o)) in ok && (2 <=? List.length b)%nat
  else true.
Definition oprets_wf (outs : list vout) : bool := forallb opret_ok outs.
Definition sats_wf (outs : list vout) : bool := forallb (fun o => sat_wf (o_sat o)) outs.

(* payload of the last OP_RETURN output, "" if there is none *)
Definition last_payload (outs : list vout) : list N :=
  fold_left (fun d o => if is_nulldata o
                        then skipn 2 (fst (hex_decode (bytes_of_string (o_hex o)))) else d) outs [].

Fixpoint bytes_eqb (a b : list N) : bool :=
  match a, b with
  | [], [] => true
  | x :: a', y :: b' => N.eqb x y && bytes_eqb a' b'
  | _, _ => false
  end.

Definition is_deposit_spec (outs : list vout) (r : resource) (faddr : string) : bool :=
  pays_bridge outs r && (r_fee r <=? fee_sum outs faddr).

(* What DecodeDepositEvent must return on well-formed transactions. *)
Definition decode_ok (outs : list vout) (r : resource) (faddr : string) (obs : dec) : bool :=
  if oprets_wf outs && sats_wf outs then
    match obs with
    | NotDeposit => negb (is_deposit_spec outs r faddr)
    | IsDeposit a d =>
        is_deposit_spec outs r faddr && (a =? taproot_sum outs r) && bytes_eqb d (last_payload outs)
    | DecErr | DecPanic => false
    end
  else true.

(* What ProcessDeposits must emit for one transaction when exactly the resource [r] is paid. *)
Definition process_ok (outs : list vout) (r : resource) (faddr : string) (obs : pres)
           (nonce_seen : N) : bool :=
  if oprets_wf outs && sats_wf outs then
    match obs with
    | NoMsg => negb (is_deposit_spec outs r faddr) ||
               match parse_payload (last_payload outs) with None => true | Some _ => false end
    | Msg dst n rid a rcpt =>
        is_deposit_spec outs r faddr && (a =? taproot_sum outs r * 10 ^ 10) &&
        bytes_eqb rid (r_id r) && N.eqb n nonce_seen &&
        match parse_payload (last_payload outs) with
        | Some (d, rc) => N.eqb dst d && bytes_eqb rcpt rc
        | None => false
        end
    end
  else true.

(* What ProcessDeposits must emit for one transaction, given ALL configured resources: no resource
   paid - nothing; exactly one paid - [process_ok] for it; several paid - which one wins is the
   iteration order (C19's subject), not judged here. *)
Definition tx_ok (outs : list vout) (rs : list resource) (faddr : string) (obs : pres)
           (nonce_seen : N) : bool :=
  match filter (pays_bridge outs) rs with
  | [] => match obs with NoMsg => true | _ => negb (oprets_wf outs && sats_wf outs) end
  | [r] => process_ok outs r faddr obs nonce_seen
  | _ => true
  end.

(* ---------------------------------------------------------------------------------------- *)
(* Round 4 - HISTORIES on one long-lived handler.  The listener keeps ONE resources map and ONE fee
   address for its whole life (app.go) and decodes every transaction of every block against them.
   DecodeDepositEvent receives the Resource BY VALUE and writes to nothing reachable from it, so a
   step of the model returns the configuration it was given.  The statement "a transaction is a
   deposit exactly when it pays ... at least the CONFIGURED fee" is about that configuration,
   whatever was decoded before. *)

Definition config : Type := (list resource * string)%type.   (* resources in iteration order, fee address *)

Record stx := { t_hash : string; t_outs : list vout }.

Inductive sstep :=
| SBlock (height : N) (txs : list stx)       (* ProcessDeposits(height) on a block of transactions *)
| SDec (outs : list vout) (ri : nat).        (* DecodeDepositEvent(tx, resources[ri], feeAddress) *)

Inductive sres :=
| RBlock (msgs : list pres)                  (* per transaction of the block, in block order *)
| RDec (d : dec).

Section Seq.
  Variable cv : Z -> Z.
  Variable nf : N -> string -> N.

  Definition seq_step (cfg : config) (s : sstep) : config * sres :=
    match s with
    | SBlock h txs =>
        (cfg, RBlock (map (fun t => process cv nf (t_outs t) (fst cfg) (snd cfg) h (t_hash t)) txs))
    | SDec outs ri =>
        (cfg, RDec match nth_error (fst cfg) ri with
                   | Some r => decode cv outs r (snd cfg)
                   | None => NotDeposit
                   end)
    end.

  (* the configuration after each step and what the step returned *)
  Fixpoint seq_run (cfg : config) (steps : list sstep) : list (config * sres) :=
    match steps with
    | [] => []
    | s :: rest => let '(cfg', r) := seq_step cfg s in (cfg', r) :: seq_run cfg' rest
    end.
End Seq.

(* observation of one step of a history on the real handler.  [snap]: the handler's resources map
   after the step, sorted by key, as (key, value's id / address / fee); [faddr']: its fee address
   after the step. *)
Definition snapshot : Type := list (list N * resource).

Record otx := { ot_hash : string; ot_outs : list vout; ot_impl : pres; ot_nonce_seen : N }.

Inductive sobs :=
(* stray: the block yielded a message that belongs to none of its transactions, or two for one *)
| OBlock (height : N) (txs : list otx) (stray : bool) (snap : snapshot) (faddr' : string)
| ODec (outs : list vout) (ri : nat) (impl : dec) (snap : snapshot) (faddr' : string).

Definition snap_of (rs : list resource) : snapshot := map (fun r => (r_id r, r)) rs.

Definition resource_eqb (a b : resource) : bool :=
  String.eqb (r_addr a) (r_addr b) && (r_fee a =? r_fee b) && bytes_eqb (r_id a) (r_id b).

Fixpoint snap_eqb (a b : snapshot) : bool :=
  match a, b with
  | [], [] => true
  | (k, r) :: a', (k', r') :: b' => bytes_eqb k k' && resource_eqb r r' && snap_eqb a' b'
  | _, _ => false
  end.

Definition config_kept (cfg : config) (snap : snapshot) (faddr' : string) : bool :=
  snap_eqb (snap_of (fst cfg)) snap && String.eqb (snd cfg) faddr'.

(* SPECIFICATION of a history: every transaction is judged - by the per-transaction specification -
   against the ORIGINAL configuration [cfg], wherever it stands in the history, and the handler
   still holds that configuration after every step. *)
Definition step_ok (cfg : config) (o : sobs) : bool :=
  match o with
  | OBlock h txs stray snap f' =>
      forallb (fun t => tx_ok (ot_outs t) (fst cfg) (snd cfg) (ot_impl t) (ot_nonce_seen t)) txs &&
      negb stray && config_kept cfg snap f'
  | ODec outs ri impl snap f' =>
      match nth_error (fst cfg) ri with
      | Some r => decode_ok outs r (snd cfg) impl
      | None => true
      end && config_kept cfg snap f'
  end.

Definition seq_ok (cfg : config) (obs : list sobs) : bool := forallb (step_ok cfg) obs.

(* the observation the MODEL produces for a history *)
Definition obs_of (cfg : config) (nseen : N -> string -> N) (s : sstep) (x : config * sres) : sobs :=
  match s, snd x with
  | SBlock h txs, RBlock ms =>
      OBlock h (map (fun tm => Build_otx (t_hash (fst tm)) (t_outs (fst tm)) (snd tm) (nseen h (t_hash (fst tm))))
                    (combine txs ms))
             false (snap_of (fst (fst x))) (snd (fst x))
  | SDec outs ri, RDec d => ODec outs ri d (snap_of (fst (fst x))) (snd (fst x))
  | SBlock h _, RDec _ => OBlock h [] true [] ""
  | SDec outs ri, RBlock _ => ODec outs ri DecPanic [] ""
  end.

(* ---------------------------------------------------------------------------------------- *)
(* Round 5 - HandleEvents: what reaches the relayer.
   chains/btc/listener/event-handlers.go
     domainDeposits, err := eh.ProcessDeposits(blockNumber)      map destination domain -> its messages
     for _, deposits := range domainDeposits {
       go func(d []*message.Message) { eh.msgChan <- d }(deposits)      every goroutine is HANDED its batch
     }
   A transaction is treated as a deposit only if its message arrives on the message channel.  [ms] = what
   ProcessDeposits made of the transactions of the block, in block order (sres.RBlock). *)

Fixpoint add_to_dest (d : N) (m : pres) (g : list (N * list pres)) : list (N * list pres) :=
  match g with
  | [] => [(d, [m])]
  | (d', l) :: r => if N.eqb d d' then (d', l ++ [m]) :: r else (d', l) :: add_to_dest d m r
  end.

(* domainDeposits (destinations in order of first appearance; the map has no order) *)
Definition by_dest (ms : list pres) : list (N * list pres) :=
  fold_left (fun g m => match m with Msg d _ _ _ _ => add_to_dest d m g | NoMsg => g end) ms [].

(* the batches sent on the message channel for a block, one per destination domain (they arrive in the order
   the scheduler chooses) *)
Definition sent_batches (ms : list pres) : list (list pres) := map snd (by_dest ms).

Definition is_msg (p : pres) : bool := match p with NoMsg => false | Msg _ _ _ _ _ => true end.
Definition msg_dest (p : pres) : option N := match p with NoMsg => None | Msg d _ _ _ _ => Some d end.

(* NOT the code: the goroutines are not handed their batch but read the loop variable when they run - go.mod
   says go 1.21, one variable for the whole loop - which is after the loop has ended: every one of them sends
   the batch of the last iteration.  Kept to state what goes wrong with it (C15_events_shared_var_refuted). *)
Definition shared_var_batches (ms : list pres) : list (list pres) :=
  let bs := sent_batches ms in map (fun _ => last bs []) bs.
