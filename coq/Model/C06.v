(* C06 - a malformed deposit cannot crash the relayer or suppress its neighbours.
   Executable model of the per-deposit isolation of the five paths that turn a block range, a
   retried transaction or a retried block into messages.  Definitions only; proofs: Proofs/C06.v.

   Source anchors (Go):
     EvmDeposits  chains/evm/listener/eventHandlers/deposit.go     DepositEventHandler.ProcessDeposits
     SubDeposits  chains/substrate/listener/event-handlers.go      FungibleTransferEventHandler.ProcessDeposits
     BtcDeposits  chains/btc/listener/event-handlers.go            FungibleTransferEventHandler.ProcessDeposits
     EvmRetryV1   chains/evm/listener/eventHandlers/retry.go       RetryV1EventHandler.HandleEvents
     SubRetry     chains/substrate/listener/event-handlers.go      RetryEventHandler.HandleEvents

   What one deposit's handling yields is NOT modelled here (that is C01's subject): it is an input.
   A well-formed deposit [Good m] yields its message; a malformed one [Bad o] yields whatever the
   adversary (= the bytes) chooses among: a message (garbage), an error, a panic, or being filtered
   out before the deposit handler (log that does not unpack, non-deposit event, non-bridge tx). *)
From Coq Require Import List NArith Bool.
Import ListNotations.
Local Open Scope N_scope.

(* A message, projected to what this property is about: (destination domain, (deposit nonce,
   content)).  The code keys NOTHING by the nonce: the messages are grouped by destination and
   appended, one per handled deposit; deposit nonces are counted per destination domain, so two
   deposits of one range may carry the same nonce (for different destinations), the same
   destination, the same resource, the same recipient, or be byte-identical (a retried block named
   twice): each of them yields its own message.  [content] stands for everything else the message
   holds (resource id, transfer type, payload, metadata), as a number: equal contents, equal number. *)
Definition msg := (N * (N * N))%type.
Definition dest (m : msg) : N := fst m.
Definition nonce (m : msg) : N := fst (snd m).
Definition content (m : msg) : N := snd (snd m).

Inductive outcome := Ok (m : msg) | Err | Panic | Skip.

Inductive deposit := Good (m : msg) | Bad (o : outcome).

Definition handle (d : deposit) : outcome :=
  match d with Good m => Ok m | Bad o => o end.

(* map[uint8][]*message.Message, as an association list (first-appearance order of the keys; Go's
   map has no order, observations are compared per key). *)
Definition groups := list (N * list msg).

Fixpoint get (k : N) (g : groups) : list msg :=
  match g with
  | [] => []
  | (k', l) :: r => if N.eqb k k' then l else get k r
  end.

(* domainDeposits[m.Destination] = append(domainDeposits[m.Destination], m) *)
Fixpoint add (m : msg) (g : groups) : groups :=
  match g with
  | [] => [(dest m, [m])]
  | (k, l) :: r => if N.eqb (dest m) k then (k, l ++ [m]) :: r else (k, l) :: add m r
  end.

(* Outcome of HandleEvents / ProcessDeposits: the grouped messages handed on, or an error returned
   to the listener loop (which then repeats the same range). *)
Inductive result := Done (g : groups) | Failed.

(* ---------------------------------------------------------------------------------------------
   ProcessDeposits (EVM, Substrate, BTC): one closure with `defer recover()` per deposit / event /
   transaction; an error is logged and the closure returns.  The three differ only in what is
   filtered before the deposit handler ([Skip]). *)
Fixpoint process_deposits (ds : list deposit) (g : groups) : groups :=
  match ds with
  | [] => g
  | d :: r =>
      match handle d with
      | Ok m => process_deposits r (add m g)
      | Err => process_deposits r g        (* logged, `return` from the closure *)
      | Panic => process_deposits r g      (* recovered by the closure's deferred function *)
      | Skip => process_deposits r g
      end
  end.

(* ---------------------------------------------------------------------------------------------
   RetryV1EventHandler.HandleEvents: for each retry event, the deposits of the retried transaction.
   [status] is what isExecuted finds in the proposal store for the deposit. *)
Inductive status := StNew | StExecuted | StStoreErr.

Inductive revent :=
| RSkip                                       (* FetchRetryDepositEvents failed / not yet confirmed / not final *)
| RDeps (l : list (deposit * status)).

(* OLD code (tree 4a5972e): the recover sits around the WHOLE event.  A failing HandleDeposit
   leaves msg == nil and the log call evaluates msg.ID: nil dereference, i.e. a panic; any panic
   ends the loop over the transaction's deposits. *)
Fixpoint rv1_event_old (l : list (deposit * status)) (g : groups) : groups :=
  match l with
  | [] => g
  | (d, st) :: r =>
      match handle d with
      | Ok m => match st with
                | StNew => rv1_event_old r (add m g)
                | _ => rv1_event_old r g
                end
      | Skip => rv1_event_old r g
      | Err => g          (* msg.ID with msg == nil: panic, recovered around the event *)
      | Panic => g        (* recovered around the event *)
      end
  end.

(* REPAIRED code (branch fix-C06): one closure with recover per deposit, no nil dereference. *)
Fixpoint rv1_event (l : list (deposit * status)) (g : groups) : groups :=
  match l with
  | [] => g
  | (d, st) :: r =>
      match handle d with
      | Ok m => match st with
                | StNew => rv1_event r (add m g)
                | _ => rv1_event r g
                end
      | _ => rv1_event r g
      end
  end.

Fixpoint retry_v1_gen (ev : list (deposit * status) -> groups -> groups) (es : list revent) (g : groups) : groups :=
  match es with
  | [] => g
  | RSkip :: r => retry_v1_gen ev r g
  | RDeps l :: r => retry_v1_gen ev r (ev l g)
  end.

Definition retry_v1_old (es : list revent) : result := Done (retry_v1_gen rv1_event_old es []).
Definition retry_v1 (es : list revent) : result := Done (retry_v1_gen rv1_event es []).

(* ---------------------------------------------------------------------------------------------
   Substrate RetryEventHandler.HandleEvents: for each Retry event the deposits of the retried
   block.  There is no proposal-store lookup on this path (status is ignored). *)
Inductive flow := Cont (g : groups) | Abort (g : groups) | Fail.

(* OLD code: an error of DecodeDepositEvent / HandleDeposit is RETURNED out of the per-event
   closure and then out of HandleEvents (nothing is sent at all); a panic is recovered around the
   whole event and ends the loop over the block's deposits. *)
Fixpoint sub_block_old (l : list (deposit * status)) (g : groups) : flow :=
  match l with
  | [] => Cont g
  | (d, _) :: r =>
      match handle d with
      | Ok m => sub_block_old r (add m g)
      | Skip => sub_block_old r g
      | Err => Fail
      | Panic => Abort g
      end
  end.

Fixpoint sub_retry_old_go (es : list revent) (g : groups) : result :=
  match es with
  | [] => Done g
  | RSkip :: r => sub_retry_old_go r g
  | RDeps l :: r =>
      match sub_block_old l g with
      | Cont g' => sub_retry_old_go r g'
      | Abort g' => sub_retry_old_go r g'
      | Fail => Failed
      end
  end.
Definition sub_retry_old (es : list revent) : result := sub_retry_old_go es [].

(* REPAIRED code: one closure with recover per deposit; an error is logged and skipped. *)
Fixpoint sub_block (l : list (deposit * status)) (g : groups) : groups :=
  match l with
  | [] => g
  | (d, _) :: r =>
      match handle d with
      | Ok m => sub_block r (add m g)
      | _ => sub_block r g
      end
  end.
Definition sub_retry (es : list revent) : result := Done (retry_v1_gen sub_block es []).

(* ---------------------------------------------------------------------------------------------
   The five paths behind one interface.  A plain range is one [RDeps] whose statuses are ignored. *)
Inductive path := EvmDeposits | SubDeposits | BtcDeposits | EvmRetryV1 | SubRetry.

Definition uses_status (p : path) : bool := match p with EvmRetryV1 => true | _ => false end.

Definition flat (es : list revent) : list (deposit * status) :=
  flat_map (fun e => match e with RSkip => [] | RDeps l => l end) es.

Definition run (p : path) (es : list revent) : result :=
  match p with
  | EvmDeposits | SubDeposits | BtcDeposits => Done (process_deposits (map fst (flat es)) [])
  | EvmRetryV1 => retry_v1 es
  | SubRetry => sub_retry es
  end.

(* the tree before the repairs *)
Definition run_old (p : path) (es : list revent) : result :=
  match p with
  | EvmRetryV1 => retry_v1_old es
  | SubRetry => sub_retry_old es
  | _ => run p es
  end.

(* ---------------------------------------------------------------------------------------------
   Specification. *)

(* Does deposit (d, st) produce a message on path p, and which? *)
Definition emits (p : path) (x : deposit * status) : option msg :=
  match handle (fst x) with
  | Ok m => if uses_status p then match snd x with StNew => Some m | _ => None end else Some m
  | _ => None
  end.

(* The messages the WELL-FORMED deposits are owed (a retried deposit already executed, or whose
   status cannot be read, is deliberately not re-emitted). *)
Definition owed (p : path) (x : deposit * status) : option msg :=
  match fst x with
  | Good m => emits p x
  | Bad _ => None
  end.

Fixpoint filter_map {A B} (f : A -> option B) (l : list A) : list B :=
  match l with
  | [] => []
  | a :: r => match f a with Some b => b :: filter_map f r | None => filter_map f r end
  end.

Definition for_dest (k : N) (l : list msg) : list msg := filter (fun m => N.eqb (dest m) k) l.

(* healthy messages for destination k, in the original order *)
Definition healthy (p : path) (es : list revent) (k : N) : list msg :=
  for_dest k (filter_map (owed p) (flat es)).

(* all messages (healthy and garbage) for destination k, in the original order *)
Definition all_emitted (p : path) (es : list revent) (k : N) : list msg :=
  for_dest k (filter_map (emits p) (flat es)).

Definition msg_eqb (a b : msg) : bool :=
  N.eqb (dest a) (dest b) && N.eqb (nonce a) (nonce b) && N.eqb (content a) (content b).

(* number of occurrences *)
Fixpoint count (m : msg) (l : list msg) : nat :=
  match l with [] => O | x :: r => if msg_eqb m x then S (count m r) else count m r end.

Fixpoint mem (m : msg) (l : list msg) : bool :=
  match l with [] => false | x :: r => msg_eqb m x || mem m r end.

(* l is a subsequence of l' (greedy matching) *)
Fixpoint subseq (l l' : list msg) : bool :=
  match l, l' with
  | [], _ => true
  | _ :: _, [] => false
  | a :: r, b :: r' => if msg_eqb a b then subseq r r' else subseq l r'
  end.

(* The judge applied to what the implementation did: the process survived and processing the range
   came to an end ([crashed] = the process died or did not terminate), and every message owed to a
   well-formed deposit is in the group of its destination - EACH well-formed deposit its own: when
   several well-formed deposits are owed equal messages (byte-identical deposits), the group holds
   at least as many.  (Nothing is demanded about what the malformed deposits themselves yield, nor -
   beyond the statement of the property - about order; the order is covered by the theorems on the
   model and by `agree`.) *)
Definition spec_ok (p : path) (es : list revent) (crashed : bool) (r : result) : bool :=
  negb crashed &&
  let o := filter_map (owed p) (flat es) in
  forallb (fun m => match r with Done g => Nat.leb (count m o) (count m (get (dest m) g)) | Failed => false end) o.

(* ---------------------------------------------------------------------------------------------
   What the event handlers hand on to the relayer.  HandleEvents pushes every group of the result
   map to the message channel as ONE batch ([]*message.Message).  sygma-core's Relayer.Start takes
   each batch off the channel and runs `go r.route(batch)`; route reads batch[0].Destination and
   hands every message of the batch to ReceiveMessage of the chain registered for THAT destination
   (-> MessageHandler.HandleMessage, which reads m.Type).  There is no recover on that goroutine: an
   empty batch (index out of range) or a nil message (nil dereference) ends the relayer process. *)
Definition batch := list (option msg).      (* None: a nil *message.Message *)

Definition batches_of (g : groups) : list batch := map (fun kl => map Some (snd kl)) g.

Inductive routed := Delivered (k : N) (l : list msg) | RoutePanic.

Fixpoint somes (b : batch) : option (list msg) :=
  match b with
  | [] => Some []
  | Some m :: r => match somes r with Some l => Some (m :: l) | None => None end
  | None :: _ => None
  end.

Definition route (b : batch) : routed :=
  match b with
  | [] => RoutePanic                 (* msgs[0]: index out of range *)
  | None :: _ => RoutePanic          (* msgs[0].Destination: nil dereference *)
  | Some m :: _ =>
      match somes b with
      | Some l => Delivered (dest m) l
      | None => RoutePanic           (* ReceiveMessage(nil): m.Type *)
      end
  end.

(* The judge on what was observed on the message channel: no batch makes the consumer panic. *)
Definition batch_ok (b : batch) : bool :=
  match route b with Delivered _ _ => true | RoutePanic => false end.

Definition sent_ok (bs : list batch) : bool := forallb batch_ok bs.

(* ---------------------------------------------------------------------------------------------
   Downstream of route (round 5): the message handler of the destination chain.  route hands every
   message of the batch to ReceiveMessage of the destination chain = MessageHandler.HandleMessage ->
   the handler registered for the message type (EVM TransferMessageHandler and its per-transfer-type
   functions, SubstrateMessageHandler, BTC FungibleMessageHandler), ON THE ROUTE GOROUTINE.  What a
   handler does with a message is a function of the message alone (the handlers have no state): a
   proposal, an error (route reports the message as failed and goes on with the next message of the
   batch), or a panic - which nothing recovers: the relayer process dies, and no proposal of the
   batch reaches Write.  Which of the three a given message gets is not modelled here (the byte-level
   model of the handlers is C01's); it is a parameter. *)
Inductive recv := RProp | RErr | RPanic.

Section Downstream.
  Variable h : msg -> recv.

  (* the proposals of a batch, in order; None: a handler panicked *)
  Fixpoint receive (l : list msg) : option (list msg) :=
    match l with
    | [] => Some []
    | m :: r =>
        match h m with
        | RPanic => None
        | RErr => receive r
        | RProp => match receive r with Some w => Some (m :: w) | None => None end
        end
    end.

  (* route with the handler: Delivered k w = the proposals of w were written to chain k *)
  Definition route_h (b : batch) : routed :=
    match route b with
    | Delivered k l => match receive l with Some w => Delivered k w | None => RoutePanic end
    | RoutePanic => RoutePanic
    end.
End Downstream.

(* The judge on what was observed downstream: the runner hands every message that arrives at a
   destination chain to the REAL message handler of each chain kind (1 EVM, 2 Substrate, 3 BTC) and
   reports the (kind, message) pairs on which the handler panicked.  There must be none. *)
Definition down_ok (hp : list (N * msg)) : bool :=
  match hp with [] => true | _ :: _ => false end.
