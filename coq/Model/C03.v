(* C03 - an executed transfer is never signed or submitted again.
   Executable model of WHAT IS HANDED TO HASHING / SIGNING by the three executors, DEFINITIONS ONLY.

   Source anchors (Go):
     evm_select      chains/evm/executor/executor.go        proposalBatches: IsProposalExecuted filter
                                                            (how the survivors are split into batches: C14)
     sub_select      chains/substrate/executor/executor.go  Execute loop (REPAIRED, branch fix-C03)
     old_sub_select  the same loop as it was: transferProposals is appended BEFORE the executed check and
                     `proposals` is appended to itself, so everything delivered is hashed and signed
     btc_select      chains/btc/executor/executor.go        proposalsForExecution / isExecuted over
                     store/propstore.go (missing|pending|failed|executed; pending written before signing)
     btc_execute     Executor.Execute: messageID := proposals[0].MessageID panics on an empty delivery
     step            deliveries interleaved with the end of signing sessions (watchExecution:
                     storeProposalsStatus executed/failed; EVM/Substrate: the chain reports executed),
                     restarts (in-memory sessions are lost, the store / the chain are not) and retries
                     releasing stuck proposals (relayer/retry/retry.go isExecuted: pending -> failed), after
                     which a second, overlapping session over some of the same transfers can be started
                     while the first one is still running
     fail_all        storeProposalsStatus(props, failed): PER PROPOSAL, a record that says executed is
                     left alone (the other session may have succeeded in the meantime)
     nofault_keys /  store faults at the status reads / writes of a session end or of a retry release: a
     written_keys    transfer whose guard read fails is left untouched (`continue`), a failing write is
                     logged and the record stays as it was *)
From Coq Require Import List NArith Bool.
Import ListNotations.
Local Open Scope N_scope.

(* a transfer on a destination: (source domain, deposit nonce) *)
Definition key := (N * N)%type.
Definition key_eqb (a b : key) : bool := N.eqb (fst a) (fst b) && N.eqb (snd a) (snd b).
Fixpoint kmem (k : key) (l : list key) : bool :=
  match l with [] => false | x :: r => key_eqb k x || kmem k r end.

(* ---- one delivery, EVM and Substrate: the destination answers each executed-status query ---- *)

Inductive answer := Executed | NotExecuted | LookupErr.
(* Ok l: l is handed to hashing/signing.  Err: Execute returns the error, nothing is signed. *)
Inductive res := Ok (l : list key) | Err | Panic.

Definition signed_of (r : res) : list key := match r with Ok l => l | _ => [] end.

Fixpoint evm_select (d : list (key * answer)) : res :=
  match d with
  | [] => Ok []
  | (k, a) :: r =>
      match a with
      | LookupErr => Err
      | Executed => evm_select r
      | NotExecuted => match evm_select r with Ok l => Ok (k :: l) | e => e end
      end
  end.

(* repaired Substrate loop: collect after the executed check *)
Fixpoint sub_select (d : list (key * answer)) : res :=
  match d with
  | [] => Ok []
  | (k, a) :: r =>
      match a with
      | LookupErr => Err
      | Executed => sub_select r
      | NotExecuted => match sub_select r with Ok l => Ok (k :: l) | e => e end
      end
  end.

(* the loop as it was: collect first, then check; the executed ones stay in *)
Fixpoint old_sub_select (d : list (key * answer)) : res :=
  match d with
  | [] => Ok []
  | (k, a) :: r =>
      match a with
      | LookupErr => Err
      | _ => match old_sub_select r with Ok l => Ok (k :: l) | e => e end
      end
  end.

(* the signing sessions started: none for an empty selection *)
Definition sessions_of (r : res) : list (list key) :=
  match r with Ok (x :: l) => [x :: l] | _ => [] end.

Definition not_executed (e : key * answer) : bool :=
  match snd e with NotExecuted => true | _ => false end.
Definition is_lookup_err (e : key * answer) : bool :=
  match snd e with LookupErr => true | _ => false end.

(* ---- Bitcoin: the relayer's own durable record ---- *)

Inductive pstatus := Missing | Pending | Failed | Done.   (* Done = "executed" *)
Inductive fault := NoFault | ReadErr | WriteErr.           (* of the store, at this proposal *)

Definition store := list (key * pstatus).
Fixpoint lookup (st : store) (k : key) : pstatus :=
  match st with [] => Missing | (x, v) :: r => if key_eqb k x then v else lookup r k end.
Definition set_status (st : store) (k : key) (v : pstatus) : store := (k, v) :: st.

(* isExecuted: only missing and failed proposals may be executed *)
Definition executable (v : pstatus) : bool := match v with Missing | Failed => true | _ => false end.
Definition is_done (v : pstatus) : bool := match v with Done => true | _ => false end.

Fixpoint btc_select (st : store) (d : list (key * fault)) : store * res :=
  match d with
  | [] => (st, Ok [])
  | (k, f) :: r =>
      match f with
      | ReadErr => (st, Err)
      | _ =>
          if executable (lookup st k) then
            match f with
            | WriteErr => (st, Err)
            | _ => let '(st', x) := btc_select (set_status st k Pending) r in
                   (st', match x with Ok l => Ok (k :: l) | e => e end)
            end
          else btc_select st r
      end
  end.

Definition btc_execute (st : store) (d : list (key * fault)) : store * res :=
  match d with [] => (st, Panic) | _ => btc_select st d end.

(* ---- histories ---- *)

Inductive dest := EVM | SUB | BTC.

(* Every op that goes through the Bitcoin status store carries, per transfer it names, the store fault
   met AT THAT TRANSFER (round 5): ReadErr = the status read made for it fails, WriteErr = the status
   write made for it fails.  Where the code makes no such call for a transfer the fault has no effect. *)
Inductive op :=
| Deliver (d : list (key * fault))   (* EVM/Substrate: ReadErr = the executed-status query fails *)
| ExecOk (b : list (key * fault))    (* a signing session over b ends with a successful submission /
                                        EVM, Substrate: the destination now reports b executed.
                                        Bitcoin: storeProposalsStatus(b, executed) - one write per
                                        transfer, no read; a failing write is logged, the record stays *)
| ExecFail (b : list (key * fault))  (* a signing session over b ends with a failed submission:
                                        storeProposalsStatus(b, failed) - per transfer the "executed is
                                        final" guard READS the record (read fails: the transfer is left
                                        untouched), then a write unless it says executed *)
| Restart
| Release (b : list (key * fault)).  (* a retry request finds b: whatever of it is recorded pending is
                                        released to failed (Bitcoin; EVM/Substrate keep no such record);
                                        retry.isExecuted: a read per deposit (read fails: skipped), a
                                        write for a pending one (write fails: the record stays) *)

(* the transfers without a fault, with their keys only *)
Definition plain (b : list key) : list (key * fault) := map (fun k => (k, NoFault)) b.

(* [st]: Bitcoin - the prop store; EVM/Substrate - the destination's executed flags (Done).
   [inflight]: transfers of the live signing sessions of this process, with multiplicity (after a
   release the same transfer can be in two live sessions at once). *)
Record state := mkstate { st : store; inflight : list key }.

Definition answer_of (s : store) (e : key * fault) : key * answer :=
  (fst e, match snd e with
          | ReadErr => LookupErr
          | _ => if is_done (lookup s (fst e)) then Executed else NotExecuted
          end).

Definition deliver (ds : dest) (s : store) (d : list (key * fault)) : store * res :=
  match ds with
  | EVM => (s, evm_select (map (answer_of s) d))
  | SUB => (s, sub_select (map (answer_of s) d))
  | BTC => btc_execute s d
  end.

Definition keys_of (d : list (key * fault)) : list key := map fst d.
(* the transfers of a session end / release whose store calls all go through: no fault at all, resp.
   (an end with "executed" reads nothing) no failing write *)
Definition is_nofault (e : key * fault) : bool := match snd e with NoFault => true | _ => false end.
Definition not_write_fault (e : key * fault) : bool := match snd e with WriteErr => false | _ => true end.
Definition nofault_keys (b : list (key * fault)) : list key := keys_of (filter is_nofault b).
Definition written_keys (b : list (key * fault)) : list key := keys_of (filter not_write_fault b).

Definition set_all (s : store) (b : list key) (v : pstatus) : store :=
  fold_left (fun a k => set_status a k v) b s.
Definition subset (b l : list key) : bool := forallb (fun k => kmem k l) b.
Definition remove_all (b l : list key) : list key := filter (fun k => negb (kmem k b)) l.
Fixpoint remove_one (k : key) (l : list key) : list key :=
  match l with [] => [] | x :: r => if key_eqb k x then r else x :: remove_one k r end.
Definition remove_each (b l : list key) : list key := fold_left (fun a k => remove_one k a) b l.

(* storeProposalsStatus(b, failed): one read and one guarded write per proposal *)
Definition fail_all (s : store) (b : list key) : store :=
  fold_left (fun a k => if is_done (lookup a k) then a else set_status a k Failed) b s.
(* retry.isExecuted over the deposits of a retried block: pending -> failed, anything else stays *)
Definition is_pending (v : pstatus) : bool := match v with Pending => true | _ => false end.
Definition release_all (s : store) (b : list key) : store :=
  fold_left (fun a k => if is_pending (lookup a k) then set_status a k Failed else a) b s.

Definition step (ds : dest) (s : state) (o : op) : state * res :=
  match o with
  | Deliver d =>
      let '(s', r) := deliver ds (st s) d in (mkstate s' (inflight s ++ signed_of r), r)
  | ExecOk b =>
      match ds with
      | BTC => if subset (keys_of b) (inflight s)
               then (mkstate (set_all (st s) (written_keys b) Done) (remove_each (keys_of b) (inflight s)), Ok [])
               else (s, Ok [])
      | _ => (mkstate (set_all (st s) (keys_of b) Done) (remove_all (keys_of b) (inflight s)), Ok [])
      end
  | ExecFail b =>
      match ds with
      | BTC => if subset (keys_of b) (inflight s)
               then (mkstate (fail_all (st s) (nofault_keys b)) (remove_each (keys_of b) (inflight s)), Ok [])
               else (s, Ok [])
      | _ => (mkstate (st s) (remove_all (keys_of b) (inflight s)), Ok [])
      end
  | Restart => (mkstate (st s) [], Ok [])
  | Release b =>
      match ds with
      | BTC => (mkstate (release_all (st s) (nofault_keys b)) (inflight s), Ok [])
      | _ => (s, Ok [])
      end
  end.

(* per op: the state before it and what it handed to signing *)
Fixpoint trace (ds : dest) (s : state) (ops : list op) : list (state * res) :=
  match ops with
  | [] => []
  | o :: r => let '(s', out) := step ds s o in (s, out) :: trace ds s' r
  end.

(* "the destination reports / the relayer has recorded that k is executed or in flight" *)
Definition eligible (ds : dest) (v : pstatus) : bool :=
  match ds with BTC => executable v | _ => negb (is_done v) end.

(* ---- specification as a boolean predicate on observations ---- *)

(* observation of one op: error class (0 none, 1 status lookup / store, 2 panic, 3 other), the lists
   handed to hashing (one per signing session), the status of every key of the universe afterwards *)
Record obs := mkobs { o_err : N; o_sets : list (list key); o_snap : list pstatus }.

Definition has_read_fault (d : list (key * fault)) : bool :=
  existsb (fun e => match snd e with ReadErr => true | _ => false end) d.
Definition no_fault (d : list (key * fault)) : bool :=
  forallb (fun e => match snd e with NoFault => true | _ => false end) d.
Definition is_nil {A} (l : list A) : bool := match l with [] => true | _ => false end.

(* [view]: status of every key before the op (previous snapshot) *)
Definition step_ok (ds : dest) (view : store) (o : op) (ob : obs) : bool :=
  let sg := concat (o_sets ob) in
  match o with
  | Deliver d =>
      forallb (fun l => negb (is_nil l)) (o_sets ob)                     (* no session over nothing *)
      && forallb (fun k => eligible ds (lookup view k)) sg                (* nothing executed / in flight is signed *)
      && forallb (fun k => kmem k (keys_of d)) sg                         (* only what was delivered *)
      && (if has_read_fault d then is_nil sg else true)                   (* lookup failed: nothing signed *)
      && (if no_fault d
          then forallb (fun k => if eligible ds (lookup view k) then kmem k sg else true) (keys_of d)
          else true)                                                      (* the others are all processed *)
  | _ => is_nil sg
  end.

(* executed is final *)
Definition final_ok (uni : list key) (before after : store) : bool :=
  forallb (fun k => if is_done (lookup before k) then is_done (lookup after k) else true) uni.

Fixpoint hist_ok (ds : dest) (uni : list key) (view : store) (ops : list op) (os : list obs) : bool :=
  match ops, os with
  | [], [] => true
  | o :: r, ob :: os' =>
      let after := combine uni (o_snap ob) in
      Nat.eqb (length (o_snap ob)) (length uni)
      && step_ok ds view o ob && final_ok uni view after && hist_ok ds uni after r os'
  | _, _ => false
  end.

Definition snapshot (uni : list key) (s : store) : list pstatus := map (lookup s) uni.

Definition err_code (r : res) : N := match r with Ok _ => 0 | Err => 1 | Panic => 2 end.

(* the model's observation of a history *)
Fixpoint model_obs (ds : dest) (uni : list key) (s : state) (ops : list op) : list obs :=
  match ops with
  | [] => []
  | o :: r =>
      let '(s', out) := step ds s o in
      mkobs (err_code out) (sessions_of out) (snapshot uni (st s')) :: model_obs ds uni s' r
  end.

Definition op_keys (o : op) : list key :=
  match o with Deliver d => keys_of d | ExecOk b | ExecFail b | Release b => keys_of b | Restart => [] end.
Definition wf_ops (uni : list key) (ops : list op) : bool :=
  forallb (fun o => forallb (fun k => kmem k uni) (op_keys o)) ops.
