(* C18 - codec of the topology file (topology/store.go: json.Marshal / json.Unmarshal of
   NetworkTopology{Peers []*peer.AddrInfo, Threshold int}; a peer.AddrInfo marshals as an object with
   the keys ID (base58 peer id) and Addrs (list of multiaddr texts)).
   A small canonical printer and a parser for exactly that document shape.  Definitions only.
   Strings are peer ids and multiaddr texts: printable ASCII without double quote and backslash (and
   without the characters encoding/json escapes: less-than, greater-than, ampersand), so no escape
   sequences occur. *)
From Coq Require Import List NArith Bool String Ascii DecimalString.
Import ListNotations.
Local Open Scope string_scope.

Record peer := mkPeer { pid : string; paddrs : list string }.
Record topo := mkTopo { tpeers : list peer; tthreshold : N }.

Definition dq : string := String (ascii_of_N 34) "".       (* the double-quote character *)

Definition print_N (n : N) : string := NilEmpty.string_of_uint (N.to_uint n).

Definition pr_str (s : string) : string := dq ++ s ++ dq.

(* elements, comma separated, INCLUDING the closing bracket *)
Fixpoint pr_strs (l : list string) : string :=
  match l with
  | [] => "]"
  | s :: r => match r with
              | [] => pr_str s ++ "]"
              | _ => pr_str s ++ "," ++ pr_strs r
              end
  end.

Definition pr_peer (p : peer) : string :=
  "{" ++ pr_str "ID" ++ ":" ++ pr_str (pid p) ++ "," ++ pr_str "Addrs" ++ ":[" ++ pr_strs (paddrs p) ++ "}".

Fixpoint pr_peers (l : list peer) : string :=
  match l with
  | [] => "]"
  | p :: r => match r with
              | [] => pr_peer p ++ "]"
              | _ => pr_peer p ++ "," ++ pr_peers r
              end
  end.

Definition print_topo (t : topo) : string :=
  "{" ++ pr_str "Peers" ++ ":[" ++ pr_peers (tpeers t) ++ "," ++ pr_str "Threshold" ++ ":" ++ print_N (tthreshold t) ++ "}".

(* ---- tokens ------------------------------------------------------------------------------------ *)

Inductive token :=
| TLBrace | TRBrace | TLBrack | TRBrack | TColon | TComma
| TStr (s : string) | TNum (s : string) | TBad.

Inductive mode := Out | InStr (acc : string) | InNum (acc : string).

Definition is_digit (a : ascii) : bool :=
  let n := N_of_ascii a in ((48 <=? n) && (n <=? 57))%N.

Definition snoc (s : string) (c : ascii) : string := s ++ String c "".

(* one pass over the text *)
Fixpoint tok (m : mode) (s : string) : list token :=
  match s with
  | EmptyString => match m with Out => [] | InStr _ => [TBad] | InNum a => [TNum a] end
  | String c r =>
      let out :=
        let n := N_of_ascii c in
        if N.eqb n 123 then TLBrace :: tok Out r
        else if N.eqb n 125 then TRBrace :: tok Out r
        else if N.eqb n 91 then TLBrack :: tok Out r
        else if N.eqb n 93 then TRBrack :: tok Out r
        else if N.eqb n 58 then TColon :: tok Out r
        else if N.eqb n 44 then TComma :: tok Out r
        else if N.eqb n 34 then tok (InStr "") r
        else if is_digit c then tok (InNum (String c "")) r
        else [TBad] in
      match m with
      | Out => out
      | InStr a =>
          if N.eqb (N_of_ascii c) 34 then TStr a :: tok Out r
          else if N.eqb (N_of_ascii c) 92 then [TBad]
          else tok (InStr (snoc a c)) r
      | InNum a => if is_digit c then tok (InNum (snoc a c)) r else TNum a :: out
      end
  end.

(* ---- parser over tokens -------------------------------------------------------------------------- *)

(* after the opening bracket: strings, comma separated, up to and including the closing bracket *)
Fixpoint p_strs (ts : list token) : option (list string * list token) :=
  match ts with
  | TRBrack :: r => Some ([], r)
  | TStr s :: TRBrack :: r => Some ([s], r)
  | TStr s :: TComma :: r =>
      match r with
      | TStr _ :: _ => match p_strs r with Some (l, r') => Some (s :: l, r') | None => None end
      | _ => None
      end
  | _ => None
  end.

Definition p_peer (ts : list token) : option (peer * list token) :=
  match ts with
  | TLBrace :: TStr k1 :: TColon :: TStr id :: TComma :: TStr k2 :: TColon :: TLBrack :: r =>
      if String.eqb k1 "ID" && String.eqb k2 "Addrs" then
        match p_strs r with
        | Some (addrs, TRBrace :: r') => Some (mkPeer id addrs, r')
        | _ => None
        end
      else None
  | _ => None
  end.

(* after the opening bracket: peers, comma separated, up to and including the closing bracket *)
Fixpoint p_peers (fuel : nat) (ts : list token) : option (list peer * list token) :=
  match fuel with
  | O => None
  | S f =>
      match ts with
      | TRBrack :: r => Some ([], r)
      | _ =>
          match p_peer ts with
          | Some (p, TRBrack :: r) => Some ([p], r)
          | Some (p, TComma :: ((TLBrace :: _) as r)) =>
              match p_peers f r with Some (l, r') => Some (p :: l, r') | None => None end
          | _ => None
          end
      end
  end.

Definition p_num (s : string) : option N :=
  match s with
  | EmptyString => None
  | _ => option_map N.of_uint (NilEmpty.uint_of_string s)
  end.

Definition p_topo (ts : list token) : option topo :=
  match ts with
  | TLBrace :: TStr k1 :: TColon :: TLBrack :: r =>
      if String.eqb k1 "Peers" then
        match p_peers (S (List.length r)) r with
        | Some (peers, TComma :: TStr k2 :: TColon :: TNum d :: TRBrace :: []) =>
            if String.eqb k2 "Threshold" then
              match p_num d with Some n => Some (mkTopo peers n) | None => None end
            else None
        | _ => None
        end
      else None
  | _ => None
  end.

Definition parse_topo (s : string) : option topo := p_topo (tok Out s).

(* ---- well-formedness and equality ------------------------------------------------------------------ *)

Fixpoint no_quote (s : string) : bool :=
  match s with
  | EmptyString => true
  | String c r => negb (N.eqb (N_of_ascii c) 34) && negb (N.eqb (N_of_ascii c) 92) && no_quote r
  end.

Definition safe_peer (p : peer) : bool := no_quote (pid p) && forallb no_quote (paddrs p).
Definition safe_topo (t : topo) : bool := forallb safe_peer (tpeers t).

Fixpoint strs_eqb (a b : list string) : bool :=
  match a, b with
  | [], [] => true
  | x :: a', y :: b' => String.eqb x y && strs_eqb a' b'
  | _, _ => false
  end.

Definition peer_eqb (a b : peer) : bool := String.eqb (pid a) (pid b) && strs_eqb (paddrs a) (paddrs b).

Fixpoint peers_eqb (a b : list peer) : bool :=
  match a, b with
  | [], [] => true
  | x :: a', y :: b' => peer_eqb x y && peers_eqb a' b'
  | _, _ => false
  end.

Definition topo_eqb (a b : topo) : bool :=
  peers_eqb (tpeers a) (tpeers b) && N.eqb (tthreshold a) (tthreshold b).

Definition otopo_eqb (a : option topo) (b : topo) : bool :=
  match a with Some x => topo_eqb x b | None => false end.
