(* C17 - retries re-emit exactly the unexecuted matching deposits; executed is final; store errors
   withhold; the executor is never stuck.
   Executable model of the proposal-status bookkeeping.  Definitions only; proofs in Proofs/C17.v.

   Source anchors (Go):
     store/propstore.go                         PropStatus (not found -> missing) / StorePropStatus
     relayer/retry/retry.go                     FilterDeposits / isExecuted
     chains/evm/listener/eventHandlers/retry.go RetryV1EventHandler.HandleEvents / isExecuted (a copy)
     chains/{evm,btc,substrate}/executor/message-handler.go  RetryMessageHandler.HandleMessage
                                                (block guard = C04, then FilterDeposits)
     chains/btc/executor/executor.go            proposalsForExecution / isExecuted /
                                                storeProposalsStatus (mutex propMutex) / watchExecution
   [step] models the REPAIRED code (branch fix-C17: deferred Unlock in proposalsForExecution; a
   failed broadcast no longer overwrites "executed"); [old_step] the code as found.

   The status store fails when told to: every store call consumes one entry of the fault schedule
   ([true] = this call returns an error and has no effect); an exhausted schedule means no more
   faults.  The mutex is the explicit bit [locked]; a call that needs it while it is held never
   returns ([OStuck]) - nothing else can release it. *)
From Coq Require Import List NArith Bool.
Import ListNotations.
Local Open Scope N_scope.

(* ---------------------------------------------------------------------------------------------- *)
(* the status store *)

Definition key := (N * N * N)%type.                      (* source, destination, deposit nonce *)
Definition key_eqb (a b : key) : bool :=
  match a, b with (a1, a2, a3), (b1, b2, b3) => (a1 =? b1) && (a2 =? b2) && (a3 =? b3) end.

Inductive status := Missing | Pending | Failed | Executed.
Definition is_exec (v : status) : bool := match v with Executed => true | _ => false end.
Definition is_pending (v : status) : bool := match v with Pending => true | _ => false end.
(* the statuses from which the BTC executor starts an execution *)
Definition startable (v : status) : bool := match v with Missing | Failed => true | _ => false end.

Definition kv := list (key * status).
Fixpoint get (m : kv) (k : key) : status :=
  match m with
  | [] => Missing
  | (k', v) :: r => if key_eqb k k' then v else get r k
  end.
Definition set (m : kv) (k : key) (v : status) : kv := (k, v) :: m.

Definition memk (k : key) (l : list key) : bool := existsb (key_eqb k) l.

(* contents, remaining fault schedule, keys whose store call failed (most recent first) *)
Record sto := mkSto { s_kv : kv; s_faults : list bool; s_failed : list key }.

Definition next_fault (s : sto) : bool * list bool :=
  match s_faults s with [] => (false, []) | f :: r => (f, r) end.

(* PropStore.PropStatus: None = error *)
Definition read (k : key) (s : sto) : option status * sto :=
  let (f, r) := next_fault s in
  if f then (None, mkSto (s_kv s) r (k :: s_failed s))
  else (Some (get (s_kv s) k), mkSto (s_kv s) r (s_failed s)).

(* PropStore.StorePropStatus: false = error (nothing stored) *)
Definition write (k : key) (v : status) (s : sto) : bool * sto :=
  let (f, r) := next_fault s in
  if f then (false, mkSto (s_kv s) r (k :: s_failed s))
  else (true, mkSto (set (s_kv s) k v) r (s_failed s)).

(* ---------------------------------------------------------------------------------------------- *)
(* retries *)

Record deposit := mkDep { d_dst : N; d_nonce : N; d_res : N }.
Definition dkey (src : N) (d : deposit) : key := (src, d_dst d, d_nonce d).
Definition dep_eqb (a b : deposit) : bool :=
  (d_dst a =? d_dst b) && (d_nonce a =? d_nonce b) && (d_res a =? d_res b).

(* relayer/retry.isExecuted: true = do not re-emit (executed, or a store call failed);
   a pending proposal is set to failed so that it can be executed again *)
Definition is_executed_retry (k : key) (s : sto) : bool * sto :=
  match read k s with
  | (None, s1) => (true, s1)
  | (Some Executed, s1) => (true, s1)
  | (Some Pending, s1) => let (ok, s2) := write k Failed s1 in (negb ok, s2)
  | (Some _, s1) => (false, s1)
  end.

(* RetryV1EventHandler.isExecuted: a textual copy of the above *)
Definition is_executed_v1 (k : key) (s : sto) : bool * sto :=
  match read k s with
  | (None, s1) => (true, s1)
  | (Some Executed, s1) => (true, s1)
  | (Some Pending, s1) => let (ok, s2) := write k Failed s1 in (negb ok, s2)
  | (Some _, s1) => (false, s1)
  end.

Section Filter.
  Variable isx : key -> sto -> bool * sto.
  Variable sel : deposit -> bool.
  Variable src : N.
  Fixpoint filter_loop (ds : list deposit) (s : sto) : list deposit * sto :=
    match ds with
    | [] => ([], s)
    | d :: r =>
        if sel d then
          let (skip, s1) := isx (dkey src d) s in
          let (em, s2) := filter_loop r s1 in
          (if skip then em else d :: em, s2)
        else filter_loop r s
    end.
End Filter.

(* how a retry request reaches the filter *)
Inductive path := PFilter | PEvm | PBtc | PSub | PV1.

(* FilterDeposits: only the deposits for the requested destination and resource *)
Definition wanted (res dest : N) (d : deposit) : bool := (d_dst d =? dest) && (d_res d =? res).
(* RetryV1: every deposit of the retried transaction *)
Definition sel_of (p : path) (res dest : N) : deposit -> bool :=
  match p with PV1 => fun _ => true | _ => wanted res dest end.
Definition isx_of (p : path) := match p with PV1 => is_executed_v1 | _ => is_executed_retry end.

Definition filter_deposits (p : path) (src res dest : N) (ds : list deposit) (s : sto) : list deposit * sto :=
  filter_loop (isx_of p) (sel_of p res dest) src ds s.

(* RetryV1 sends one batch per destination domain (map iteration order); observed sorted by domain *)
Definition domains : list N := [1; 2; 3; 4].
Definition regroup (p : path) (em : list deposit) : list deposit :=
  match p with
  | PV1 => flat_map (fun dom => filter (fun d => d_dst d =? dom) em) domains
  | _ => em
  end.

(* ---------------------------------------------------------------------------------------------- *)
(* the BTC executor's bookkeeping *)

Record state := mkState { st : sto; locked : bool; batches : list (list key) }.

(* the loop of proposalsForExecution: None = a store call failed *)
Fixpoint pfe_loop (ks acc : list key) (s : sto) : option (list key) * sto :=
  match ks with
  | [] => (Some (rev acc), s)
  | k :: r =>
      match read k s with
      | (None, s1) => (None, s1)
      | (Some v, s1) =>
          if startable v then
            match write k Pending s1 with
            | (false, s2) => (None, s2)
            | (true, s2) => pfe_loop r (k :: acc) s2
            end
          else pfe_loop r acc s1
      end
  end.

Inductive op :=
| Retry (p : path) (src res dest : N) (ds : list deposit)  (* a retry request for a block holding [ds] *)
| Deliver (ks : list key)                                  (* Execute: proposalsForExecution *)
| ExecOk (i : nat)                                         (* broadcast of delivery i succeeded *)
| ExecFail (i : nat).                                      (* broadcast of delivery i failed *)

Inductive out :=
| ORetry (emitted : list deposit)
| ODeliver (r : option (list key))
| OExec
| OStuck.

Definition clear (s : sto) : sto := mkSto (s_kv s) (s_faults s) [].

Section Exec.
  Variable fix_unlock : bool.   (* true: deferred Unlock in proposalsForExecution *)
  Variable fix_absorb : bool.   (* true: storeProposalsStatus(failed) leaves "executed" alone *)

  Fixpoint store_loop (v : status) (ks : list key) (s : sto) : sto :=
    match ks with
    | [] => s
    | k :: r =>
        if fix_absorb && (match v with Failed => true | _ => false end) then
          match read k s with
          | (None, s1) => store_loop v r s1
          | (Some cur, s1) =>
              if is_exec cur then store_loop v r s1
              else store_loop v r (snd (write k v s1))
          end
        else store_loop v r (snd (write k v s))
    end.

  (* one operation; the failed-call log is per operation *)
  Definition step_gen (o : op) (x : state) : state * out :=
    let s := clear (st x) in
    match o with
    | Retry p src res dest ds =>
        let (em, s') := filter_deposits p src res dest ds s in
        (mkState s' (locked x) (batches x), ORetry (regroup p em))
    | Deliver ks =>
        if locked x then (mkState s true (batches x), OStuck)
        else
          match pfe_loop ks [] s with
          | (Some sel, s') => (mkState s' false (batches x ++ [sel]), ODeliver (Some sel))
          | (None, s') => (mkState s' (negb fix_unlock) (batches x), ODeliver None)
          end
    | ExecOk i =>
        if locked x then (mkState s true (batches x), OStuck)
        else (mkState (store_loop Executed (nth i (batches x) []) s) false (batches x), OExec)
    | ExecFail i =>
        if locked x then (mkState s true (batches x), OStuck)
        else (mkState (store_loop Failed (nth i (batches x) []) s) false (batches x), OExec)
    end.
End Exec.

Definition step := step_gen true true.
Definition old_step := step_gen false false.

(* what is observed after every operation: its result, the keys whose store call failed during
   it, the store contents *)
Definition obs := (out * list key * kv)%type.

Section Run.
  Variable stepf : op -> state -> state * out.
  Fixpoint run_gen (ops : list op) (x : state) : list obs :=
    match ops with
    | [] => []
    | o :: r => let (x', ou) := stepf o x in (ou, s_failed (st x'), s_kv (st x')) :: run_gen r x'
    end.
  Fixpoint final_gen (ops : list op) (x : state) : state :=
    match ops with
    | [] => x
    | o :: r => final_gen r (fst (stepf o x))
    end.
End Run.
Definition run := run_gen step.
Definition final := final_gen step.
Definition old_run := run_gen old_step.

Definition init_state (m : kv) (faults : list bool) : state := mkState (mkSto m faults []) false [].

(* ---------------------------------------------------------------------------------------------- *)
(* well-formed operations: the deposits of one retried block have pairwise distinct nonces per
   destination (they are distinct deposits of one source chain) *)

Fixpoint nodupk (l : list key) : bool :=
  match l with [] => true | k :: r => negb (memk k r) && nodupk r end.

Definition wf_op (o : op) : bool :=
  match o with
  | Retry p src res dest ds =>
      nodupk (map (dkey src) ds)
      && (match p with PV1 => forallb (fun d => existsb (N.eqb (d_dst d)) domains) ds | _ => true end)
  | _ => true
  end.

(* ---------------------------------------------------------------------------------------------- *)
(* The specification as a boolean predicate on what was observed (the judge of the correspondence
   run): [pre]/[post] are the store contents before and after the operation. *)

Fixpoint deps_eqb (a b : list deposit) : bool :=
  match a, b with
  | [], [] => true
  | x :: a', y :: b' => dep_eqb x y && deps_eqb a' b'
  | _, _ => false
  end.

(* the same deposits, each as often, in ANY order (the property says which deposits a retry re-emits,
   not in which order they stand in the batch) *)
Fixpoint count_dep (d : deposit) (l : list deposit) : nat :=
  match l with
  | [] => O
  | x :: r => ((if dep_eqb d x then 1 else 0) + count_dep d r)%nat
  end.
Definition deps_perm_eqb (a b : list deposit) : bool :=
  forallb (fun d => Nat.eqb (count_dep d a) (count_dep d b)) (a ++ b).

(* exactly the selected deposits that are not recorded executed and whose store calls all succeeded *)
Definition expected_retry (p : path) (src res dest : N) (ds : list deposit) (pre : kv) (failed : list key)
  : list deposit :=
  filter (fun d => sel_of p res dest d && negb (is_exec (get pre (dkey src d))) && negb (memk (dkey src d) failed)) ds.

Definition keeps_executed (univ : list key) (pre post : kv) : bool :=
  forallb (fun k => implb (is_exec (get pre k)) (is_exec (get post k))) univ.

Definition judge_step (univ : list key) (pre : kv) (o : op) (ob : obs) : bool :=
  match ob with
  | (ou, failed, post) =>
      keeps_executed univ pre post
      && match o, ou with
         | _, OStuck => false
         | Retry p src res dest ds, ORetry em =>
             (* those and only those, each once; the order inside the batch is not constrained *)
             deps_perm_eqb em (regroup p (expected_retry p src res dest ds pre failed))
             (* every re-emitted deposit is left in a status from which it will be executed *)
             && forallb (fun d => startable (get post (dkey src d))) em
         | Retry _ _ _ _ _, _ => false
         | _, ORetry _ => false
         | _, _ => true
         end
  end.

Fixpoint hist_ok (univ : list key) (pre : kv) (ops : list op) (obs_ : list obs) : bool :=
  match ops, obs_ with
  | [], [] => true
  | o :: r, ob :: obs' => judge_step univ pre o ob && hist_ok univ (snd ob) r obs'
  | _, _ => false
  end.

(* ---------------------------------------------------------------------------------------------- *)
(* Concurrent use of ONE status store.  The real relayer runs retries, deliveries and executions of
   different deposits concurrently on one PropStore.  Every thread has its own fault schedule, mutex
   bit and deliveries (its [state], whose store contents are ignored: the contents are shared), and
   its own operation list; a schedule names the thread that makes its next operation (operations
   are atomic, as everywhere in this model).
   Key layout: thread i owns the keys [nth i Ks []]; the keys [RE] are recorded executed at the
   start and may be named by every operation of every thread; the keys [RO] are not pending at the
   start and are named by retries only (they are only ever read). *)

(* the keys an operation can read or write, given the deliveries made so far *)
Definition touched (bs : list (list key)) (o : op) : list key :=
  match o with
  | Retry _ src _ _ ds => map (dkey src) ds
  | Deliver ks => ks
  | ExecOk i => nth i bs []
  | ExecFail i => nth i bs []
  end.

Definition with_kv (m : kv) (x : state) : state :=
  mkState (mkSto m (s_faults (st x)) (s_failed (st x))) (locked x) (batches x).

Record thread := mkThread { t_x : state; t_ops : list op }.

Fixpoint upd {A : Type} (i : nat) (a : A) (l : list A) : list A :=
  match l, i with
  | [], _ => []
  | _ :: r, O => a :: r
  | b :: r, S i' => b :: upd i' a r
  end.

Definition cstate := (kv * list thread)%type.

(* thread i makes its next operation on the shared contents *)
Definition cstep (i : nat) (c : cstate) : cstate * option obs :=
  match nth_error (snd c) i with
  | Some t =>
      match t_ops t with
      | o :: r =>
          let (x', ou) := step o (with_kv (fst c) (t_x t)) in
          ((s_kv (st x'), upd i (mkThread x' r) (snd c)), Some (ou, s_failed (st x'), s_kv (st x')))
      | [] => (c, None)
      end
  | None => (c, None)
  end.

(* the trace of a schedule: who did what, and the state reached *)
Fixpoint crun (sched : list nat) (c : cstate) : list (nat * obs) * cstate :=
  match sched with
  | [] => ([], c)
  | i :: r =>
      let (c', ob) := cstep i c in
      let (tr, cf) := crun r c' in
      (match ob with Some b => (i, b) :: tr | None => tr end, cf)
  end.

(* what thread i saw *)
Definition proj (i : nat) (tr : list (nat * obs)) : list obs :=
  map snd (filter (fun p => Nat.eqb (fst p) i) tr).

(* two store contents / observation lists that cannot be told apart on the keys [T] *)
Definition agree_on (T : list key) (m1 m2 : kv) : Prop := forall k, In k T -> get m1 k = get m2 k.
Definition obs_sim (T : list key) (a b : list obs) : Prop :=
  Forall2 (fun x y : obs => fst x = fst y /\ agree_on T (snd x) (snd y)) a b.

Definition subk (a b : list key) : bool := forallb (fun k => memk k b) a.
Definition disjk (a b : list key) : bool := forallb (fun k => negb (memk k b)) a.
Fixpoint pairwise_disj (l : list (list key)) : bool :=
  match l with [] => true | a :: r => forallb (disjk a) r && pairwise_disj r end.

Definition op_own (K RE RO : list key) (o : op) : bool :=
  match o with
  | Retry _ src _ _ ds => forallb (fun k => memk k K || memk k RE || memk k RO) (map (dkey src) ds)
  | Deliver ks => forallb (fun k => memk k K || memk k RE) ks
  | _ => true
  end.

Definition thread_ok (K RE RO : list key) (t : thread) : bool :=
  forallb wf_op (t_ops t) && forallb (op_own K RE RO) (t_ops t)
  && forallb (fun b => subk b K) (batches (t_x t)) && negb (locked (t_x t)).

Definition view (Ks : list (list key)) (RE RO : list key) (i : nat) : list key := nth i Ks [] ++ RE ++ RO.

(* the well-formedness of a concurrent case (the generator satisfies it) *)
Definition conc_wf (Ks : list (list key)) (RE RO : list key) (m : kv) (ts : list thread) : bool :=
  Nat.eqb (length Ks) (length ts) && pairwise_disj Ks
  && forallb (fun K => disjk K RE && disjk K RO) Ks
  && forallb (fun k => is_exec (get m k)) RE
  && forallb (fun k => negb (is_pending (get m k))) RO
  && forallb (fun p => thread_ok (fst p) RE RO (snd p)) (combine Ks ts).

(* the store contents a thread saw last *)
Fixpoint last_kv (pre : kv) (obs_ : list obs) : kv :=
  match obs_ with [] => pre | ob :: r => last_kv (snd ob) r end.

(* the judge of a concurrent case, per thread: the sequential judge on the thread's own history over
   the keys it can name, and what it last saw executed is executed in the final contents *)
Definition thread_judge (V : list key) (init : kv) (ops : list op) (obs_ : list obs) (fin : kv) : bool :=
  hist_ok V init ops obs_ && keeps_executed V (last_kv init obs_) fin.

(* ---------------------------------------------------------------------------------------------- *)
(* Two operations meeting INSIDE a call.  The BTC executor holds propMutex around the whole
   proposalsForExecution (the admission of a delivery: per proposal a status read and, if it is to be
   executed, the "pending" mark) and around the whole storeProposalsStatus (the end of an execution),
   so of two such operations on the same proposals made by two goroutines one happens entirely before
   the other: the admissible outcomes of "a, and b let in at some store call of a" are the two atomic
   orders.  The scripted interleavings of the runner (harness/cmd/c17/script.go) park one operation at
   each of its store calls in turn, start the other, and compare the history - in the order in which
   the two completed - with the atomic model of that order. *)

Definition script_orders (prefix : list op) (a b : op) (suffix : list op) : list (list op) :=
  [prefix ++ [a; b] ++ suffix; prefix ++ [b; a] ++ suffix].

(* The admission at the granularity of its two kinds of store calls: first the status reads (the
   candidates: the proposals read as missing / failed), then the "pending" marks.  [AdmitRead] and
   [AdmitWrite] are the two halves of one delivery; any other operation can be scheduled between them.
   [with_mutex = true]  is the code: the mutex is taken before the reads and released after the marks,
                        so an operation that needs it waits ([OStuck]: attempted, no effect);
   [with_mutex = false] is an admission that reads the statuses WITHOUT the mutex and takes it only for
                        the marks - not the code; kept to state what goes wrong with it. *)
Fixpoint adm_read (ks acc : list key) (s : sto) : option (list key) * sto :=
  match ks with
  | [] => (Some (rev acc), s)
  | k :: r =>
      match read k s with
      | (None, s1) => (None, s1)
      | (Some v, s1) => if startable v then adm_read r (k :: acc) s1 else adm_read r acc s1
      end
  end.

Fixpoint adm_write (cs acc : list key) (s : sto) : option (list key) * sto :=
  match cs with
  | [] => (Some (rev acc), s)
  | k :: r =>
      match write k Pending s with
      | (false, s1) => (None, s1)
      | (true, s1) => adm_write r (k :: acc) s1
      end
  end.

Inductive sop := Whole (o : op) | AdmitRead (ks : list key) | AdmitWrite.

(* the executor state and the candidates of the admission in progress *)
Record sstate := mkS { s_x : state; s_adm : option (list key) }.

Section Split.
  Variable with_mutex : bool.

  Definition sstep (o : sop) (z : sstate) : sstate * out :=
    let x := s_x z in
    let s := clear (st x) in
    match o with
    | Whole o' => let (x', ou) := step o' x in (mkS x' (s_adm z), ou)
    | AdmitRead ks =>
        if with_mutex && locked x then (mkS (mkState s true (batches x)) (s_adm z), OStuck)
        else match adm_read ks [] s with
             | (Some cs, s') => (mkS (mkState s' (with_mutex || locked x) (batches x)) (Some cs), OExec)
             | (None, s') => (mkS (mkState s' (locked x) (batches x)) None, ODeliver None)
             end
    | AdmitWrite =>
        match s_adm z with
        | None => (mkS (mkState s (locked x) (batches x)) None, OExec)
        | Some cs =>
            if negb with_mutex && locked x then (mkS (mkState s true (batches x)) (Some cs), OStuck)
            else match adm_write cs [] s with
                 | (Some sel, s') => (mkS (mkState s' false (batches x ++ [sel])) None, ODeliver (Some sel))
                 | (None, s') => (mkS (mkState s' false (batches x)) None, ODeliver None)
                 end
        end
    end.

  Fixpoint srun (ops : list sop) (z : sstate) : list obs :=
    match ops with
    | [] => []
    | o :: r => let (z', ou) := sstep o z in (ou, s_failed (st (s_x z')), s_kv (st (s_x z'))) :: srun r z'
    end.

  Fixpoint sfinal (ops : list sop) (z : sstate) : sstate :=
    match ops with
    | [] => z
    | o :: r => sfinal r (fst (sstep o z))
    end.
End Split.

(* no admission in progress, or: the mutex is held for it and none of its candidates is recorded
   executed *)
Definition adm_inv (z : sstate) : Prop :=
  match s_adm z with
  | None => True
  | Some cs => locked (s_x z) = true /\ forall k, In k cs -> is_exec (get (s_kv (st (s_x z))) k) = false
  end.

Definition sinit (m : kv) : sstate := mkS (init_state m []) None.

(* ---- the message channel -----------------------------------------------------------------------
   A retry handler hands the re-emitted batches to the relayer's message channel with a plain
   (blocking) send; the channel is unbuffered in the relayer (capacity [cap] here) and its one reader is
   busy routing most of the time.  The scheduler decides when the sender gets to its send and when the
   reader comes to its receive: [SenderStep] = the sender tries to hand over its next batch (directly
   to a reader that waits in its receive, else into a free slot, else it stays parked at the send -
   [blocking = false] is a send that gives up instead: select/default, a timeout that passed, "channel
   full"), [ReaderStep] = the reader comes (back) to its receive: it takes the oldest queued batch, or
   waits. *)
Inductive cev := SenderStep | ReaderStep.

Record chan_st := mkChan {
  c_pending : list (list deposit);   (* batches the handler still has to send *)
  c_queue : list (list deposit);     (* in the channel's buffer *)
  c_got : list (list deposit);       (* received by the reader *)
  c_waiting : bool                   (* the reader sits in its receive *)
}.

Definition chan_init (bs : list (list deposit)) : chan_st := mkChan bs [] [] false.

Definition chan_step (blocking : bool) (cap : nat) (z : chan_st) (e : cev) : chan_st :=
  match e with
  | SenderStep =>
      match c_pending z with
      | [] => z
      | b :: p =>
          if c_waiting z then mkChan p (c_queue z) (c_got z ++ [b]) false
          else if Nat.ltb (length (c_queue z)) cap then mkChan p (c_queue z ++ [b]) (c_got z) false
          else if blocking then z
          else mkChan p (c_queue z) (c_got z) false
      end
  | ReaderStep =>
      match c_queue z with
      | b :: q => mkChan (c_pending z) q (c_got z ++ [b]) false
      | [] => mkChan (c_pending z) [] (c_got z) true
      end
  end.

Definition chan_run (blocking : bool) (cap : nat) (sched : list cev) (z : chan_st) : chan_st :=
  fold_left (chan_step blocking cap) sched z.

(* everything the reader has, will find in the buffer, or will still be offered - in sending order *)
Definition chan_all (z : chan_st) : list (list deposit) := c_got z ++ c_queue z ++ c_pending z.

(* the reader of the "late" cases: it comes to its receive only after the sender got to its send, once
   per batch *)
Fixpoint late_sched (n : nat) : list cev :=
  match n with
  | O => []
  | S n' => SenderStep :: ReaderStep :: SenderStep :: late_sched n'
  end.

(* ---- redelivery on ONE long-lived executor --------------------------------------------------------
   "A deposit stuck as pending is released for re-execution ... a failure while executing never leaves
   the executor unable to process later deliveries": a delivery that finds a proposal recorded neither
   executed nor pending (missing, or failed - e.g. released by a retry) must take it on for execution,
   whatever happened on this executor object before, unless an execution of that very proposal is still
   in progress on it (then leaving it to that execution is a legitimate choice; the code as it stands
   takes it on all the same).
   The judge follows, from what the implementation was SEEN to select, which deliveries' executions are
   in progress: the execution of a delivery made through the bookkeeping hook ([Deliver] with
   [live = false]) is in progress until an [ExecOk i] / [ExecFail i] for it arrives; a delivery that was a
   whole Executor.Execute call which has RETURNED ([live = true]: it failed before the broadcast - fee or
   UTXO lookup, unknown resource, bad recipient, metadata upload, key share, signing error or timeout)
   has nothing in progress any more. *)
Definition jbatch := (list key * bool)%type.   (* what a delivery selected; its execution is in progress *)

Definition in_progress (bs : list jbatch) (k : key) : bool :=
  existsb (fun b : jbatch => snd b && memk k (fst b)) bs.

Fixpoint close_batch (i : nat) (bs : list jbatch) : list jbatch :=
  match bs, i with
  | [], _ => []
  | b :: r, O => (fst b, false) :: r
  | b :: r, S i' => b :: close_batch i' r
  end.

(* what the judge knows about the executor: the deliveries that selected something, and the proposals
   of deliveries made through the bookkeeping hook that ended with a store error (the real Execute
   returns at once then and nothing is in progress; the hook is not Execute, so the judge does not
   claim to know: it never demands anything for them again) *)
Definition jstate := (list jbatch * list key)%type.

Definition busy (j : jstate) (k : key) : bool := in_progress (fst j) k || memk k (snd j).

(* every delivered proposal that is startable and has no execution in progress is selected *)
Definition deliver_ok (pre : kv) (j : jstate) (ks sel : list key) : bool :=
  forallb (fun k => implb (startable (get pre k) && negb (busy j k)) (memk k sel)) ks.

Definition redeliver_step (pre : kv) (j : jstate) (o : op) (live : bool) (ob : obs) : bool * jstate :=
  match o, ob with
  | Deliver ks, (ODeliver (Some sel), failed, _) =>
      (match failed with [] => deliver_ok pre j ks sel | _ => true end, (fst j ++ [(sel, negb live)], snd j))
  | Deliver ks, (ODeliver None, _, _) => (true, (fst j, if live then snd j else ks ++ snd j))
  | ExecOk i, (OExec, _, _) => (true, (close_batch i (fst j), snd j))
  | ExecFail i, (OExec, _, _) => (true, (close_batch i (fst j), snd j))
  | _, _ => (true, j)
  end.

(* [lives]: per operation, whether it was a whole Execute call that has returned (missing entries: no) *)
Fixpoint redeliver_ok (pre : kv) (j : jstate) (ops : list op) (lives : list bool) (obs_ : list obs) : bool :=
  match ops, obs_ with
  | o :: r, ob :: obs' =>
      fst (redeliver_step pre j o (hd false lives) ob)
      && redeliver_ok (snd ob) (snd (redeliver_step pre j o (hd false lives) ob)) r (tl lives) obs'
  | _, _ => true
  end.

Definition jinit : jstate := ([], []).

(* NOT the code - an executor that remembers in memory which proposals it marked pending ("being
   signed"), skips those in later deliveries, and forgets them only where an execution reports its
   broadcast (ExecOk / ExecFail): an execution that fails EARLIER leaves the mark for ever.  Kept to
   state what goes wrong with it ([marker_run] : the history such an executor produces). *)
Definition marker_step (o : op) (z : state * list key) : (state * list key) * out :=
  let (x, fl) := z in
  match o with
  | Deliver ks =>
      let (x', ou) := step (Deliver (filter (fun k => negb (memk k fl)) ks)) x in
      ((x', match ou with ODeliver (Some sel) => sel ++ fl | _ => fl end), ou)
  | ExecOk i | ExecFail i =>
      let (x', ou) := step o x in
      ((x', filter (fun k => negb (memk k (nth i (batches x) []))) fl), ou)
  | _ => let (x', ou) := step o x in ((x', fl), ou)
  end.

Fixpoint marker_run (ops : list op) (z : state * list key) : list obs :=
  match ops with
  | [] => []
  | o :: r => let (z', ou) := marker_step o z in
              (ou, s_failed (st (fst z')), s_kv (st (fst z'))) :: marker_run r z'
  end.

(* ---- the EVM / Substrate executors: no status store, "executed" is what the destination says --------
   One whole Executor.Execute call: per delivered proposal the destination's executed-status lookup (an
   error of it ends the call), the proposals not reported executed are handed to ProposalsHash and to a
   signing session.  [xfail] = where the call of the correspondence run is made to fail (always before
   anything is broadcast). *)
Inductive xkind := Xevm | Xsub.
Inductive xfail := XQuery (i : nat) | XHash | XKeyshare | XSign.

(* the proposals handed to ProposalsHash *)
Definition xexec (executed ks : list key) (f : xfail) : list key :=
  match f with
  | XQuery i => if Nat.ltb i (length ks) then [] else filter (fun k => negb (memk k executed)) ks
  | _ => filter (fun k => negb (memk k executed)) ks
  end.

Definition xlookup_failed (ks : list key) (f : xfail) : bool :=
  match f with XQuery i => Nat.ltb i (length ks) | _ => false end.

(* the specification of one delivery, whatever happened on the executor before: unless a status lookup
   of this very call failed, the call returns and every delivered proposal the destination does not
   report executed was taken on *)
Definition xdeliver_ok (executed ks : list key) (f : xfail) (hung : bool) (hashed : list key) : bool :=
  negb hung &&
  (xlookup_failed ks f || forallb (fun k => implb (negb (memk k executed)) (memk k hashed)) ks).

Record xstep := mkXStep { x_keys : list key; x_fail : xfail; x_hung : bool; x_hashed : list key }.
