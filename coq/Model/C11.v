(* C11 - signing failures are classified and retried without the culprits; key generation and
   resharing are never retried.
   Executable model; definitions only (proofs: Proofs/C11.v).

   Source anchors (Go):
     err / kinds        Go error values as trees: a node is one error value, its children are what
                        errors.As descends into (Unwrap() error / Unwrap() []error): errors.Join values
                        built by the sourcegraph/conc pools (KOther with children), *tss.Error (Unwrap = cause),
                        fmt.Errorf("%w").  *CoordinatorError, *comm.CommunicationError, *SubsetError have no Unwrap.
     classify           tss/coordinator.go handleError after the repair (branch fix-C11): errors.As in the order
                        *CoordinatorError, *comm.CommunicationError, *tss.Error, *SubsetError, else return err
     old_classify       the same function before the repair: a type switch on the OUTERMOST value
     pool_join          sourcegraph/conc v0.3.0 ErrorPool.addErr on Go >= 1.20: errs = errors.Join(errs, err)
     exclude            tss/ecdsa/common/utils.go ExcludePeers
     after_failure      tss/coordinator.go Execute (Retryable()) + handleError + retry
     timing / *_timeout tss/coordinator.go: which of the two configured durations bounds which wait -
                        start: waitForStart(.., coordinator, c.CoordinatorTimeout); handleError's SubsetError
                        branch: waitForStart(.., "", c.TssTimeout); watchExecution: ticker c.TssTimeout
     timed_wait         waitForStart + handleError's watchExecution with arrival times: the ticker of
                        waitForStart (reset by every accepted initiate message) and the watcher's ticker
     session            one whole Execute call as driven by the runner (first attempt, injected failure of the
                        first Run, bully outcome, second attempt via C07's initiate / wait_step2)
     all_peers / o_starts  initiate(): the initiate and the start message go to c.host.Peerstore().Peers() - every
                        known peer, whoever answered ready - and the results of these Broadcasts are ignored
                        (`_ =`): an unreachable peer (culprit or not) never stops an attempt
     silent_wait        Execute's first attempt on a relayer that is not the coordinator: waitForStart(coordinator,
                        CoordinatorTimeout) next to watchExecution(coordinator) with its TssTimeout ticker, fed
                        messages with arrival times; only initiate messages of the coordinator re-arm the ticker
     duo_*              two relayers of one session over one network: the coordinator's start message is what the
                        other relayer's first attempt receives                                              *)
From Coq Require Import List ZArith NArith Bool.
Import ListNotations.
From SygmaV Require Import Model.C07.

Inductive kind :=
| KCoord (p : peer)                                   (* *tss.CoordinatorError{Peer: p} *)
| KComm (p : peer)                                    (* *comm.CommunicationError{Peer: p} *)
| KTss (culprits : list peer) (decodable : bool)      (* *tss.Error; decodable = every culprit id parses as a peer id *)
| KSubset                                             (* *tss.SubsetError *)
| KOther.                                             (* anything else: timeouts, fail-message error, errors.Join wrappers *)

Inductive err := Node (k : kind) (children : list err).

Inductive action :=
| RetryExcluding (ps : list peer)
| WaitForStart
| GiveUp                    (* return the error itself *)
| GiveUpDecode.             (* return the culprit-decoding error *)

Definition action_of_kind (k : kind) : action :=
  match k with
  | KCoord p => RetryExcluding [p]
  | KComm _ => RetryExcluding []
  | KTss cs ok => if ok then RetryExcluding cs else GiveUpDecode
  | KSubset => WaitForStart
  | KOther => GiveUp
  end.

Definition recognised (k : kind) : bool := match k with KOther => false | _ => true end.

(* errors.As(err, &target): depth-first, pre-order, children left to right *)
Fixpoint find_first {A : Type} (f : kind -> option A) (e : err) : option A :=
  match e with
  | Node k cs =>
      match f k with
      | Some a => Some a
      | None =>
          (fix go (l : list err) : option A :=
             match l with
             | [] => None
             | c :: r => match find_first f c with Some a => Some a | None => go r end
             end) cs
      end
  end.

(* all error values of the tree in the order errors.As visits them *)
Fixpoint kinds (e : err) : list kind :=
  match e with
  | Node k cs => k :: (fix go (l : list err) : list kind :=
                         match l with [] => [] | c :: r => kinds c ++ go r end) cs
  end.

Definition as_coord (k : kind) : option peer := match k with KCoord p => Some p | _ => None end.
Definition as_comm (k : kind) : option peer := match k with KComm p => Some p | _ => None end.
Definition as_tss (k : kind) : option (list peer * bool) := match k with KTss cs ok => Some (cs, ok) | _ => None end.
Definition as_subset (k : kind) : option unit := match k with KSubset => Some tt | _ => None end.

Definition classify (e : err) : action :=
  match find_first as_coord e with
  | Some p => RetryExcluding [p]
  | None =>
  match find_first as_comm e with
  | Some _ => RetryExcluding []
  | None =>
  match find_first as_tss e with
  | Some (cs, ok) => if ok then RetryExcluding cs else GiveUpDecode
  | None =>
  match find_first as_subset e with
  | Some _ => WaitForStart
  | None => GiveUp
  end end end end.

(* before the repair: switch err := err.(type) *)
Definition old_classify (e : err) : action := match e with Node k _ => action_of_kind k end.

Definition pool_join (errs : list err) : err := Node KOther errs.

Definition exclude (peers excluded : list peer) : list peer :=
  filter (fun p => negb (memb p excluded)) peers.

Inductive outcome :=
| Returned                                   (* Execute returns the error; nothing else happens *)
| ReturnedDecodeErr
| Retried (candidates excluded : list peer)  (* bully election over candidates, then start(.., excluded) *)
| Waited.                                    (* waitForStart with the empty coordinator id *)

Definition after_failure_with (cl : err -> action) (retryable : bool) (holders : list peer) (e : err) : outcome :=
  if negb retryable then Returned else
  match cl e with
  | RetryExcluding ps => Retried (exclude holders ps) ps
  | WaitForStart => Waited
  | GiveUp => Returned
  | GiveUpDecode => ReturnedDecodeErr
  end.

Definition after_failure := after_failure_with classify.
Definition old_after_failure := after_failure_with old_classify.

(* ---------------------------------------------------------------------------------------------- *)
(* One whole session as the runner drives it. *)

Definition FNil : N := 0.        (* Execute returned nil *)
Definition FOriginal : N := 1.   (* Execute returned an error that contains the failure of the first attempt *)
Definition FOther : N := 2.      (* Execute returned some other error *)
Definition FPanic : N := 3.      (* Execute panicked *)

Record obs := mkObs {
  o_runs : list (bool * list peer);          (* every TssProcess.Run call: coordinator flag, params *)
  o_elected : option (list peer);            (* addressees of the bully Select broadcast = election candidates *)
  o_calls2 : list (list peer * list peer);   (* Ready(readyPeers, excludedPeers) calls of the second attempt *)
  o_ready2 : list peer;                      (* ready messages sent after the failure *)
  o_final : N;
  o_inits2 : list (list peer);               (* addressees of every initiate broadcast after the failure *)
  o_starts : list (list peer * list peer)    (* every start broadcast of the session: announced params, addressees *)
}.

(* c.host.Peerstore().Peers(): the whole peer table ([m] entries, this relayer included) *)
Definition all_peers (m : nat) : list peer := map N.of_nat (seq 0 m).

(* the start broadcasts that belong to coordinator runs *)
Definition starts_of (m : nat) (runs : list (bool * list peer)) : list (list peer * list peer) :=
  flat_map (fun r : bool * list peer => if fst r then [(snd r, all_peers m)] else []) runs.

(* ---------------------------------------------------------------------------------------------- *)
(* The bully election of one relayer (comm/elector/bully.go) as far as its outcome goes.  The relayer
   starts with itself as coordinator, announces itself after ElectionWaitTime and then processes, one at
   a time, what arrives until BullyWaitTime is over ([bmsg]s in arrival order; each is from ANY peer - a
   candidate, an excluded culprit that still runs its own election for the session, a peer that holds no
   key):
     BSelect p    setCoordinator(p): accepted iff isPeerIDHigher(p, current) || p == self
     BElection p  !isPeerIDHigher(p, self): answered with Alive and a new elect(), after which the relayer
                  has announced itself again (current = self); otherwise ignored
     BAlive p     accepted only from peers that rank BELOW this relayer (isPeerIDHigher(self, p)); the
                  scripted ones never do (non-candidates and earlier candidates): ignored
   isPeerIDHigher(p, q) compares the positions in the sorted candidate list.
     [rank_coded]   as coded: a peer that is NOT in the list keeps the initial index 0, i.e. it ranks
                    level with the first candidate - its Select message is accepted by every relayer whose
                    current coordinator is not the first candidate
     [bully_strict] the repaired rule: messages of peers that are not candidates are dropped *)

Inductive bmsg := BSelect (from : peer) | BElection (from : peer) | BAlive (from : peer).

Definition bmsg_from (b : bmsg) : peer := match b with BSelect f | BElection f | BAlive f => f end.

Fixpoint index_of (p : peer) (l : list peer) (i : nat) : option nat :=
  match l with
  | [] => None
  | x :: r => if N.eqb x p then Some i else index_of p r (S i)
  end.

Definition rank_coded (s : list peer) (p : peer) : nat :=
  match index_of p s 0 with Some i => i | None => 0%nat end.

Definition higher_coded (s : list peer) (p q : peer) : bool := (rank_coded s p <? rank_coded s q)%nat.

Definition bully_step (s : list peer) (self cur : peer) (b : bmsg) : peer :=
  match b with
  | BSelect p => if higher_coded s p cur || N.eqb p self then p else cur
  | BElection p => if higher_coded s p self then cur else self
  | BAlive _ => cur
  end.

Definition from_candidate (cands : list peer) (b : bmsg) : bool := memb (bmsg_from b) cands.

Section Bully.
  Variable key : peer -> N.

  Definition bully_coded (self : peer) (bs : list bmsg) (cands : list peer) : peer :=
    fold_left (bully_step (sort_peers key cands) self) bs self.

  Definition bully_strict (self : peer) (bs : list bmsg) (cands : list peer) : peer :=
    bully_coded self (filter (from_candidate cands) bs) cands.
End Bully.

(* the election ended with this relayer or with one of the candidates *)
Definition bully_guarded (c2 self : peer) (cands : list peer) : bool := memb c2 (self :: cands).

Definition opt_peer_eqb (a : option peer) (b : peer) : bool :=
  match a with Some x => N.eqb x b | None => false end.

Definition runs_of (outs : list wout) : list (bool * list peer) :=
  flat_map (fun o => match o with ORun l => [(false, l)] | _ => [] end) outs.
Definition readies_of (outs : list wout) : list peer :=
  flat_map (fun o => match o with OReady p => [p] | _ => [] end) outs.
Definition has_bad (outs : list wout) : bool :=
  existsb (fun o => match o with OBadStart | OAbort => true | _ => false end) outs.

(* ---------------------------------------------------------------------------------------------- *)
(* The two configured durations and which wait each of them bounds (as coded).  Times are in the
   runner's unit (milliseconds); an arrival time is measured from the start of the wait. *)

Record timing := mkTiming {
  coord_to : N;    (* Coordinator.CoordinatorTimeout *)
  tss_to : N       (* Coordinator.TssTimeout *)
}.

(* start(): a relayer that knows the attempt's coordinator waits for its initiate / start message *)
Definition start_wait_timeout (tm : timing) : N := coord_to tm.
(* handleError, SubsetError: the left-out relayer waits for the replacement attempt's start *)
Definition left_out_wait_timeout (tm : timing) : N := tss_to tm.
(* watchExecution: the overall bound of a session phase *)
Definition watch_timeout (tm : timing) : N := tss_to tm.

Definition is_waiting (st : wstate) : bool := match st with Waiting => true | _ => false end.

(* waitForStart(c, timeout) next to a watchExecution that was told [wc] (handleError's watcher: the
   empty id; Execute's: the attempt's coordinator) with bound [watch], fed messages with arrival times.
   [deadline] = when waitForStart's ticker fires next; ONLY an accepted initiate message - one whose
   sender passes the coordinator check - re-arms it.  Result: what the relayer did, whether a message
   found the session ended by a ticker (CoordinatorError of waitForStart / "tss process timed out" of
   the watcher), the state and the ticker's deadline after the last message. *)
Record trun := mkTrun { tr_outs : list wout; tr_late : bool; tr_state : wstate; tr_deadline : N }.

Fixpoint timed_run (wc c : option peer) (timeout watch deadline : N) (st : wstate) (msgs : list (N * wmsg)) : trun :=
  match msgs with
  | [] => mkTrun [] false st deadline
  | (at_, m) :: r =>
      match st with
      | Finished => mkTrun [] false st deadline
      | _ =>
          if (watch <=? at_)%N then mkTrun [] true st deadline
          else if is_waiting st && (deadline <=? at_)%N then mkTrun [] true st deadline
          else
            let (st', o) := wait_step2 wc c st m in
            let deadline' :=
              match st, m with
              | Waiting, MInitiate f => if from_ok c f then (at_ + timeout)%N else deadline
              | _, _ => deadline
              end in
            let r' := timed_run wc c timeout watch deadline' st' r in
            mkTrun (o ++ tr_outs r') (tr_late r') (tr_state r') (tr_deadline r')
      end
  end.

Definition timed_wait (c : option peer) (timeout watch deadline : N) (st : wstate) (msgs : list (N * wmsg))
  : list wout * bool :=
  let r := timed_run None c timeout watch deadline st msgs in (tr_outs r, tr_late r).

(* Execute's first attempt on a relayer whose coordinator is [c] *)
Definition silent_wait (tm : timing) (c : peer) (msgs : list (N * wmsg)) : trun :=
  timed_run (Some c) (Some c) (start_wait_timeout tm) (watch_timeout tm) (start_wait_timeout tm) Waiting msgs.

(* the left-out relayer *)
Definition left_out_wait (tm : timing) (msgs : list (N * wmsg)) : list wout * bool :=
  timed_wait None (left_out_wait_timeout tm) (watch_timeout tm) (left_out_wait_timeout tm) Waiting msgs.

(* a relayer that lost the bully election to [c2] *)
Definition retry_start_wait (tm : timing) (c2 : peer) (msgs : list (N * wmsg)) : list wout * bool :=
  timed_wait (Some c2) (start_wait_timeout tm) (watch_timeout tm) (start_wait_timeout tm) Waiting msgs.

Section Session.
  Variable key : peer -> N.
  Variable tm : timing.
  Variable m : nat.                (* size of the peer table *)

  (* [br] = the election's outcome rule: bully_coded key / bully_strict key *)
  Variable br : peer -> list bmsg -> list peer -> peer.

  (* what happens after the first attempt (whose Run calls were [runs1]) failed with [e].  Nothing here
     depends on which peers can be reached: the results of the coordinator's broadcasts are ignored. *)
  Definition continue (cl : err -> action) (holders : list peer) (t : Z) (self : peer) (retryable : bool)
             (runs1 : list (bool * list peer)) (e : err)
             (bs : list bmsg) (ready2 : list peer) (msgs2 : list (N * wmsg)) : obs :=
    let starts1 := starts_of m runs1 in
    match after_failure_with cl retryable holders e with
    | Returned => mkObs runs1 None [] [] FOriginal [] starts1
    | ReturnedDecodeErr => mkObs runs1 None [] [] FOther [] starts1
    | Waited =>
        let w := left_out_wait tm msgs2 in
        mkObs (runs1 ++ runs_of (fst w)) None [] (readies_of (fst w)) (if has_bad (fst w) || snd w then FOther else FNil)
              [] starts1
    | Retried cands ex =>
        let c2 := br self bs cands in
        if N.eqb c2 self then
          let (calls, ann) := initiate key holders t ex [self] ready2 in
          let runs2 := match ann with Some sub => [(true, sub)] | None => [] end in
          mkObs (runs1 ++ runs2)
                (Some (sort_peers key cands)) (map (fun r => (r, ex)) calls) [] FNil
                [all_peers m] (starts1 ++ starts_of m runs2)
        else
          let w := retry_start_wait tm c2 msgs2 in
          mkObs (runs1 ++ runs_of (fst w)) (Some (sort_peers key cands)) [] (readies_of (fst w))
                (if has_bad (fst w) || snd w then FOther else FNil) [] starts1
    end.

  Definition empty_obs : obs := mkObs [] None [] [] FNil [] [].

  (* the first Run of the first attempt returns the error [e] (as seen by handleError) *)
  Definition session (cl : err -> action) (holders : list peer) (t : Z) (self : peer) (retryable : bool)
             (ready1 start1 : list peer) (e : err)
             (bs : list bmsg) (ready2 : list peer) (msgs2 : list (N * wmsg)) : obs :=
    let first :=
      if opt_peer_eqb (coordinator key holders) self then
        match snd (initiate key holders t [] [self] ready1) with
        | Some sub => Some (true, sub)
        | None => None
        end
      else Some (false, start1) in
    match first with
    | None => empty_obs
    | Some r1 => continue cl holders t self retryable [r1] e bs ready2 msgs2
    end.

  (* the coordinator of the first attempt sends no start message: waitForStart gives up with
     CoordinatorError{coordinator}, which the outer pool wraps *)
  Definition silent_error (holders : list peer) : option err :=
    match coordinator key holders with
    | Some c => Some (pool_join [Node (KCoord c) []])
    | None => None
    end.

  (* [msgs1]: what arrives during the first attempt (forged traffic of other peers, initiate messages
     of the coordinator), with arrival times; afterwards the runner waits for whichever ticker fires.
     The ready messages of the first attempt (answers to the coordinator's own initiate messages) are
     listed apart from those sent after the failure ([o_ready2]). *)
  Definition silent_readies (holders : list peer) (msgs1 : list (N * wmsg)) : list peer :=
    match coordinator key holders with
    | Some c => readies_of (tr_outs (silent_wait tm c msgs1))
    | None => []
    end.

  Definition session_silent (cl : err -> action) (holders : list peer) (t : Z) (self : peer) (retryable : bool)
             (msgs1 : list (N * wmsg))
             (bs : list bmsg) (ready2 : list peer) (msgs2 : list (N * wmsg)) : obs :=
    match coordinator key holders with
    | Some c =>
        let w := silent_wait tm c msgs1 in
        match tr_state w with
        | Waiting =>
            if (tr_deadline w <? watch_timeout tm)%N then
              (* waitForStart's ticker: CoordinatorError{c} *)
              continue cl holders t self retryable [] (pool_join [Node (KCoord c) []]) bs ready2 msgs2
            else
              (* the watchdog's ticker comes first: "tss process timed out", an unrecognised failure *)
              mkObs [] None [] [] FOther [] []
        | _ =>
            (* the coordinator was not silent: its start message was accepted (the process runs until the
               runner ends the session) or the session ended with a decoding error / its fail message *)
            mkObs (runs_of (tr_outs w)) None [] [] (if has_bad (tr_outs w) then FOther else FNil) [] []
        end
    | None => empty_obs
    end.

  (* Two relayers of one session.  [a] coordinates: its ready loop sees [ready1] (the genuine ready
     answer of [c] among them or not) and announces a subset; its start message is what [c]'s first
     attempt receives.  [c]'s process fails with SubsetError when the subset leaves it out. *)
  Definition duo_subset (holders : list peer) (t : Z) (a : peer) (ready1 : list peer) : option (list peer) :=
    snd (initiate key holders t [] [a] ready1).

  Definition duo_a (holders : list peer) (t : Z) (a : peer) (ready1 : list peer) : obs :=
    match duo_subset holders t a ready1 with
    | Some sub => mkObs [(true, sub)] None [] [] FNil [] (starts_of m [(true, sub)])
    | None => empty_obs
    end.

  (* the value [c]'s handleError sees: SubsetError joined by waitForStart's and by Execute's pool *)
  Definition left_out_error : err := pool_join [pool_join [Node KSubset []]].

  Definition duo_c (cl : err -> action) (holders : list peer) (t : Z) (a c : peer) (ready1 : list peer)
             (msgs2 : list (N * wmsg)) : obs :=
    match duo_subset holders t a ready1 with
    | Some sub =>
        if memb c sub then mkObs [(false, sub)] None [] [] FNil [] []
        else continue cl holders t c true [(false, sub)] left_out_error [] [] msgs2
    | None => empty_obs
    end.
End Session.

(* ---------------------------------------------------------------------------------------------- *)
(* The specification as a judge of an observation. *)

Definition recognised_kinds (e : err) : list kind := filter recognised (kinds e).

Definition same_set (a b : list peer) : bool :=
  forallb (fun p => memb p b) a && forallb (fun p => memb p a) b.


(* "waits for the replacement attempt's start": a well-formed start message that arrives before the
   session's overall (TSS) timeout [watch] must be honoured - the process is run with its params.
   Nothing is demanded once a message arrived at or after [watch], after a fail message (whether the
   unknown coordinator's fail message may end the wait is not this property's subject) or after an
   undecodable start message (the session ends with the decoding error). *)
Fixpoint honoured (watch : N) (msgs : list (N * wmsg)) (runs : list (bool * list peer)) : bool :=
  match msgs with
  | [] => true
  | (at_, m) :: r =>
      if (watch <=? at_)%N then true else
      match m with
      | MInitiate _ => honoured watch r runs
      | MFail _ => true
      | MStart _ None => true
      | MStart _ (Some l) => existsb (fun x : bool * list peer => list_peer_eqb (snd x) l) runs
      end
  end.

(* "Who is told": every attempt this relayer ran as coordinator was announced by a start message that
   went to every key holder other than itself and the excluded culprits - in particular to the holders
   the subset leaves out, who otherwise cannot know that they have to wait for a replacement attempt. *)
Definition told (holders : list peer) (self : peer) (ex : list peer)
           (runs : list (bool * list peer)) (starts : list (list peer * list peer)) : bool :=
  forallb (fun r : bool * list peer =>
             if fst r then
               existsb (fun s : list peer * list peer =>
                          list_peer_eqb (fst s) (snd r)
                          && forallb (fun p => memb p (snd s)) (exclude holders (self :: ex))) starts
             else true) runs.

(* The replacement attempt does not depend on the culprits: the key holders other than this relayer
   that are not culprits, can be reached ([unreach]: peers to which every send fails) and answer ready *)
Definition reachable_ready (holders : list peer) (ps unreach : list peer) (self : peer) (ready2 : list peer) : list peer :=
  filter (fun h => negb (N.eqb h self) && negb (memb h ps) && negb (memb h unreach) && memb h ready2) holders.

(* ... are enough for a subset of t+1 together with this relayer *)
Definition enough (holders : list peer) (t : Z) (ps unreach : list peer) (self : peer) (ready2 : list peer) : bool :=
  nodupb holders && (1 <=? t)%Z
  && (t <=? Z.of_nat (length (reachable_ready holders ps unreach self ready2)))%Z.

(* a start message with these params was offered by one of [cands] *)
Definition started_by (cands : list peer) (msgs : list (N * wmsg)) (l : list peer) : bool :=
  existsb (fun x : N * wmsg =>
             match snd x with
             | MStart f (Some l') => memb f cands && list_peer_eqb l l'
             | _ => false
             end) msgs.

(* what the judge knows about the relayer and its surroundings *)
Record env := mkEnv {
  e_tm : timing;
  e_holders : list peer;
  e_t : Z;
  e_self : peer;
  e_unreach : list peer;             (* every Broadcast that addresses one of them returns a CommunicationError *)
  e_ready2 : list peer;              (* senders of the ready messages offered to a replacement attempt's coordinator *)
  e_msgs2 : list (N * wmsg)          (* messages offered to a waiting relayer after the failure *)
}.

(* the observation is what [a] demands *)
Definition obs_allows (ev : env) (nfirst : nat) (o : obs) (a : action) : bool :=
  let holders := e_holders ev in
  let second_runs := skipn nfirst (o_runs o) in
  match a with
  | RetryExcluding ps =>
      if memb (e_self ev) ps then
        (* the failure names this relayer itself: all that is demanded is that it is not turned into
           success - a replacement attempt begins or the session ends with an error *)
        match o_elected o with Some _ => true | None => negb (N.eqb (o_final o) FNil) end
      else
      match o_elected o with
      | None => false
      | Some cs =>
          same_set cs (exclude holders ps)
          (* whoever this relayer treats as the coordinator of the replacement attempt - it answers its
             initiate messages, it runs the process on its start message - is an election candidate: a key
             holder that is not a culprit, whoever else announced itself meanwhile *)
          && forallb (fun p => memb p (exclude holders ps)) (o_ready2 o)
          && forallb (fun r : bool * list peer =>
                        if fst r then true else started_by (exclude holders ps) (e_msgs2 ev) (snd r)) second_runs
          && forallb (fun r : bool * list peer =>
                        if fst r then forallb (fun p => negb (memb p ps)) (snd r) else true) second_runs
          && forallb (fun c : list peer * list peer => same_set (snd c) ps) (o_calls2 o)
          (* it coordinates the replacement attempt (it broadcast an initiate message) and enough
             reachable non-culprits are ready: the attempt runs, whether or not the culprits can be reached *)
          && (match o_inits2 o with
              | [] => true
              | _ :: _ =>
                  if enough holders (e_t ev) ps (e_unreach ev) (e_self ev) (e_ready2 ev)
                  then existsb (fun r : bool * list peer => fst r) second_runs else true
              end)
          && told holders (e_self ev) ps second_runs (o_starts o)
      end
  | WaitForStart =>
      match o_elected o with
      | None => negb (N.eqb (o_final o) FOriginal) && honoured (tss_to (e_tm ev)) (e_msgs2 ev) second_runs
      | Some _ => false
      end
  | GiveUpDecode =>
      match o_elected o, second_runs with None, [] => negb (N.eqb (o_final o) FNil) | _, _ => false end
  | GiveUp =>
      match o_elected o, second_runs with None, [] => N.eqb (o_final o) FOriginal | _, _ => false end
  end.

(* [nfirst] = number of Run calls of the first attempt (1, or 0 when the coordinator was silent) *)
Definition spec_ok (ev : env) (retryable : bool) (e : err) (nfirst : nat) (o : obs) : bool :=
  negb (N.eqb (o_final o) FPanic)       (* whatever the failure value: the relayer does not crash *)
  && told (e_holders ev) (e_self ev) [] (firstn nfirst (o_runs o)) (o_starts o)
  && (if negb retryable then obs_allows ev nfirst o GiveUp
      else match recognised_kinds e with
           | [] => obs_allows ev nfirst o GiveUp
           | ks => existsb (fun k => obs_allows ev nfirst o (action_of_kind k)) ks
           end).

(* "The coordinator was unresponsive": it sent no start (and no fail) message, and after each of its
   initiate messages - and from the beginning - a whole coordinator timeout passes before the session's
   TSS timeout.  Messages of other peers do not count, however many and however often. *)
Definition coordinator_unresponsive (tm : timing) (c : peer) (msgs1 : list (N * wmsg)) : bool :=
  (coord_to tm <? tss_to tm)%N
  && forallb (fun x : N * wmsg =>
                match snd x with
                | MInitiate f => negb (N.eqb f c) || (fst x + coord_to tm <? tss_to tm)%N
                | MStart f _ => negb (N.eqb f c)
                | MFail f => negb (N.eqb f c)
                end) msgs1.

(* the judge of a silent-coordinator session *)
Definition silent_ok (ev : env) (retryable : bool) (c : peer) (msgs1 : list (N * wmsg)) (o : obs) : bool :=
  if coordinator_unresponsive (e_tm ev) c msgs1
  then spec_ok ev retryable (pool_join [Node (KCoord c) []]) 0 o
  else true.

(* the judge of two relayers: [oa] the coordinator's observation, [oc] the other relayer's.  The
   coordinator tells everybody; a key holder that the announced subset leaves out has been told (its
   first attempt ran with that subset), does not blame anybody and waits for the replacement's start. *)
Definition duo_ok (ev : env) (a : peer) (oa oc : obs) : bool :=
  told (e_holders ev) a [] (o_runs oa) (o_starts oa)
  && match o_runs oa with
     | (true, sub) :: _ =>
         if memb (e_self ev) sub then true
         else match o_runs oc with
              | (false, sub') :: _ => list_peer_eqb sub sub' && spec_ok ev true left_out_error 1 oc
              | _ => false
              end
     | _ => true
     end.

Inductive proc_kind := PSigning | PKeygen | PResharing.
Definition retryable_of (k : proc_kind) : bool := match k with PSigning => true | _ => false end.

(* ---------------------------------------------------------------------------------------------- *)
(* REAL signing processes (tss/ecdsa/signing, tss/frost/signing on the fixture key shares) behind the
   Coordinator, over an in-memory network: the first attempt fails through the real code (a Broadcast of
   a round message returns the transport's CommunicationError, a member of the subset is dead, the real
   party blames a culprit, the real process returns SubsetError) and the SAME process object serves the
   replacement attempt.  The relayer is judged as in every other case ([spec_ok], with the cause the
   network injected), and in addition:
     - every subset it announces as coordinator of the replacement attempt is a signing subset: t+1
       distinct key holders, itself among them, nobody excluded, everybody else having answered ready
       ([subset_ok] of C07: "a new attempt in which the culprits are removed from ... the signing subset");
     - if it coordinates the replacement attempt and enough key holders that are alive, reachable and not
       excluded answered ready, the attempt is a working attempt: it completes with a valid signature
       ([sig]: 0 = the runner did not wait for it, 1 = completed / signature verifies, 2 = it did not).
   That an attempt of live members over a valid subset completes is the correctness of tss-lib / FROST,
   which is trusted, not modelled: the model's session is accepted for the outcome [SigValid]. *)

Definition SigNotAwaited : N := 0.
Definition SigValid : N := 1.
Definition SigMissing : N := 2.

Definition subsets_valid (ev : env) (ps : list peer) (runs : list (bool * list peer)) : bool :=
  forallb (fun r : bool * list peer =>
             if fst r then subset_ok (e_holders ev) (e_t ev) ps (e_self ev) (e_ready2 ev) (snd r) else true) runs.

(* [live]: the key holders that are alive (real relayers of the scenario) *)
Definition real_allows (ev : env) (live : list peer) (nfirst : nat) (o : obs) (sig : N) (a : action) : bool :=
  match a with
  | RetryExcluding ps =>
      if memb (e_self ev) ps then true else
      subsets_valid ev ps (skipn nfirst (o_runs o))
      && (match o_inits2 o with
          | [] => true
          | _ :: _ =>
              if enough (e_holders ev) (e_t ev) ps (e_unreach ev) (e_self ev)
                        (filter (fun p => memb p live) (e_ready2 ev))
              then negb (N.eqb sig SigMissing) else true
          end)
  | _ => true
  end.

Definition real_ok (ev : env) (live : list peer) (retryable : bool) (e : err) (nfirst : nat) (o : obs) (sig : N) : bool :=
  spec_ok ev retryable e nfirst o
  && (if negb retryable then true
      else match recognised_kinds e with
           | [k] => real_allows ev live nfirst o sig (action_of_kind k)
           | _ => true
           end).

(* ---------------------------------------------------------------------------------------------- *)
(* Messages of EXCLUDED peers during the replacement attempt.  From the failure on handleError's
   watcher (told the empty coordinator id) sees every fail message of the session - while the bully
   election runs, while the relayer collects ready messages or waits for the elected coordinator's
   start, while the replacement Run is in progress - and the relayer's wait sees every initiate / start
   message.  "A new attempt in which the culprits are removed": whatever a culprit sends meanwhile, the
   attempt goes on as if it had sent nothing.  As a judge of ONE observation ([e_msgs2] = everything
   that was offered after the failure, in arrival order):
     if nothing but the culprits' messages can have ended or delayed the attempt ([calm]: every other
     message is an initiate or a well-formed start message, both timeouts lie at least [far] = one minute
     beyond every arrival - handing the messages over takes the runner far less),
     then the session has not ended with an error when the runner closes it, and a relayer that does not
     coordinate the attempt has answered and run exactly what it would have answered and run for SOME
     election candidate as coordinator had the culprits sent nothing.
   Nothing is demanded about fail messages of peers that are not culprits (whether the elected
   coordinator may call the attempt off is not this property's subject). *)

Definition from_excluded (ps : list peer) (x : N * wmsg) : bool := memb (msg_from (snd x)) ps.

Definition drop_excluded (ps : list peer) (msgs : list (N * wmsg)) : list (N * wmsg) :=
  filter (fun x => negb (from_excluded ps x)) msgs.

Definition harmless (m : wmsg) : bool :=
  match m with MInitiate _ => true | MStart _ (Some _) => true | _ => false end.

Definition far : N := 60000.

Definition calm (tm : timing) (ps : list peer) (msgs : list (N * wmsg)) : bool :=
  (far <=? coord_to tm)%N && (far <=? tss_to tm)%N
  && forallb (fun x : N * wmsg =>
                (fst x + far <=? coord_to tm)%N && (fst x + far <=? tss_to tm)%N
                && (from_excluded ps x || harmless (snd x))) msgs.

Fixpoint runs_same (a b : list (bool * list peer)) : bool :=
  match a, b with
  | [], [] => true
  | x :: a', y :: b' => Bool.eqb (fst x) (fst y) && list_peer_eqb (snd x) (snd y) && runs_same a' b'
  | _, _ => false
  end.

Definition uninfluenced (ev : env) (ps : list peer) (nfirst : nat) (o : obs) : bool :=
  if memb (e_self ev) ps then true else
  if calm (e_tm ev) ps (e_msgs2 ev) then
    N.eqb (o_final o) FNil
    && match o_inits2 o with
       | _ :: _ => true          (* it coordinates the replacement attempt itself *)
       | [] =>
           existsb (fun c2 =>
                      let outs := fst (retry_start_wait (e_tm ev) c2 (drop_excluded ps (e_msgs2 ev))) in
                      runs_same (skipn nfirst (o_runs o)) (runs_of outs)
                      && list_peer_eqb (o_ready2 o) (readies_of outs))
                   (exclude (e_holders ev) ps)
       end
  else true.

Definition indep_ok (ev : env) (retryable : bool) (e : err) (nfirst : nat) (o : obs) : bool :=
  if negb retryable then true else
  match recognised_kinds e with
  | [] => true
  | ks => existsb (fun k => match action_of_kind k with
                            | RetryExcluding ps => uninfluenced ev ps nfirst o
                            | _ => true
                            end) ks
  end.

(* every arrival is earlier than both bounds of the wait *)
Definition timely (timeout watch : N) (msgs : list (N * wmsg)) : bool :=
  forallb (fun x : N * wmsg => (fst x <? timeout)%N && (fst x <? watch)%N) msgs.
