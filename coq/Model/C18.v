(* C18 - key shares and the topology survive crashes intact.
   Executable model of the file operations of the three stores and of what a reader can see after a
   crash or a failed write.  Definitions only; proofs are in Proofs/C18.v.

   Source anchors (Go):
     keyshare/ecdsa.go  ECDSAKeyshareStore.StoreKeyshare / GetKeyshare
     keyshare/frost.go  FrostKeyshareStore.StoreKeyshare / GetKeyshare
     topology/store.go  TopologyStore.StoreTopology / Topology
   repaired (fix-C18): os.CreateTemp in the directory of the target, Write, Sync, Close, os.Rename over
   the target; on any error the temporary file is removed and the target is not touched
   ([store_new], [store_new_failed]).
   before the repair: os.OpenFile(target, O_RDWR|O_CREATE|O_TRUNC), Write, Close ([store_old]).

   The file system is a map path -> contents; operations become visible in program order (page-cache
   reordering and directory fsync are outside the model).  A crash may happen between any two
   operations and in the middle of a write after ANY number of bytes; a failing write may have written
   any prefix.

   Histories (last section): sequences of store attempts on one target, each completing, failing or
   dying anywhere, over whatever files the earlier ones left; [OpenKeep] / [WriteAt] model a file that
   is opened WITHOUT O_TRUNC / O_EXCL and overwritten from offset 0 (a reused temporary file). *)
From Coq Require Import List NArith Bool Arith.
Import ListNotations.

Definition path := N.
Definition bytes := list N.
Definition fs := path -> option bytes.

Definition upd (s : fs) (p : path) (v : option bytes) : fs :=
  fun q => if N.eqb q p then v else s q.

Definition content (s : fs) (p : path) : bytes := match s p with Some b => b | None => [] end.

Inductive op :=
| OpenTrunc (p : path)            (* open(p, O_CREAT|O_TRUNC) succeeded: p exists and is empty *)
| OpenExcl (p : path)             (* open(p, O_CREAT|O_EXCL) succeeded: p is a new empty file *)
| Write (p : path) (d : bytes)    (* sequential write through that descriptor: appends d *)
| Fsync (p : path)
| Close (p : path)
| Rename (a b : path)
| Remove (p : path)
| OpenKeep (p : path)             (* open(p, O_CREAT) WITHOUT O_TRUNC / O_EXCL succeeded: whatever p held stays
                                     (a new file is empty); the descriptor starts at offset 0 *)
| WriteAt (p : path) (off : nat) (d : bytes)   (* write through a descriptor positioned at [off]: overwrites *)
| Unknown.                        (* an operation the trace translator does not know *)

(* [d] written at offset [off] of a file holding [c] (a hole is filled with zero bytes) *)
Definition overwrite (c : bytes) (off : nat) (d : bytes) : bytes :=
  firstn off c ++ repeat 0%N (off - length c) ++ d ++ skipn (off + length d) c.

Definition apply (s : fs) (o : op) : fs :=
  match o with
  | OpenTrunc p | OpenExcl p => upd s p (Some [])
  | Write p d => upd s p (Some (content s p ++ d))
  | Rename a b => if N.eqb a b then s else upd (upd s b (s a)) a None
  | Remove p => upd s p None
  | OpenKeep p => upd s p (Some (content s p))
  | WriteAt p off d => upd s p (Some (overwrite (content s p) off d))
  | Fsync _ | Close _ | Unknown => s
  end.

Definition run (s : fs) (tr : list op) : fs := fold_left apply tr s.

(* What can be on disk when the process dies somewhere in [tr]: the state before any operation, after
   any operation, and inside a write after any number k <= |d| of its bytes. *)
Inductive crashed : fs -> list op -> fs -> Prop :=
| crash_here : forall s tr, crashed s tr s
| crash_in_write : forall s p d r k, (k <= length d)%nat ->
    crashed s (Write p d :: r) (upd s p (Some (content s p ++ firstn k d)))
| crash_in_write_at : forall s p off d r k, (k <= length d)%nat ->
    crashed s (WriteAt p off d :: r) (upd s p (Some (overwrite (content s p) off (firstn k d))))
| crash_later : forall s o r s', crashed (apply s o) r s' -> crashed s (o :: r) s'.

(* THE SPECIFICATION: whatever the crash point, a reader of [t] sees the complete previous contents
   or the complete final contents. *)
Definition crash_safe (s : fs) (t : path) (tr : list op) : Prop :=
  forall s', crashed s tr s' -> s' t = s t \/ s' t = run s tr t.

(* The same, executable: crash states enumerated with write cut points every [g] bytes (g = 1: every
   byte).  Used as the judge on observed system-call traces. *)
Fixpoint cuts (fuel k g len : nat) : list nat :=
  match fuel with
  | O => []
  | S f => if k <? len then k :: cuts f (k + g) g len else []
  end.

Definition write_cuts (g : nat) (d : bytes) : list nat :=
  let g' := match g with O => 1 | _ => g end in cuts (length d) 0 g' (length d).

Fixpoint crash_states (g : nat) (s : fs) (tr : list op) : list fs :=
  s :: match tr with
       | [] => []
       | o :: r =>
           match o with
           | Write p d => map (fun k => upd s p (Some (content s p ++ firstn k d))) (write_cuts g d)
           | WriteAt p off d =>
               map (fun k => upd s p (Some (overwrite (content s p) off (firstn k d)))) (write_cuts g d)
           | _ => []
           end ++ crash_states g (apply s o) r
       end.

Fixpoint bytes_eqb (a b : bytes) : bool :=
  match a, b with
  | [], [] => true
  | x :: a', y :: b' => N.eqb x y && bytes_eqb a' b'
  | _, _ => false
  end.

Definition obytes_eqb (a b : option bytes) : bool :=
  match a, b with
  | Some x, Some y => bytes_eqb x y
  | None, None => true
  | _, _ => false
  end.

Definition crash_safe_b (g : nat) (s : fs) (t : path) (tr : list op) : bool :=
  let old := s t in
  let fin := run s tr t in
  forallb (fun s' : fs => let v := s' t in obytes_eqb v old || obytes_eqb v fin) (crash_states g s tr).

(* Recogniser of the atomic-replace shape: the only operation of the trace that changes what [t]
   names is one rename of ANOTHER file onto [t]; everything before and after it leaves [t] alone. *)
Definition mutates (t : path) (o : op) : bool :=
  match o with
  | OpenTrunc p | OpenExcl p | Write p _ | Remove p | OpenKeep p | WriteAt p _ _ => N.eqb p t
  | Rename a b => negb (N.eqb a b) && (N.eqb a t || N.eqb b t)
  | Fsync _ | Close _ => false
  | Unknown => true
  end.

Definition no_mut (t : path) (tr : list op) : bool := forallb (fun o => negb (mutates t o)) tr.

Fixpoint atomic_replace_shape (t : path) (tr : list op) : bool :=
  match tr with
  | [] => true
  | o :: r =>
      if mutates t o then
        match o with
        | Rename a b => N.eqb b t && negb (N.eqb a t) && no_mut t r
        | _ => false
        end
      else atomic_replace_shape t r
  end.

(* The three protocols. *)
Definition store_new (tmp t : path) (d : bytes) : list op :=
  [OpenExcl tmp; Write tmp d; Fsync tmp; Close tmp; Rename tmp t].

(* the write fails after k bytes: the temporary file is closed and removed, the target is not touched *)
Definition store_new_failed (tmp : path) (d : bytes) (k : nat) : list op :=
  [OpenExcl tmp; Write tmp (firstn k d); Close tmp; Remove tmp].

Definition store_old (t : path) (d : bytes) : list op :=
  [OpenTrunc t; Write t d; Close t].

(* What a reader gets after a store whose write failed after k of len bytes (repaired code). *)
Inductive outcome := Old | New | Other.

Definition outcome_eqb (a b : outcome) : bool :=
  match a, b with Old, Old | New, New | Other, Other => true | _, _ => false end.

Definition sweep_model (len : nat) : list outcome := repeat Old len ++ [New].

(* judge of a sweep: never anything but the complete old or the complete new value *)
Definition sweep_ok (obs : list outcome) : bool :=
  forallb (fun o => negb (outcome_eqb o Other)) obs.

(* classification of a file-system state against the old and new contents *)
Definition classify (old new : bytes) (v : option bytes) : outcome :=
  if obytes_eqb v (Some old) then Old else if obytes_eqb v (Some new) then New else Other.

(* ---- histories of store operations --------------------------------------------------------------
   A history is a sequence of store attempts on the same target.  Every attempt completes (Done), has
   its write fail after some number of bytes and takes the error path (Failed), or dies anywhere -
   between two operations or after any number of bytes of the write, on the normal or on the error
   path (Died).  Whatever files an attempt leaves behind are there when the next one starts; the
   temporary names of different attempts may coincide or differ. *)

Inductive fate := Done | Failed | Died.

Definition fate_eqb (a b : fate) : bool :=
  match a, b with Done, Done | Failed, Failed | Died, Died => true | _, _ => false end.

(* the repaired protocol: the temporary file is created FRESH - a new name (O_EXCL, [ex] = true) or an
   old name truncated (O_TRUNC, [ex] = false) *)
Definition open_fresh (ex : bool) (p : path) : op := if ex then OpenExcl p else OpenTrunc p.

Definition store_fresh (ex : bool) (tmp t : path) (d : bytes) : list op :=
  [open_fresh ex tmp; Write tmp d; Fsync tmp; Close tmp; Rename tmp t].

Definition store_fresh_failed (ex : bool) (tmp : path) (d : bytes) (k : nat) : list op :=
  [open_fresh ex tmp; Write tmp (firstn k d); Close tmp; Remove tmp].

(* the protocol of a store that REUSES a temporary file without truncating it *)
Definition store_keep (tmp t : path) (d : bytes) : list op :=
  [OpenKeep tmp; WriteAt tmp 0 d; Fsync tmp; Close tmp; Rename tmp t].

Record attempt := mkAttempt { a_excl : bool; a_tmp : path; a_data : bytes; a_fate : fate }.

Inductive attempt_run (t : path) : fs -> attempt -> fs -> Prop :=
| ar_done : forall s ex tmp d,
    attempt_run t s (mkAttempt ex tmp d Done) (run s (store_fresh ex tmp t d))
| ar_failed : forall s ex tmp d k,
    attempt_run t s (mkAttempt ex tmp d Failed) (run s (store_fresh_failed ex tmp d k))
| ar_died : forall s ex tmp d s', crashed s (store_fresh ex tmp t d) s' ->
    attempt_run t s (mkAttempt ex tmp d Died) s'
| ar_died_failing : forall s ex tmp d k s', crashed s (store_fresh_failed ex tmp d k) s' ->
    attempt_run t s (mkAttempt ex tmp d Died) s'.

(* [hist_run t s h l]: l = the file-system states after each attempt of h, started in s *)
Inductive hist_run (t : path) : fs -> list attempt -> list fs -> Prop :=
| hr_nil : forall s, hist_run t s [] []
| hr_cons : forall s a s1 h l, attempt_run t s a s1 -> hist_run t s1 h l ->
    hist_run t s (a :: h) (s1 :: l).

Definition tmps_ok (t : path) (h : list attempt) : bool :=
  forallb (fun a => negb (N.eqb (a_tmp a) t)) h.

Definition spec_of (h : list attempt) : list (bytes * fate) := map (fun a => (a_data a, a_fate a)) h.

(* THE SPECIFICATION over histories: after every attempt a reader of the target finds the complete
   value of that attempt, or - only if the attempt did not complete - exactly what it found before. *)
Fixpoint steps_ok (prev : option bytes) (h : list (bytes * fate)) (rs : list (option bytes)) : Prop :=
  match h, rs with
  | [], [] => True
  | (d, f) :: h', r :: rs' => (r = Some d \/ (f <> Done /\ r = prev)) /\ steps_ok r h' rs'
  | _, _ => False
  end.

(* ... hence after the whole history: the value of the last completed store, or the complete value of
   one of the unfinished stores after it *)
Fixpoint allowed (vs : list (option bytes)) (h : list (bytes * fate)) : list (option bytes) :=
  match h with
  | [] => vs
  | (d, Done) :: r => allowed [Some d] r
  | (d, _) :: r => allowed (Some d :: vs) r
  end.

(* The same on value identifiers, executable: the judge of the observed histories.  Values are
   numbered (equal values share a number); a reading is the number of the value the real getter
   returned, or ROther if it failed or returned something else. *)
Inductive reading := RVal (v : N) | ROther.

Definition reading_eqb (a b : reading) : bool :=
  match a, b with RVal x, RVal y => N.eqb x y | ROther, ROther => true | _, _ => false end.

Fixpoint hist_ok (prev : reading) (l : list (N * fate * reading)) : bool :=
  match l with
  | [] => true
  | (v, f, r) :: l' =>
      (reading_eqb r (RVal v) || (negb (fate_eqb f Done) && reading_eqb r prev)) && hist_ok r l'
  end.

(* every store completes and is followed by reads: each read returns the value stored last *)
Definition reads_ok (l : list (N * reading)) : bool :=
  forallb (fun x => reading_eqb (snd x) (RVal (fst x))) l.

(* A call of the real code that does not RETURN (a store that never completes, a getter that never
   answers) yields no reading at all: the observation is the history "one store attempt, then a reading
   that is no value", judged with the most lenient fate (an attempt that died may leave the previous or
   its own value) - the specification still wants a complete value to be read. *)
Definition hung_obs : list (N * fate * reading) := [(1%N, Died, ROther)].
Definition hung_ok : bool := hist_ok (RVal 0%N) hung_obs.

(* Stores through a configured path of any file-system shape (a link, a chain of links, a path through a
   linked directory, "." / "..", a path relative to the working directory ...): every store REPORTS
   whether it succeeded (Done) or returned an error (Failed), and the file is read through the same
   configured path before the first store and after every store.  The abstract store: a store that
   reports success has installed its value, one that reports an error has changed nothing. *)
Fixpoint path_model (prev : reading) (l : list (N * fate)) : list reading :=
  match l with
  | [] => []
  | (v, f) :: l' => let r := if fate_eqb f Done then RVal v else prev in r :: path_model r l'
  end.

Definition paths_obs (l : list (N * fate * reading * reading)) (second : bool) : list (N * fate * reading) :=
  map (fun x : N * fate * reading * reading =>
         (fst (fst (fst x)), snd (fst (fst x)), if second then snd x else snd (fst x))) l.

(* judge of a paths case: the history specification on the readings of both getters, the reading before
   the first store being the previous one (ROther: nothing could be read before) *)
Definition paths_ok (prev : reading) (l : list (N * fate * reading * reading)) : bool :=
  hist_ok prev (paths_obs l false) && hist_ok prev (paths_obs l true).

Definition decode (val : N -> bytes) (r : reading) : option bytes :=
  match r with RVal v => Some (val v) | ROther => None end.

(* Recogniser "the outcome does not depend on leftovers": every file the trace reads from (appends to,
   keeps the contents of, renames) is one whose contents the trace itself determined - it opened it
   fresh, removed it, or it is in [known] (the target). *)
Fixpoint mem (p : path) (l : list path) : bool :=
  match l with [] => false | q :: r => N.eqb p q || mem p r end.

Fixpoint determined (known : list path) (tr : list op) : bool :=
  match tr with
  | [] => true
  | o :: r =>
      match o with
      | OpenTrunc p | OpenExcl p | Remove p => determined (p :: known) r
      | Write p _ | OpenKeep p | WriteAt p _ _ => mem p known && determined known r
      | Rename a b => mem a known && determined (a :: b :: known) r
      | Fsync _ | Close _ => determined known r
      | Unknown => false
      end
  end.
