(* C19 - independent relayers derive identical identifiers for the same chain data.
   Definitions only; proofs in Proofs/C19.v.  The scan loops, the start-block wiring and [align] are
   those of Model/C05.v (same code, same generated wiring record).

   Source anchors (Go):
     chains/util.go  CalculateStartingBlock                      align s i = s - s mod i
     chains/evm/listener/eventHandlers/deposit.go  ProcessDeposits
         messageID = fmt.Sprintf("%d-%d-%d-%d", domainID, d.DestinationDomainID, startBlock, endBlock)
         domainDeposits[m.Destination] = append(domainDeposits[m.Destination], m)   (log order)
     chains/substrate/listener/event-handlers.go  ProcessDeposits   same id format, same grouping
     chains/btc/listener/deposit-handler.go  HandleDeposit
         messageID = fmt.Sprintf("%d-%d-%d", sourceID, destDomainID, blockNumber)
     chains/btc/listener/event-handlers.go  ProcessDeposits
         old:  for _, resource := range eh.resources (a Go map: random order) { DecodeDepositEvent ...
               first resource for which the transaction is a deposit (or decoding fails) decides }
         new:  the same loop over the resource ids in ascending order
       CalculateNonce: sha256(blockNumber.String() + "-" + txHash), the four big-endian 64-bit words xor-ed
     executors: session id = messageID-<batch index> (EVM), messageID (Substrate),
                messageID-hex(resourceID) (BTC)
     chains/evm/executor/executor.go  Execute
         for i, batch := range batches { if len(batch.proposals) == 0 { continue } ... i := i; b := batch
           p.Go(func() { ProposalsHash(b.proposals); sessionID := fmt.Sprintf("%s-%d", messageID, i) ... }) }
         one goroutine per non-empty batch; what it hashes / signs and the session id it signs under
         are those of ITS batch and ITS position, whenever it gets to run
     all three executors: every proposal's executed status is looked up first (IsProposalExecuted /
         PropStatus); a look-up error fails Execute before any session exists (section "executors: the
         executed-status look-ups of ONE relayer may fail" below) *)
From Coq Require Import List ZArith NArith Bool String Ascii DecimalString.
Import ListNotations.
From SygmaV Require Import Model.C05 Lib.C14_Dec.
Local Open Scope Z_scope.

(* ---- the partition -------------------------------------------------------------------------------- *)

Definition cell_of (i b : Z) : Z * Z := (align b i, align b i + i - 1).

Definition is_cell (i s e : Z) : bool := (s mod i =? 0) && (e =? s + i - 1).

(* ---- identifiers ------------------------------------------------------------------------------------ *)

Definition dec (z : Z) : string := NilZero.string_of_int (Z.to_int z).

Definition dash : string := "-"%string.

(* EVM and Substrate deposits *)
Definition message_id (src dst : Z) (s e : Z) : string :=
  (dec src ++ dash ++ dec dst ++ dash ++ dec s ++ dash ++ dec e)%string.

(* Bitcoin deposits *)
Definition btc_message_id (src dst : Z) (b : Z) : string :=
  (dec src ++ dash ++ dec dst ++ dash ++ dec b)%string.

Definition session_id_evm (mid : string) (batch : Z) : string := (mid ++ dash ++ dec batch)%string.
Definition session_id_sub (mid : string) : string := mid.
Definition session_id_btc (mid rid_hex : string) : string := (mid ++ dash ++ rid_hex)%string.

(* Bitcoin deposit nonce; H = SHA-256 as an explicit parameter (32 bytes out) *)
Fixpoint be_word (bs : list N) : N :=
  match bs with [] => 0%N | b :: r => (b * 256 ^ N.of_nat (List.length r) + be_word r)%N end.

Definition xor_fold (digest : list N) : N :=
  N.lxor (N.lxor (be_word (firstn 8 digest)) (be_word (firstn 8 (skipn 8 digest))))
         (N.lxor (be_word (firstn 8 (skipn 16 digest))) (be_word (firstn 8 (skipn 24 digest)))).

Definition nonce_preimage (b : Z) (txhash : string) : string := (dec b ++ dash ++ txhash)%string.

Definition btc_nonce (H : string -> list N) (b : Z) (txhash : string) : N :=
  xor_fold (H (nonce_preimage b txhash)).

(* ---- grouping by destination (all three ProcessDeposits) ----------------------------------------- *)

Section Group.
  Context {M : Type}.
  Variable dest : M -> N.

  Fixpoint upd (g : list (N * list M)) (m : M) : list (N * list M) :=
    match g with
    | [] => [(dest m, [m])]
    | (d, ms) :: r => if N.eqb d (dest m) then (d, ms ++ [m]) :: r else (d, ms) :: upd r m
    end.

  (* the Go map after the loop over the deposits in log order (as an association list) *)
  Definition group (msgs : list M) : list (N * list M) := fold_left upd msgs [].

  Fixpoint lookup (d : N) (g : list (N * list M)) : list M :=
    match g with
    | [] => []
    | (d', ms) :: r => if N.eqb d' d then ms else lookup d r
    end.

  Definition for_dest (d : N) (msgs : list M) : list M := filter (fun m => N.eqb (dest m) d) msgs.
End Group.

(* ---- Bitcoin: which resource a transaction is credited to ----------------------------------------- *)

Inductive outcome := DNo | DErr | DYes.   (* DecodeDepositEvent: not a deposit | error | deposit *)

Section Credit.
  Context {R T : Type}.
  Variable key : R -> N.                 (* resource id (32 bytes, big-endian) *)
  Variable decode : T -> R -> outcome.

  (* the loop of ProcessDeposits over the resources in the order [order] *)
  Fixpoint credit (order : list R) (tx : T) : option R :=
    match order with
    | [] => None
    | r :: rest =>
        match decode tx r with
        | DNo => credit rest tx
        | DErr => None
        | DYes => Some r
        end
    end.

  Fixpoint insert (r : R) (l : list R) : list R :=
    match l with
    | [] => [r]
    | x :: t => if (key r <=? key x)%N then r :: l else x :: insert r t
    end.

  Definition sort_by_key (l : list R) : list R := fold_right insert [] l.

  (* repaired ProcessDeposits: ascending resource id, whatever order the map yields *)
  Definition credit_sorted (order : list R) (tx : T) : option R := credit (sort_by_key order) tx.
End Credit.

(* concrete instance used by the correspondence run: a resource is its id; a transaction is the
   list of resource ids its outputs pay (the fee is always paid) *)
Definition pays_decode (tx : list N) (r : N) : outcome :=
  if existsb (N.eqb r) tx then DYes else DNo.

Definition credit_run (resources : list N) (tx : list N) : option N :=
  credit_sorted (fun r => r) pays_decode resources tx.

(* ---- EVM signing sessions: one per non-empty batch, named by the batch's position ------------------ *)

(* "%s-%d" with the position as Go prints an int >= 0 *)
Definition evm_sid (mid : string) (pos : N) : string := (mid ++ dash ++ C14_Dec.dec pos)%string.

(* the batch list is given by its members (deposit nonces) per position; the sessions Execute starts,
   in position order: members hashed and signed, session ids used for them *)
Fixpoint evm_sessions_from (mid : string) (pos : N) (bs : list (list N)) : list (list N * list string) :=
  match bs with
  | [] => []
  | [] :: r => evm_sessions_from mid (N.succ pos) r
  | ms :: r => (ms, [evm_sid mid pos]) :: evm_sessions_from mid (N.succ pos) r
  end.

Definition evm_sessions (mid : string) (bs : list (list N)) : list (list N * list string) :=
  evm_sessions_from mid 0%N bs.

(* what is handed to ProposalsHash, each exactly once: the non-empty batches *)
Definition evm_hashed (bs : list (list N)) : list (list N) :=
  filter (fun ms => match ms with [] => false | _ => true end) bs.

Fixpoint nl_eqb (a b : list N) : bool :=
  match a, b with
  | [], [] => true
  | x :: a', y :: b' => N.eqb x y && nl_eqb a' b'
  | _, _ => false
  end.

Fixpoint sl_eqb (a b : list string) : bool :=
  match a, b with
  | [], [] => true
  | x :: a', y :: b' => String.eqb x y && sl_eqb a' b'
  | _, _ => false
  end.

Fixpoint nll_eqb (a b : list (list N)) : bool :=
  match a, b with
  | [], [] => true
  | x :: a', y :: b' => nl_eqb x y && nll_eqb a' b'
  | _, _ => false
  end.

Fixpoint sess_eqb (a b : list (list N * list string)) : bool :=
  match a, b with
  | [], [] => true
  | (m, s) :: a', (m', s') :: b' => nl_eqb m m' && sl_eqb s s' && sess_eqb a' b'
  | _, _ => false
  end.

(* THE judge of the session cases: under every schedule / repetition that was observed, the
   sessions are exactly one per non-empty batch, each signing its own batch under
   <message id>-<position>, and what is hashed is exactly the non-empty batches. *)
Definition sess_ok (mid : string) (bs : list (list N))
           (runs : list (list (list N * list string))) (hashed : list (list (list N))) : bool :=
  forallb (fun r => sess_eqb r (evm_sessions mid bs)) runs
  && forallb (fun h => nll_eqb h (evm_hashed bs)) hashed.

(* ---- Bitcoin executor: one transaction (one signing session) per resource ---------------------------- *)

(* chains/btc/executor/executor.go  Execute
     for _, prop := range props { propsPerResource[prop.Data.ResourceId] = append(..., prop) }
     for resourceID, props := range propsPerResource { resourceID := resourceID; props := props
       p.Go(func() { resource := e.resources[resourceID]; executeResourceProps(props, resource, messageID) }) }
     executeResourceProps: sessionID = messageID-hex(resource.ResourceID); the transaction pays [props]
     from the UTXOs of resource.Address.
   A proposal is (deposit nonce, resource id).  What each goroutine must work on: the proposals of one
   resource, in delivery order, together with that very resource. *)
Definition bexec_spec (props : list (N * N)) : list (list N * option N) :=
  map (fun g => (map fst (snd g), Some (fst g))) (group (@snd N N) props).

Fixpoint bgroups_eqb (a b : list (list N * option N)) : bool :=
  match a, b with
  | [], [] => true
  | (m, r) :: a', (m', r') :: b' =>
      nl_eqb m m' && (match r, r' with Some x, Some y => N.eqb x y | None, None => true | _, _ => false end)
      && bgroups_eqb a' b'
  | _, _ => false
  end.

(* THE judge of the Bitcoin executor cases: under every observed schedule the goroutines worked on
   exactly the per-resource groups, each with its own resource. *)
Definition bexec_ok (props : list (N * N)) (runs : list (list (list N * option N))) : bool :=
  forallb (fun r => bgroups_eqb r (bexec_spec props)) runs.

(* ---- executors: the executed-status look-ups of ONE relayer may fail ---------------------------------- *)

(* chains/evm/executor/executor.go  proposalBatches      isExecuted, err := e.bridge.IsProposalExecuted(p)
                                                           if err != nil { return nil, err }   -> Execute fails
   chains/substrate/executor/executor.go  Execute        the same loop: if err != nil { return err }
   chains/btc/executor/executor.go  proposalsForExecution  executed, err := e.isExecuted(prop)
                                                           if err != nil { return props, err } -> Execute fails
   Every proposal of the delivery is looked up once, in delivery order; a proposal the destination reports
   as executed is left out; the first look-up that fails ends Execute before any session is started.
   (The EVM loop packs the batches while it looks up; packing does not influence the look-ups and the
   batches of a failed loop are dropped, so "look up, then pack" is the same function.)

   A delivery entry: the proposal, whether the destination chain reports it executed (chain data, the
   same for every relayer), whether THIS relayer's look-up of that status fails (a transient fault of
   its own RPC connection / store). *)
Section Lookups.
  Context {A : Type}.

  Definition looked : Type := (A * bool * bool)%type.

  (* None: some look-up failed - Execute returns the error; Some l: the proposals left to execute *)
  Fixpoint pending_of (ps : list looked) : option (list A) :=
    match ps with
    | [] => Some []
    | (a, ex, f) :: r =>
        if f then None else
        match pending_of r with
        | None => None
        | Some l => Some (if ex then l else a :: l)
        end
    end.

  (* the delivery as chain data (proposal, executed) seen by a relayer whose look-ups fail at the
     positions marked in [mask] (missing entries: no fault) *)
  Fixpoint mark (d : list (A * bool)) (mask : list bool) : list looked :=
    match d with
    | [] => []
    | (a, ex) :: r => (a, ex, match mask with f :: _ => f | [] => false end) :: mark r (tl mask)
    end.
End Lookups.

(* EVM: a pending proposal = deposit nonce and the gasLimit of its metadata, if any *)
Definition two64 : N := 18446744073709551616.
Definition w64 (x : N) : N := (x mod two64)%N.

Definition evm_prop_gas (tg : N) (p : N * option N) : N :=
  match snd p with Some l => w64 (l + tg) | None => tg end.

(* proposalBatches over the pending proposals: `if currentBatch.gasLimit+propGasLimit >= transactionMaxGas`
   a new batch is opened, then the proposal and its gas go into the current batch (uint64 arithmetic) *)
Fixpoint evm_pack_from (cap tg : N) (ps : list (N * option N)) (done : list (list N)) (cur : list N) (gas : N)
  : list (list N) :=
  match ps with
  | [] => rev (cur :: done)
  | p :: r =>
      let g := evm_prop_gas tg p in
      if (cap <=? w64 (gas + g))%N
      then evm_pack_from cap tg r (cur :: done) [fst p] (w64 (0 + g))
      else evm_pack_from cap tg r done (cur ++ [fst p]) (w64 (gas + g))
  end.

Definition evm_pack (cap tg : N) (ps : list (N * option N)) : list (list N) := evm_pack_from cap tg ps [] [] 0%N.

(* the sessions Execute starts on a relayer: members -> session id *)
Definition evm_exec (mid : string) (cap tg : N) (ps : list (@looked (N * option N))) : list (list N * list string) :=
  match pending_of ps with
  | None => []
  | Some l => evm_sessions mid (evm_pack cap tg l)
  end.

(* Substrate: one session, named by the message id, over all pending proposals *)
Definition sub_exec (mid : string) (ps : list (@looked N)) : list (list N * list string) :=
  match pending_of ps with
  | None | Some [] => []
  | Some l => [(l, [session_id_sub mid])]
  end.

(* Bitcoin: one group (one session <message id>-<resource id>) per resource of the pending proposals *)
Definition btc_exec (ps : list (@looked (N * N))) : list (list N * option N) :=
  match pending_of ps with
  | None => []
  | Some l => bexec_spec l
  end.

Definition sess1_eqb (a b : list N * list string) : bool := nl_eqb (fst a) (fst b) && sl_eqb (snd a) (snd b).

Definition bgroup1_eqb (a b : list N * option N) : bool :=
  nl_eqb (fst a) (fst b)
  && match snd a, snd b with Some x, Some y => N.eqb x y | None, None => true | _, _ => false end.

(* THE judge of the faulty-relayer cases.  [ref] = what the fault-free relayer did for the delivery,
   [runs] = what relayers with failing look-ups did for the same delivery: every session / group any of
   them started is one of the fault-free peer's - the same members under the same session id.  (A
   relayer that starts fewer sessions, or none, derives no identifier that differs from its peers'.) *)
Definition faulty_ok {X : Type} (eqb : X -> X -> bool) (ref : list X) (runs : list (list X)) : bool :=
  forallb (fun run => forallb (fun s => existsb (eqb s) ref) run) runs.

(* NOT the code: the variant in which a failed look-up is logged and the proposal skipped like an executed
   one (the rest of the delivery is packed and signed).  Kept to state what goes wrong with it
   (C19_evm_skip_failed_lookup_refuted). *)
Fixpoint skip_pending_of {A : Type} (ps : list (@looked A)) : list A :=
  match ps with
  | [] => []
  | (a, ex, f) :: r => if f || ex then skip_pending_of r else a :: skip_pending_of r
  end.

Definition skip_evm_exec (mid : string) (cap tg : N) (ps : list (@looked (N * option N))) : list (list N * list string) :=
  evm_sessions mid (evm_pack cap tg (skip_pending_of ps)).

(* ---- retry paths: which retried deposits are grouped together, and in which order ---------------------- *)

(* chains/evm/listener/eventHandlers/retry.go  RetryV1EventHandler.HandleEvents
     for _, event := range retryEvents {                       the Retry logs of the range, log order
       deposits := FetchRetryDepositEvents(event, ...)           the Deposit logs of the retried transaction, log order
       for _, d := range deposits {
         messageID := fmt.Sprintf("retry-%d-%d-%d-%d", domainID, d.DestinationDomainID, startBlock, endBlock)
         msg := HandleDeposit(...); if executed { return }
         retriesByDomain[msg.Destination] = append(retriesByDomain[msg.Destination], msg) } }
     for _, retries := range retriesByDomain { eh.msgChan <- retries }
   chains/substrate/listener/event-handlers.go  RetryEventHandler.HandleEvents: the same loop over the Retry
     events of the range and the Deposit events of the block each of them names.
   A retry event is given by the deposits it makes the handler look at (the same transaction / block named
   twice = the same deposits twice): destination, deposit nonce, already executed. *)
Definition rdep := (N * N * bool)%type.
Definition rd_dest (d : rdep) : N := fst (fst d).
Definition rd_nonce (d : rdep) : N := snd (fst d).
Definition rd_live (d : rdep) : bool := negb (snd d).

Definition retry_msgs (evs : list (list rdep)) : list rdep := filter rd_live (List.concat evs).

(* the Go map retriesByDomain after the loops *)
Definition retry_groups (evs : list (list rdep)) : list (N * list rdep) := group rd_dest (retry_msgs evs).

Definition retry_message_id (src dst s e : Z) : string := ("retry-" ++ message_id src dst s e)%string.

(* a message group as it arrives on the message channel: message id, destination, deposit nonces in order *)
Definition mgroup := (string * N * list N)%type.

(* the destinations that occur, ascending (the runner sorts the observed groups by destination) *)
Fixpoint ins_u (x : N) (l : list N) : list N :=
  match l with
  | [] => [x]
  | y :: r => if (x <? y)%N then x :: l else if (x =? y)%N then l else y :: ins_u x r
  end.

Definition dests_sorted (ds : list N) : list N := fold_right ins_u [] ds.

(* what a retry event handler sends for the range [s, e] *)
Definition retry_model (src s e : Z) (evs : list (list rdep)) : list mgroup :=
  map (fun d => (retry_message_id src (Z.of_N d) s e, d, map rd_nonce (lookup d (retry_groups evs))))
      (dests_sorted (map rd_dest (retry_msgs evs))).

Definition mg_eqb (a b : mgroup) : bool :=
  String.eqb (fst (fst a)) (fst (fst b)) && N.eqb (snd (fst a)) (snd (fst b)) && nl_eqb (snd a) (snd b).

Fixpoint list_eqb {X : Type} (eqb : X -> X -> bool) (a b : list X) : bool :=
  match a, b with
  | [], [] => true
  | x :: a', y :: b' => eqb x y && list_eqb eqb a' b'
  | _, _ => false
  end.

Definition mgl_eqb : list mgroup -> list mgroup -> bool := list_eqb mg_eqb.
Definition mgll_eqb : list (list mgroup) -> list (list mgroup) -> bool := list_eqb mgl_eqb.

Definition all_same {X : Type} (eqb : X -> X -> bool) (ref : X) (runs : list X) : bool := forallb (eqb ref) runs.

(* THE judge of the repeated runs of one handler on one range (Go randomises map iteration per loop): what
   is sent - which deposits together, in which order, under which id - is the same in every repetition. *)
Definition reps_ok (runs : list (list mgroup)) : bool :=
  match runs with [] => true | r :: rest => all_same mgl_eqb r rest end.

(* THE judge of the concurrent cases.  One long-lived handler object serves several calls (the listener's
   scan of a range, retries of other blocks) - [seq]: what each call sent when the calls were made one after
   the other, [runs]: what each call sent under every observed schedule in which they ran at the same time
   (and in further sequential repetitions): no difference. *)
Definition conc_ok (seq : list (list mgroup)) (runs : list (list (list mgroup))) : bool := all_same mgll_eqb seq runs.

(* ---- long-lived executor objects: the same delivery again ------------------------------------------------ *)

(* chains/evm/executor/executor.go, chains/substrate/executor/executor.go, chains/btc/executor/executor.go
     type Executor struct { coordinator, host, comm, bridge, fetcher, exitLock, ... }     configuration only
   app.go builds ONE executor per destination chain for the relayer's lifetime; every delivery - and, after
   retries (a retried block keeps its message id), the SAME delivery again - is a call of Execute on that
   object; a relayer restarted in between works with a new object.  Execute reads and writes no field of the
   executor that another call of Execute wrote: what a call derives is a function [f] of its delivery.
   [run_history f dels seq]: what a long-lived executor derives at every step of the history [seq] (indices
   into the deliveries [dels]; an index that names no delivery is no step). *)
Definition run_history {D X : Type} (f : D -> X) (dels : list D) (seq : list nat) : list (nat * X) :=
  flat_map (fun i => match nth_error dels i with Some d => [(i, f d)] | None => [] end) seq.

(* THE judge of the history cases.  [fresh]: per delivery what a relayer with a NEW executor object started;
   [steps]: per step of the long-lived relayer's history the delivery and what it started: every session /
   group the long-lived relayer starts at any step is one the restarted relayer starts for that delivery -
   the same members, in the same order, under the same identifier.  (As for [faulty_ok]: a relayer that
   starts fewer sessions derives no identifier that differs from its peers'.) *)
Definition hist_ok {X : Type} (eqb : X -> X -> bool) (fresh : list (list X)) (steps : list (nat * list X)) : bool :=
  forallb (fun st => match nth_error fresh (fst st) with
                     | Some f => forallb (fun s => existsb (eqb s) f) (snd st)
                     | None => false
                     end) steps.

(* NOT the code: an executor that counts, per object, how often a session id has been started and appends
   -<n> from the second start on ("do not reuse the id of a session that may still be pending").  Kept to
   state what goes wrong with it (C19_counted_sessions_refuted). *)
Fixpoint count_sid (sid : string) (started : list string) : N :=
  match started with
  | [] => 0%N
  | s :: r => ((if String.eqb s sid then 1 else 0) + count_sid sid r)%N
  end.

Definition counted_sid (started : list string) (sid : string) : string :=
  match count_sid sid started with
  | 0%N => sid
  | n => (sid ++ dash ++ C14_Dec.dec n)%string
  end.

Fixpoint counted_history {D : Type} (f : D -> list (list N * list string)) (dels : list D) (started : list string)
         (seq : list nat) : list (nat * list (list N * list string)) :=
  match seq with
  | [] => []
  | i :: r =>
      match nth_error dels i with
      | None => counted_history f dels started r
      | Some d =>
          (i, map (fun s => (fst s, map (counted_sid started) (snd s))) (f d))
            :: counted_history f dels (flat_map snd (f d) ++ started) r
      end
  end.

(* ---- node latency: the order of what is signed -------------------------------------------------------------- *)

(* chains/substrate/executor/executor.go  Execute   for _, prop := range proposals { IsProposalExecuted ... append }
   (and proposalBatches / proposalsForExecution): one look-up after the other, the pending proposals are
   appended in DELIVERY order - [pending_of] has no latency parameter: however long the node takes for
   which answer, the list is the same.
   NOT the code: look-ups asked side by side, every pending proposal appended when its answer arrives;
   [order] = the positions of the delivery in the order in which their look-ups complete. *)
Definition completion_pending {A : Type} (ps : list (@looked A)) (order : list nat) : option (list A) :=
  if existsb (fun p : looked => snd p) ps then None
  else Some (flat_map (fun i => match nth_error ps i with
                                | Some (a, false, _) => [a]
                                | _ => []
                                end) order).

Definition sub_exec_completion (mid : string) (ps : list (@looked N)) (order : list nat) : list (list N * list string) :=
  match completion_pending ps order with
  | None | Some [] => []
  | Some l => [(l, [session_id_sub mid])]
  end.
