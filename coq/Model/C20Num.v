(* C20 - every numeric chain setting round-trips or is rejected; numeric STRINGS are read as the numbers
   they spell.  Executable model of the decoding of the numeric settings of a chain entry, of
   uploaderConfig.maxRetries of the relayer section, and of the settings written as strings that hold a
   number.  Definitions only; proofs are in Proofs/C20Num.v.

   Source anchors (Go):
     nfield_of      chains/evm/config.go RawEVMConfig, chains/substrate/config.go RawSubstrateConfig,
                    chains/btc/config/config.go RawBtcConfig: Go type, `default:"..."` tag, the checks of
                    Validate(), and what NewXConfig makes of the decoded field (big.NewInt,
                    time.Duration(x) * time.Second, uint16(x), big.NewFloat)
     decode         REPAIRED (/repo commits 4b6460c b9a0784 e724d22): config.DecodeExact = mapstructure v1.4.2 (NOT weakly typed)
                    with config.ExactNumbersHook: a number an integer field cannot hold EXACTLY - a
                    fraction, a number outside the range of the Go type, a negative number for an unsigned
                    field - is an error; a string or a bool for a numeric field is an error
     old_decode     before the repair: mapstructure.Decode - a Go integer is converted (a uint64 above
                    2^63-1 wraps into an int64), a float64 is converted with int64(f) / uint64(f): the
                    fraction is cut off, and on amd64 a value outside the target range becomes -2^63
                    (int64) / 2^63 (uint64)
     with default   creasty/defaults Set: a field that is zero after decoding takes its default
     load_num       REPAIRED: Validate() rejects more seconds of blockRetryInterval than a time.Duration
                    holds (chain.ValidateSeconds); before ([old_load_num]) the product wrapped
     round53        a number written in a JSON document reaches the decoder as the nearest float64
     decode_weak    config/config.go GetConfigFromFile: viper.Unmarshal = weakly typed mapstructure
                    (a string is parsed with strconv.ParseUint(s, 0, 64), "" is 0, a bool is 0 / 1);
                    REPAIRED: with ExactNumbersHook; before, a negative number wrapped into the uint64
     parse_int_text chains/btc/config/config.go NewBtcConfig: big.Int.SetString(feeAmount, 10) - optional
                    sign, decimal digits, nothing else (Model/C20.v)
     parse_uint0    config/relayer/config.go strconv.ParseUint(port, 0, 16): Go's base-0 literal syntax
                    (0x / 0o / 0b prefixes, a leading 0 = octal, '_' separators)

   The SPECIFICATION ([num_ok], [retries_ok], [fee_ok], [port0_ok]): a configuration that loads carries,
   for every setting, the number that was written - for a string, the number its text spells in the
   documented syntax of that setting (fee amounts: decimal; ports and weakly decoded numbers: Go's base-0
   syntax, where a leading 0 IS octal notation) - or, for a written zero, the documented default;
   otherwise loading fails.  Rejecting a configuration is always allowed here (the property demands
   acceptance only of the ports 1..65535, Model/C20.v).  One class remains where the code as it is falls
   short of this: an integer above 2^53 written in a JSON document that no float64 holds is loaded as the
   nearest float64 ([_float_rounding_refuted] in Properties/C20.v; open known finding). *)
From Coq Require Import List ZArith NArith Bool String Ascii.
Import ListNotations.
From SygmaV Require Import Model.C20.
Local Open Scope Z_scope.

(* ---------------------------------------------------------------------------------------------- *)
(* Numbers as written and as loaded *)

(* a rational n/d *)
Definition nval := (Z * positive)%type.

Definition nval_eqb (a b : nval) : bool := fst a * Zpos (snd b) =? fst b * Zpos (snd a).

Inductive nty := TI64 | TU64 | TF64.

(* how an integer reaches the decoder: as a Go integer (a hand-built chain entry, exact) or as a float64
   (every number of a JSON document) *)
Inductive how := AsInt | AsFloat.

Inductive wnum :=
| WNum (z : Z) (h : how)          (* the integer z *)
| WFrac (n : Z) (d : positive)    (* the non-integral number n/d, d a power of two: a float64 *)
| WStr (s : string)               (* a string *)
| WBool (b : bool)
| WAbsent.                        (* the key is not written *)

Definition min_i64 : Z := -9223372036854775808.
Definition max_i64 : Z := 9223372036854775807.
Definition max_u64 : Z := 18446744073709551615.
Definition two64 : Z := 18446744073709551616.
Definition two63 : Z := 9223372036854775808.
Definition giga : Z := 1000000000.

Definition wrap_i64 (z : Z) : Z := (z + two63) mod two64 - two63.

(* the nearest float64 of an integer (round to nearest, ties to even; 53 significant bits) *)
Definition round53 (z : Z) : Z :=
  let a := Z.abs z in
  let e := Z.log2 a - 52 in
  if e <=? 0 then z
  else
    let q := Z.shiftr a e in
    let rem := a - Z.shiftl q e in
    let half := Z.shiftl 1 (e - 1) in
    let q' := if rem <? half then q else if half <? rem then q + 1 else if Z.even q then q else q + 1 in
    Z.sgn z * Z.shiftl q' e.

Definition exact53 (z : Z) : bool := round53 z =? z.

(* float64 -> int64 / uint64 as compiled for amd64 *)
Definition f2i (f : Z) : Z := if (min_i64 <=? f) && (f <=? max_i64) then f else min_i64.
Definition f2u (f : Z) : Z := if f <=? max_u64 then f else two63.

(* BEFORE the repair: mapstructure.Decode into a field of type [ty]; None = decoding error *)
Definition old_decode (ty : nty) (w : wnum) : option nval :=
  match w with
  | WAbsent => Some (0, 1%positive)
  | WStr _ | WBool _ => None
  | WNum z AsInt =>
      match ty with
      | TI64 => Some (wrap_i64 z, 1%positive)
      | TU64 => if z <? 0 then None else Some (z, 1%positive)
      | TF64 => Some (round53 z, 1%positive)
      end
  | WNum z AsFloat =>
      let f := round53 z in
      match ty with
      | TI64 => Some (f2i f, 1%positive)
      | TU64 => if f <? 0 then None else Some (f2u f, 1%positive)
      | TF64 => Some (f, 1%positive)
      end
  | WFrac n d =>
      match ty with
      | TI64 => Some (Z.quot n (Zpos d), 1%positive)
      | TU64 => if n <? 0 then None else Some (Z.quot n (Zpos d), 1%positive)
      | TF64 => Some (n, d)
      end
  end.

(* REPAIRED (config.DecodeExact): a number the integer field cannot hold exactly is an error *)
Definition decode (ty : nty) (w : wnum) : option nval :=
  match w with
  | WAbsent => Some (0, 1%positive)
  | WStr _ | WBool _ => None
  | WNum z AsInt =>
      match ty with
      | TI64 => if (min_i64 <=? z) && (z <=? max_i64) then Some (z, 1%positive) else None
      | TU64 => if (0 <=? z) && (z <=? max_u64) then Some (z, 1%positive) else None
      | TF64 => Some (round53 z, 1%positive)
      end
  | WNum z AsFloat =>
      let f := round53 z in
      match ty with
      | TI64 => if (min_i64 <=? f) && (f <=? max_i64) then Some (f, 1%positive) else None
      | TU64 => if (0 <=? f) && (f <=? max_u64) then Some (f, 1%positive) else None
      | TF64 => Some (f, 1%positive)
      end
  | WFrac n d =>
      match ty with
      | TI64 | TU64 => None
      | TF64 => Some (n, d)
      end
  end.

(* ---------------------------------------------------------------------------------------------- *)
(* The numeric settings of the three chain kinds *)

Inductive nfname :=
| FMaxGasPrice | FGasMultiplier | FGasIncrease | FGasLimit | FTransferGas
| FStartBlock | FConfs | FInterval | FRetryInterval | FChainID | FNet | FTip.

(* type, default (0 = none), lower / upper bound checked by Validate, and whether NewXConfig turns the
   number of seconds into a time.Duration (int64 nanoseconds, the multiplication wraps) *)
Record nfield := mkNF { nf_ty : nty; nf_default : Z; nf_min : option Z; nf_max : option Z; nf_secs : bool }.

Definition nfield_of (k : chain_kind) (f : nfname) : option nfield :=
  match f, k with
  | FMaxGasPrice, Evm => Some (mkNF TI64 500000000000 None None false)
  | FGasMultiplier, Evm => Some (mkNF TF64 1 None None false)
  | FGasIncrease, Evm => Some (mkNF TI64 15 None None false)
  | FGasLimit, Evm => Some (mkNF TI64 15000000 None None false)
  | FTransferGas, Evm => Some (mkNF TU64 250000 None None false)
  | FStartBlock, _ => Some (mkNF TI64 0 None None false)
  | FConfs, Evm | FConfs, Btc => Some (mkNF TI64 10 (Some 1) None false)
  | FInterval, _ => Some (mkNF TI64 5 (Some 1) None false)
  | FRetryInterval, _ => Some (mkNF TU64 5 None None true)
  | FChainID, Sub => Some (mkNF TI64 0 None None false)
  | FNet, Sub => Some (mkNF TI64 0 (Some 0) (Some 65535) false)
  | FTip, Sub => Some (mkNF TU64 0 None None false)
  | _, _ => None
  end.

Definition below (m : option Z) (v : Z) : bool := match m with Some x => v <? x | None => false end.
Definition above (m : option Z) (v : Z) : bool := match m with Some x => x <? v | None => false end.

(* the largest number of seconds a time.Duration holds (chain.MaxDurationSeconds) *)
Definition max_secs : Z := 9223372036.

(* decode, defaults, Validate, conversion: what NewXConfig holds for the setting; None = error.
   [fixed]: the repaired constructors (Validate rejects more than [max_secs] seconds); otherwise the
   product time.Duration(x) * time.Second wraps *)
Definition load_num_with (dec : nty -> wnum -> option nval) (fixed : bool) (nf : nfield) (w : wnum) : option nval :=
  match dec (nf_ty nf) w with
  | None => None
  | Some v =>
      let v1 := if (fst v =? 0) && negb (nf_default nf =? 0) then (nf_default nf, 1%positive) else v in
      match nf_ty nf with
      | TF64 => Some v1
      | _ =>
          let x := fst v1 in
          if below (nf_min nf) x || above (nf_max nf) x then None
          else if nf_secs nf then
            (if fixed then (if max_secs <? x then None else Some (x * giga, 1%positive))
             else Some (wrap_i64 (x * giga), 1%positive))
          else Some (x, 1%positive)
      end
  end.

Definition load_num : nfield -> wnum -> option nval := load_num_with decode true.
Definition old_load_num : nfield -> wnum -> option nval := load_num_with old_decode false.

Definition model_num (k : chain_kind) (f : nfname) (w : wnum) : option nval :=
  match nfield_of k f with
  | Some nf => load_num nf w
  | None => None
  end.

(* the constructors before the repair *)
Definition old_model_num (k : chain_kind) (f : nfname) (w : wnum) : option nval :=
  match nfield_of k f with
  | Some nf => old_load_num nf w
  | None => None
  end.

(* the number a written value IS: an integer or a fraction itself, a string the integer its text spells
   in decimal (optional sign, digits); a bool or another string spells no number *)
Definition reading (w : wnum) : option nval :=
  match w with
  | WNum z _ => Some (z, 1%positive)
  | WFrac n d => Some (n, d)
  | WStr s => option_map (fun z => (z, 1%positive)) (parse_int_text s)
  | WBool _ => None
  | WAbsent => Some (0, 1%positive)
  end.

Definition scale_of (nf : nfield) : Z := if nf_secs nf then giga else 1.

(* THE SPECIFICATION for one numeric setting: the configuration is rejected, or the loaded value is the
   written number (seconds: that many seconds), or - for a written zero / an absent key - the default. *)
Definition num_ok_field (nf : nfield) (w : wnum) (impl : option nval) : bool :=
  match impl with
  | None => true
  | Some v =>
      match reading w with
      | None => true
      | Some q =>
          nval_eqb v (fst q * scale_of nf, snd q)
          || ((fst q =? 0) && nval_eqb v (nf_default nf * scale_of nf, 1%positive))
      end
  end.

Definition num_ok (k : chain_kind) (f : nfname) (w : wnum) (impl : option nval) : bool :=
  match nfield_of k f with
  | Some nf => num_ok_field nf w impl
  | None => true
  end.

(* The inputs on which the (repaired) code meets the specification: an integer that reaches the decoder
   as a float64 - every number of a JSON document - is one a float64 holds exactly (any integer up to
   2^53 in magnitude, and the float64 values beyond); everything else is unrestricted: any Go integer,
   any fraction, strings, bools, an absent key.  (An integer of a JSON document that no float64 holds is
   loaded as the nearest one: C20_num_float_rounding_refuted, open known finding.) *)
Definition num_wf (nf : nfield) (w : wnum) : bool :=
  match w with
  | WNum z AsFloat => exact53 z
  | WNum z AsInt => match nf_ty nf with TF64 => exact53 z | _ => true end
  | _ => true
  end.

(* sanity of a table entry (all entries of [nfield_of] pass: Proofs) *)
Definition nf_sane (nf : nfield) : bool :=
  (0 <=? nf_default nf) && (nf_default nf <=? 1000000000000)
  && (if nf_secs nf then match nf_ty nf with TU64 => nf_default nf <=? max_secs | _ => false end else true)
  && match nf_min nf with Some m => (0 <=? m) && match nf_ty nf with TI64 => true | _ => false end | None => true end.

(* ---------------------------------------------------------------------------------------------- *)
(* A BTC resource's fee amount: a string, big.Int.SetString(s, 10) *)

Definition parse_fee (s : string) : option Z := parse_int_text s.

(* SPECIFICATION: rejected, or the amount is the number the text spells in decimal; a text that spells no
   decimal number is outside the property *)
Definition fee_ok (text : string) (impl : option Z) : bool :=
  match impl with
  | None => true
  | Some v => match parse_int_text text with Some q => v =? q | None => true end
  end.

(* ---------------------------------------------------------------------------------------------- *)
(* Go's base-0 integer syntax: strconv.ParseUint(s, 0, bits) *)

Definition lower (a : ascii) : ascii :=
  let n := N_of_ascii a in if ((65 <=? n) && (n <=? 90))%N then ascii_of_N (n + 32) else a.

Definition is_us (a : ascii) : bool := N.eqb (N_of_ascii a) 95.

Definition digit_val (a : ascii) : option Z :=
  let n := N_of_ascii a in
  if ((48 <=? n) && (n <=? 57))%N then Some (Z.of_N (n - 48))
  else if ((97 <=? n) && (n <=? 122))%N then Some (Z.of_N (n - 97 + 10))
  else if ((65 <=? n) && (n <=? 90))%N then Some (Z.of_N (n - 65 + 10))
  else None.

(* the digit loop of ParseUint (base-0 mode: '_' is skipped and checked afterwards) *)
Fixpoint digits_loop (base acc : Z) (s : string) : option Z :=
  match s with
  | EmptyString => Some acc
  | String c r =>
      if is_us c then digits_loop base acc r
      else match digit_val c with
           | Some d => if d <? base then digits_loop base (acc * base + d) r else None
           | None => None
           end
  end.

Fixpoint has_us (s : string) : bool :=
  match s with EmptyString => false | String c r => is_us c || has_us r end.

(* strconv.underscoreOK: '_' only between digits (a base prefix counts as a digit) *)
Inductive ustate := UStart | UDigit | UUnder | UOther.

Definition is_hex_letter (a : ascii) : bool :=
  let n := N_of_ascii (lower a) in ((97 <=? n) && (n <=? 102))%N.

Fixpoint us_loop (hex : bool) (i : ustate) (s : string) : bool :=
  match s with
  | EmptyString => match i with UUnder => false | _ => true end
  | String c r =>
      if is_digit c || (hex && is_hex_letter c) then us_loop hex UDigit r
      else if is_us c then match i with UDigit => us_loop hex UUnder r | _ => false end
      else match i with UUnder => false | _ => us_loop hex UOther r end
  end.

Definition prefix_base (p : ascii) : option Z :=
  let n := N_of_ascii (lower p) in
  if N.eqb n 98 then Some 2 else if N.eqb n 111 then Some 8 else if N.eqb n 120 then Some 16 else None.

Definition underscore_ok (s : string) : bool :=
  let s1 := match s with
            | String c r => if N.eqb (N_of_ascii c) 43 || N.eqb (N_of_ascii c) 45 then r else s
            | EmptyString => s
            end in
  match s1 with
  | String z (String p r) =>
      if N.eqb (N_of_ascii z) 48 then
        match prefix_base p with
        | Some b => us_loop (b =? 16) UDigit r
        | None => us_loop false UStart s1
        end
      else us_loop false UStart s1
  | _ => us_loop false UStart s1
  end.

Definition finish_uint0 (base : Z) (whole body : string) : option Z :=
  match digits_loop base 0 body with
  | Some v => if has_us body && negb (underscore_ok whole) then None else Some v
  | None => None
  end.

(* the number a text spells in the base-0 syntax (any size); None = no number of that syntax *)
Definition read_uint0 (s : string) : option Z :=
  match s with
  | EmptyString => None
  | String c r =>
      if N.eqb (N_of_ascii c) 48 then
        match r with
        | String p (String _ _ as r2) =>
            match prefix_base p with
            | Some b => finish_uint0 b s r2
            | None => finish_uint0 8 s r
            end
        | _ => finish_uint0 8 s r
        end
      else finish_uint0 10 s s
  end.

(* ParseUint(s, 0, bits) with 2^bits - 1 = maxv: a number beyond the range is an error *)
Definition parse_uint0 (maxv : Z) (s : string) : option Z :=
  match read_uint0 s with
  | Some v => if v <=? maxv then Some v else None
  | None => None
  end.

(* a relayer port as the code reads it: ParseUint(s, 0, 16) *)
Definition parse_port0 (s : string) : option Z := parse_uint0 65535 s.

(* SPECIFICATION of a port text in the base-0 syntax: the text spells the number [read_uint0] gives (a
   leading 0 is octal notation: "017" spells 15) - accepted: that number, and it is a port; rejected: not
   the canonical decimal of a port 1..65535.  A text that spells no base-0 number is judged by its decimal
   reading, if it has one ([port_ok], e.g. "+80", "-1"). *)
Definition port0_ok (text : string) (impl : option Z) : bool :=
  match read_uint0 text with
  | None => port_ok text impl
  | Some v =>
      match impl with
      | Some p => (v <=? 65535) && (p =? v)
      | None => negb ((1 <=? v) && (v <=? 65535) && String.eqb text (print_Z v))
      end
  end.

(* ---------------------------------------------------------------------------------------------- *)
(* uploaderConfig.maxRetries (uint64, default 5) of the relayer section, file loader: viper.Unmarshal *)

Definition retries_field : nfield := mkNF TU64 5 None None false.

(* weakly typed mapstructure into a uint64.  [fixed]: with ExactNumbersHook (a negative, non-integral or
   out-of-range number is an error); before, uint64(f) of the float64: a negative number wraps (amd64:
   through int64), a fraction is cut off *)
Definition decode_weak (fixed : bool) (w : wnum) : option nval :=
  match w with
  | WAbsent => Some (0, 1%positive)
  | WBool b => Some (if b then 1 else 0, 1%positive)
  | WStr s => option_map (fun z => (z, 1%positive))
                (parse_uint0 max_u64 (match s with EmptyString => "0"%string | _ => s end))
  | WNum z h =>
      let f := match h with AsInt => z | AsFloat => round53 z end in
      if fixed then (if (0 <=? f) && (f <=? max_u64) then Some (f, 1%positive) else None)
      else if f <? 0 then Some (if min_i64 <=? f then f + two64 else two63, 1%positive)
      else Some (f2u f, 1%positive)
  | WFrac n d =>
      if fixed then None
      else let q := Z.quot n (Zpos d) in
           Some (if q <? 0 then (if min_i64 <=? q then q + two64 else two63) else f2u q, 1%positive)
  end.

Definition load_retries (fixed : bool) (w : wnum) : option nval :=
  match decode_weak fixed w with
  | Some v => Some (if fst v =? 0 then (5, 1%positive) else v)
  | None => None
  end.

Definition model_retries : wnum -> option nval := load_retries true.
Definition old_model_retries : wnum -> option nval := load_retries false.

(* a string is read in the base-0 syntax of the weak decoder; one that spells no such number by its
   decimal reading, if any *)
Definition reading0 (w : wnum) : option nval :=
  match w with
  | WStr s =>
      match read_uint0 s with
      | Some z => Some (z, 1%positive)
      | None => option_map (fun z => (z, 1%positive)) (parse_int_text s)
      end
  | _ => reading w
  end.

Definition retries_ok (w : wnum) (impl : option nval) : bool :=
  match impl with
  | None => true
  | Some v =>
      match reading0 w with
      | None => true
      | Some q => nval_eqb v q || ((fst q =? 0) && nval_eqb v (5, 1%positive))
      end
  end.

Definition retries_wf (w : wnum) : bool :=
  match w with WNum z AsFloat => exact53 z | _ => true end.
