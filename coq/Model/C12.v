(* C12 - messages reach exactly the current subscribers of their session and type.
   Executable model of the subscription ids and of the subscription table.  Definitions only;
   proofs are in Proofs/C12.v.

   Source anchors (Go):
     sub_id        comm/subID.go            NewSubscriptionID: fmt.Sprintf("%s-%d-%d", session, type, uint32(now))
     unwrap        comm/subID.go            Unwrap (repaired code: the LAST two separators delimit type and identifier)
     old_unwrap    comm/subID.go            Unwrap as it was: strings.Split on every '-', exactly three parts demanded
     parse_type    comm/subID.go            strconv.ParseInt(part, 10, 8) followed by the "> Unknown" guard
     step (Sub)    comm/p2p/subscription.go SubscribeTo:    table[session][type][identifier-of-new-id] = channel
     step (Unsub)  comm/p2p/subscription.go UnSubscribeFrom: Unwrap; on error return; delete table[s][t][identifier]
     subscribers   comm/p2p/subscription.go GetSubscribers (Go map order is arbitrary: compared as sorted lists)
     step (Deliver) comm/p2p/libp2p.go      ProcessMessagesFromStream: one copy to every GetSubscribers(session,type)

   The unique component u = uint32(time.Now().UnixNano()) is an INPUT of the model (the runner feeds
   the value observed in the id the implementation returned).                                        *)
From Coq Require Import List NArith Bool String Ascii.
Import ListNotations.
Local Open Scope string_scope.
Local Open Scope N_scope.
Local Open Scope list_scope.

(* ---- decimal printing (fmt %d of an unsigned value) ---- *)

Definition digit (d : N) : ascii := ascii_of_N (48 + d).

Fixpoint dec_fuel (fuel : nat) (n : N) (acc : string) : string :=
  match fuel with
  | O => acc
  | S f => let acc' := String (digit (n mod 10)) acc in
           if n / 10 =? 0 then acc' else dec_fuel f (n / 10) acc'
  end.

(* the number of decimal digits never exceeds the number of binary digits *)
Definition dec (n : N) : string := dec_fuel (S (N.to_nat (N.log2 n))) n "".

(* ---- separators ---- *)

Definition hy : ascii := "-"%char.

Fixpoint no_hy (s : string) : bool :=
  match s with
  | EmptyString => true
  | String a r => negb (Ascii.eqb a hy) && no_hy r
  end.

(* split at the LAST '-' : Some (before, after) *)
Fixpoint rsplit (s : string) : option (string * string) :=
  match s with
  | EmptyString => None
  | String a r =>
      match rsplit r with
      | Some (x, y) => Some (String a x, y)
      | None => if Ascii.eqb a hy then Some (EmptyString, r) else None
      end
  end.

(* strings.Split(s, "-") : never empty *)
Fixpoint split_hy (s : string) : list string :=
  match s with
  | EmptyString => [EmptyString]
  | String a r =>
      if Ascii.eqb a hy then EmptyString :: split_hy r
      else match split_hy r with
           | h :: tl => String a h :: tl
           | [] => [String a EmptyString]
           end
  end.

(* ---- strconv.ParseInt(part, 10, 8), then "msgType > int64(Unknown) -> error" (Unknown = 13).
   The part lies between two separators, so it never contains '-' (a '-' is treated like any other
   non-digit); an optional '+' is accepted by ParseInt; base 10 does not accept underscores. ---- *)

Definition digit_val (a : ascii) : option N :=
  let n := N_of_ascii a in
  if (48 <=? n) && (n <=? 57) then Some (n - 48) else None.

Fixpoint digits_val (s : string) (acc : N) : option N :=
  match s with
  | EmptyString => Some acc
  | String a r => match digit_val a with
                  | Some d => digits_val r (acc * 10 + d)
                  | None => None
                  end
  end.

Definition unknown_type : N := 13.

Definition parse_type (s : string) : option N :=
  let body := match s with
              | String a r => if Ascii.eqb a "+"%char then r else s
              | EmptyString => s
              end in
  match body with
  | EmptyString => None
  | _ => match digits_val body 0 with
         | Some v => if v <=? 127 then (if v <=? unknown_type then Some v else None) else None
         | None => None
         end
  end.

(* ---- subscription ids ---- *)

Definition mk_id (s : string) (t : N) (i : string) : string :=
  (s ++ String hy (dec t ++ String hy i))%string.

Definition sub_id (s : string) (t u : N) : string := mk_id s t (dec u).

Definition unwrap (id : string) : option (string * N * string) :=
  match rsplit id with
  | Some (rest, ident) =>
      match rsplit rest with
      | Some (sess, ty) =>
          match parse_type ty with
          | Some t => Some (sess, t, ident)
          | None => None
          end
      | None => None
      end
  | None => None
  end.

Definition old_unwrap (id : string) : option (string * N * string) :=
  match split_hy id with
  | [sess; ty; ident] =>
      match parse_type ty with
      | Some t => Some (sess, t, ident)
      | None => None
      end
  | _ => None
  end.

(* ---- the subscription table ---- *)

Record entry := mk_entry { e_s : string; e_t : N; e_i : string; e_c : N }.

Definition key_eqb (s : string) (t : N) (i : string) (e : entry) : bool :=
  String.eqb (e_s e) s && N.eqb (e_t e) t && String.eqb (e_i e) i.

(* Go map assignment: an existing key keeps its place and gets the new channel *)
Fixpoint put (s : string) (t : N) (i : string) (c : N) (l : list entry) : list entry :=
  match l with
  | [] => [mk_entry s t i c]
  | e :: r => if key_eqb s t i e then mk_entry s t i c :: r else e :: put s t i c r
  end.

Definition del (s : string) (t : N) (i : string) (l : list entry) : list entry :=
  filter (fun e => negb (key_eqb s t i e)) l.

Definition st_eqb (s : string) (t : N) (e : entry) : bool :=
  String.eqb (e_s e) s && N.eqb (e_t e) t.

Definition subscribers (s : string) (t : N) (l : list entry) : list N :=
  map e_c (filter (st_eqb s t) l).

(* ---- operations ---- *)

Inductive op :=
| Sub (s : string) (t u c : N)     (* subscribe channel c; u = the observed unique component *)
| Unsub (k : nat)                  (* cancel with the id returned by the k-th Sub of the history *)
| Deliver (s : string) (t : N).    (* an inbound message of that session and type *)

(* concrete state: the table and the ids returned so far *)
Definition cstate := (list entry * list string)%type.
Definition c_init : cstate := ([], []).

Section Machine.
  Variable uw : string -> option (string * N * string).   (* unwrap or old_unwrap *)

  Definition ident_of (id : string) : string :=
    match uw id with Some (_, _, i) => i | None => EmptyString end.

  Definition step_c (st : cstate) (o : op) : cstate :=
    let '(tbl, ids) := st in
    match o with
    | Sub s t u c => let id := sub_id s t u in (put s t (ident_of id) c tbl, ids ++ [id])
    | Unsub k =>
        match nth_error ids k with
        | Some id => match uw id with
                     | Some (s, t, i) => (del s t i tbl, ids)
                     | None => st
                     end
        | None => st
        end
    | Deliver _ _ => st
    end.

  Definition run_c (st : cstate) (ops : list op) : cstate := fold_left step_c ops st.
End Machine.

(* ---- the specification: the live subscriptions, each with the handle (index of its Sub) ---- *)

Record sub := mk_sub { a_k : nat; a_s : string; a_t : N; a_c : N }.
Definition astate := (list sub * nat)%type.
Definition a_init : astate := ([], O).

Definition step_a (st : astate) (o : op) : astate :=
  let '(live, next) := st in
  match o with
  | Sub s t _ c => (live ++ [mk_sub next s t c], S next)
  | Unsub k => (filter (fun a => negb (Nat.eqb (a_k a) k)) live, next)
  | Deliver _ _ => st
  end.

Definition run_a (st : astate) (ops : list op) : astate := fold_left step_a ops st.

Definition sta_eqb (s : string) (t : N) (a : sub) : bool :=
  String.eqb (a_s a) s && N.eqb (a_t a) t.

Definition spec_subscribers (s : string) (t : N) (live : list sub) : list N :=
  map a_c (filter (sta_eqb s t) live).

(* abstraction: forget identifiers / handles *)
Definition abs_c (tbl : list entry) : list (string * N * N) := map (fun e => (e_s e, e_t e, e_c e)) tbl.
Definition abs_a (live : list sub) : list (string * N * N) := map (fun a => (a_s a, a_t a, a_c a)) live.

(* ---- hypotheses on an operation list, as a boolean: declared message types only, and Subscribe
   never returns an id it returned before (the freshness of uint32(now) is assumed, not proved) ---- *)

Definition mem_str (x : string) (l : list string) : bool := existsb (String.eqb x) l.

Fixpoint wf_from (ids : list string) (ops : list op) : bool :=
  match ops with
  | [] => true
  | Sub s t u c :: r =>
      (t <=? unknown_type) && negb (mem_str (sub_id s t u) ids) && wf_from (ids ++ [sub_id s t u]) r
  | _ :: r => wf_from ids r
  end.

Definition wf_ops (ops : list op) : bool := wf_from [] ops.

(* ---- observations after each operation (what the runner records from the real code) ----
   view : for every (session,type) of a fixed universe the sorted subscriber list;
   got  : for Deliver, the sorted list of channels that received the message. *)

Fixpoint insert_sorted (x : N) (l : list N) : list N :=
  match l with
  | [] => [x]
  | y :: r => if x <=? y then x :: l else y :: insert_sorted x r
  end.
Definition sort (l : list N) : list N := fold_right insert_sorted [] l.

Definition univ := list (string * N).

Record obs := mk_obs { o_id : string; o_view : list (list N); o_got : list N }.

Definition view_c (U : univ) (tbl : list entry) : list (list N) :=
  map (fun p => sort (subscribers (fst p) (snd p) tbl)) U.
Definition view_a (U : univ) (live : list sub) : list (list N) :=
  map (fun p => sort (spec_subscribers (fst p) (snd p) live)) U.

Definition id_of_op (o : op) : string :=
  match o with Sub s t u _ => sub_id s t u | _ => EmptyString end.

Section Trace.
  Variable uw : string -> option (string * N * string).
  Variable U : univ.

  Fixpoint trace_c (st : cstate) (ops : list op) : list obs :=
    match ops with
    | [] => []
    | o :: r =>
        let st' := step_c uw st o in
        mk_obs (id_of_op o) (view_c U (fst st'))
               (match o with Deliver s t => sort (subscribers s t (fst st')) | _ => [] end)
        :: trace_c st' r
    end.
End Trace.

(* what the specification allows to be observed: ids are not constrained by it *)
Fixpoint trace_a (U : univ) (st : astate) (ops : list op) : list (list (list N) * list N) :=
  match ops with
  | [] => []
  | o :: r =>
      let st' := step_a st o in
      (view_a U (fst st'),
       match o with Deliver s t => sort (spec_subscribers s t (fst st')) | _ => [] end)
      :: trace_a U st' r
  end.

Fixpoint listN_eqb (a b : list N) : bool :=
  match a, b with
  | [], [] => true
  | x :: a', y :: b' => N.eqb x y && listN_eqb a' b'
  | _, _ => false
  end.

Fixpoint view_eqb (a b : list (list N)) : bool :=
  match a, b with
  | [], [] => true
  | x :: a', y :: b' => listN_eqb x y && view_eqb a' b'
  | _, _ => false
  end.

(* The judge: the observed views and receipts (sorted by the runner) are exactly those of the
   specification. *)
Fixpoint trace_ok (spec : list (list (list N) * list N)) (impl : list obs) : bool :=
  match spec, impl with
  | [], [] => true
  | (v, g) :: spec', o :: impl' =>
      view_eqb v (o_view o) && listN_eqb g (o_got o) && trace_ok spec' impl'
  | _, _ => false
  end.

Definition judge_ops (U : univ) (ops : list op) (impl : list obs) : bool :=
  trace_ok (trace_a U a_init ops) impl.

(* unwrap on an id built by NewSubscriptionID: the specification of Unwrap *)
Definition unwrap_ok (s : string) (t u : N) (r : option (string * N * string)) : bool :=
  if t <=? unknown_type then
    match r with
    | Some (s', t', i') => String.eqb s' s && N.eqb t' t && String.eqb i' (dec u)
    | None => false
    end
  else true.

(* ---- several inbound messages in flight at once (comm/p2p/libp2p.go ProcessMessagesFromStream:
   for every decoded message one goroutine per subscriber sends a pointer to THAT message's own
   struct; the table does not change while the messages are in flight).  Whatever the relative
   timing of the decoder(s) and the receivers, a channel ends up having received, as a multiset,
   one copy of every message for every subscription it holds on the message's (session, type).
   A message is (session, type, payload, remote peer of the stream it came in on); what a channel
   received has the same shape (From of the received struct mapped back to the peer's number). ---- *)

Definition msg := (string * N * string * N)%type.

Definition msg_eqb (a b : msg) : bool :=
  let '(s, t, p, f) := a in
  let '(s', t', p', f') := b in
  String.eqb s s' && N.eqb t t' && String.eqb p p' && N.eqb f f'.

Definition copies (c : N) (l : list N) : nat := List.length (filter (N.eqb c) l).

Section Fan.
  Variable subs : string -> N -> list N.   (* subscribers of the table / of the specification *)
  Definition recv_of (msgs : list msg) (c : N) : list msg :=
    flat_map (fun m => repeat m (copies c (subs (fst (fst (fst m))) (snd (fst (fst m)))))) msgs.
End Fan.

Definition recv_c (tbl : list entry) : list msg -> N -> list msg :=
  recv_of (fun s t => subscribers s t tbl).
Definition recv_a (live : list sub) : list msg -> N -> list msg :=
  recv_of (fun s t => spec_subscribers s t live).

(* multisets of received messages: order of receipt is not specified *)
Definition count_m (x : msg) (l : list msg) : nat := List.length (filter (msg_eqb x) l).

Definition mset_eqb (a b : list msg) : bool :=
  forallb (fun x => Nat.eqb (count_m x a) (count_m x b)) (a ++ b).

Fixpoint all2 {A B : Type} (f : A -> B -> bool) (la : list A) (lb : list B) : bool :=
  match la, lb with
  | [], [] => true
  | a :: la', b :: lb' => f a b && all2 f la' lb'
  | _, _ => false
  end.

(* The judge for a burst: for every channel of [chans] (all channels of the history), what it
   received is, as a multiset, what the specification's live subscriptions entitle it to. *)
Definition fan_ok (expect : N -> list msg) (chans : list N) (impl : list (list msg)) : bool :=
  all2 (fun c got => mset_eqb (expect c) got) chans impl.

Definition judge_fan (ops : list op) (msgs : list msg) (chans : list N) (impl : list (list msg)) : bool :=
  fan_ok (recv_a (fst (run_a a_init ops)) msgs) chans impl.

(* ---- the table changes BETWEEN the messages of a stream (comm/p2p/libp2p.go
   ProcessMessagesFromStream: GetSubscribers is called anew for every decoded message, so a message
   goes to the subscriptions live at the moment IT is decoded - whatever was subscribed or cancelled
   since the previous message of the same stream, same (session, type) or not).  An interleaved
   script: table operations and messages in the order in which they happened (a message = the moment
   its fan-out was started; an operation issued strictly between two messages). ---- *)

Inductive fev :=
| FOp (o : op)      (* Sub / Unsub on the table *)
| FMsg (m : msg).   (* a message decoded at this point *)

Definition fops (evs : list fev) : list op :=
  flat_map (fun e => match e with FOp o => [o] | FMsg _ => [] end) evs.

Definition m_sess (m : msg) : string := fst (fst (fst m)).
Definition m_type (m : msg) : N := snd (fst (fst m)).

Section FanI.
  Context {X : Type}.
  Variable stepX : X -> op -> X.
  Variable subsX : X -> string -> N -> list N.
  (* what channel c is handed over the whole script, started in state st *)
  Fixpoint recvi_of (st : X) (evs : list fev) (c : N) : list msg :=
    match evs with
    | [] => []
    | FOp o :: r => recvi_of (stepX st o) r c
    | FMsg m :: r => repeat m (copies c (subsX st (m_sess m) (m_type m))) ++ recvi_of st r c
    end.
End FanI.

Definition recvi_c : cstate -> list fev -> N -> list msg :=
  recvi_of (step_c unwrap) (fun st s t => subscribers s t (fst st)).
Definition recvi_a : astate -> list fev -> N -> list msg :=
  recvi_of step_a (fun st s t => spec_subscribers s t (fst st)).

(* The judge for an interleaved script: per channel, the multiset received is the one the
   specification's live subscriptions AT THE TIME OF EACH MESSAGE entitle it to. *)
Definition judge_fani (evs : list fev) (chans : list N) (impl : list (list msg)) : bool :=
  fan_ok (recvi_a a_init evs) chans impl.

(* ================================================================================================
   Concurrent use of the table (comm/p2p/subscription.go: every SubscribeTo / UnSubscribeFrom /
   GetSubscribers runs under the manager's mutex, so each is one atomic step on the shared table;
   comm/p2p/libp2p.go: Libp2pCommunication is copied by value on every call, the copies share the
   map AND the mutex).  Several threads, each running its own sequential program; a thread cancels
   only subscriptions it made itself (Unsub k = the k-th Sub of THAT thread) and a channel is
   subscribed by one thread only ("owned").  Whatever the interleaving, the specification then fixes
     - how often each of its own channels occurs in anything a thread looks up (its own history
       alone decides that), and an upper bound for foreign channels;
     - the table once all threads have finished.
   ================================================================================================ *)

Fixpoint nth_sub_pair (ops : list op) (k : nat) : option (string * N) :=
  match ops with
  | [] => None
  | Sub s t _ _ :: r => match k with O => Some (s, t) | S k' => nth_sub_pair r k' end
  | _ :: r => nth_sub_pair r k
  end.

(* the (session, type) a thread looks up after an operation *)
Definition op_pair (own : list op) (o : op) : option (string * N) :=
  match o with
  | Sub s t _ _ => Some (s, t)
  | Deliver s t => Some (s, t)
  | Unsub k => nth_sub_pair own k
  end.

Definition owns (own : list op) (c : N) : bool :=
  existsb (fun o => match o with Sub _ _ _ c' => N.eqb c' c | _ => false end) own.

(* the channels ever subscribed to (s, t) by the operations [all], with multiplicity
   (nested ifs: evaluation in the kernel is strict, the string comparison is the expensive one) *)
Definition sub_chans (s : string) (t : N) (all : list op) : list N :=
  flat_map (fun o => match o with
                     | Sub s' t' _ c => if N.eqb t' t then if String.eqb s' s then [c] else [] else []
                     | _ => []
                     end) all.

(* one lookup by the thread with program [own]: v = the channels found (any order); mine = the
   channels its own live subscriptions put on the looked-up (session, type); cand = the channels
   ever subscribed to that (session, type) by anybody *)
Definition look_ok (own : list op) (cand mine v : list N) : bool :=
  forallb (fun c => if owns own c then Nat.eqb (copies c v) (copies c mine)
                    else Nat.leb (copies c v) (copies c cand))
          (v ++ mine).

Section ThreadJudge.
  Context {X : Type}.
  Variable stepX : X -> op -> X.
  Variable subsX : X -> string -> N -> list N.
  Variable candf : string -> N -> list N.
  Variable own : list op.

  (* impl: per operation the lookups made right after it ([view] or, for a delivery, [view; receipts]) *)
  Fixpoint thread_ok_gen (st : X) (ops : list op) (impl : list (list (list N))) : bool :=
    match ops, impl with
    | [], [] => true
    | o :: r, ob :: impl' =>
        let st' := stepX st o in
        match op_pair own o with
        | Some (s, t) =>
            let cand := candf s t in
            let mine := subsX st' s t in
            negb (Nat.eqb (List.length ob) 0) && forallb (look_ok own cand mine) ob
        | None => true
        end && thread_ok_gen st' r impl'
    | _, _ => false
    end.
End ThreadJudge.

Definition thread_ok (all own : list op) (impl : list (list (list N))) : bool :=
  thread_ok_gen step_a (fun st s t => spec_subscribers s t (fst st)) (fun s t => sub_chans s t all)
                own a_init own impl.

Definition counts_eqb (a b : list N) : bool :=
  forallb (fun c => Nat.eqb (copies c a) (copies c b)) (a ++ b).

(* the table when every thread has finished: the live subscriptions of all of them *)
Definition conc_final (s : string) (t : N) (ths : list (list op)) : list N :=
  flat_map (fun ops => spec_subscribers s t (fst (run_a a_init ops))) ths.

(* The judge of a concurrent run: the process survived, no data race on the table was reported,
   every lookup of every thread and the final table are the specified ones. *)
Definition judge_conc (ths : list (list op)) (impl : list (list (list (list N)))) (U : univ)
           (final : list (list N)) (crashed : bool) (races : nat) : bool :=
  negb crashed && Nat.eqb races 0 &&
  all2 (fun own ob => thread_ok (List.concat ths) own ob) ths impl &&
  all2 (fun p v => counts_eqb v (conc_final (fst p) (snd p) ths)) U final.

(* the same function, evaluated faster: sub_chans is computed once per pair of U *)
Definition cand_cache := list (string * N * list N).
Definition build_cache (U : univ) (all : list op) : cand_cache :=
  map (fun p => (fst p, snd p, sub_chans (fst p) (snd p) all)) U.
Fixpoint cache_get (tb : cand_cache) (all : list op) (s : string) (t : N) : list N :=
  match tb with
  | [] => sub_chans s t all
  | (s', t', l) :: r => if N.eqb t' t then if String.eqb s' s then l else cache_get r all s t
                        else cache_get r all s t
  end.

Definition judge_conc_fast (ths : list (list op)) (impl : list (list (list (list N)))) (U : univ)
           (final : list (list N)) (crashed : bool) (races : nat) : bool :=
  let all := List.concat ths in
  let tb := build_cache U all in
  negb crashed && Nat.eqb races 0 &&
  all2 (fun own ob => thread_ok_gen step_a (fun st s t => spec_subscribers s t (fst st))
                                    (cache_get tb all) own a_init own ob) ths impl &&
  all2 (fun p v => counts_eqb v (conc_final (fst p) (snd p) ths)) U final.

(* ---- the model of a concurrent run: a schedule picks the thread that takes the next atomic step
   on the ONE shared table.  g_hist is the history of the shared table (thread-local handles
   translated to the shared table's handles through th_hm); th_obs is what the thread looked up
   right after each of its operations; g_tl (ghost) lists the live subscriptions tagged with the
   thread and the thread-local handle. ---- *)

Record thr := mk_thr { th_ops : list op; th_done : nat; th_hm : list nat; th_obs : list (list (list N)) }.
Record gst := mk_gst { g_hist : list op; g_next : nat; g_thr : list thr; g_tl : list (nat * sub) }.

Fixpoint upd {A : Type} (l : list A) (i : nat) (x : A) : list A :=
  match l, i with
  | [], _ => []
  | _ :: r, O => x :: r
  | y :: r, S i' => y :: upd r i' x
  end.

Definition obs_of (tbl : list entry) (own : list op) (o : op) : list (list N) :=
  match op_pair own o with
  | Some (s, t) => let v := sort (subscribers s t tbl) in
                   match o with Deliver _ _ => [v; v] | _ => [v] end
  | None => []
  end.

Definition sched_step (g : gst) (i : nat) : gst :=
  match nth_error (g_thr g) i with
  | None => g
  | Some th =>
      match nth_error (th_ops th) (th_done th) with
      | None => g                                  (* the thread has finished *)
      | Some o =>
          let k := List.length (th_hm th) in
          let '(gops, hm', n', tl') :=
            match o with
            | Sub s t u c => ([o], th_hm th ++ [g_next g], S (g_next g), g_tl g ++ [(i, mk_sub k s t c)])
            | Unsub j => (match nth_error (th_hm th) j with Some gj => [Unsub gj] | None => [] end,
                          th_hm th, g_next g,
                          filter (fun x => negb (Nat.eqb (fst x) i && Nat.eqb (a_k (snd x)) j)) (g_tl g))
            | Deliver _ _ => ([o], th_hm th, g_next g, g_tl g)
            end in
          let hist' := g_hist g ++ gops in
          let ob := obs_of (fst (run_c unwrap c_init hist')) (th_ops th) o in
          mk_gst hist' n' (upd (g_thr g) i (mk_thr (th_ops th) (S (th_done th)) hm' (th_obs th ++ [ob]))) tl'
      end
  end.

Definition g_init (ths : list (list op)) : gst :=
  mk_gst [] O (map (fun ops => mk_thr ops O [] []) ths) [].

Definition sched (sigma : list nat) (ths : list (list op)) : gst := fold_left sched_step sigma (g_init ths).

(* how many operations of its program thread i has done *)
Definition progress (g : gst) (i : nat) : nat :=
  match nth_error (g_thr g) i with Some th => th_done th | None => O end.

Definition own_state (g : gst) (ths : list (list op)) (i : nat) : astate :=
  run_a a_init (firstn (progress g i) (nth i ths [])).

(* channels are subscribed by one thread only *)
Definition wf_own (ths : list (list op)) : Prop :=
  forall i j c, i <> j -> owns (nth i ths []) c = true -> owns (nth j ths []) c = true -> False.

(* boolean form of wf_own (what the generator guarantees: channel numbers carry the thread) *)
Definition chans_of (ops : list op) : list N :=
  flat_map (fun o => match o with Sub _ _ _ c => [c] | _ => [] end) ops.

Fixpoint wf_ownb (ths : list (list op)) : bool :=
  match ths with
  | [] => true
  | x :: r => forallb (fun c => forallb (fun y => negb (owns y c)) r) (chans_of x) && wf_ownb r
  end.

(* a schedule that lets every thread finish *)
Definition complete (g : gst) (ths : list (list op)) : Prop :=
  forall i, (i < List.length ths)%nat -> progress g i = List.length (nth i ths []).

(* what the model of a concurrent run observes: per thread its lookups, and the table at the end *)
Definition conc_obs (g : gst) : list (list (list (list N))) := map th_obs (g_thr g).
Definition conc_final_obs (g : gst) (U : univ) : list (list N) :=
  map (fun p => sort (subscribers (fst p) (snd p) (fst (run_c unwrap c_init (g_hist g))))) U.

(* ================================================================================================
   The OTHER operations of the communication layer (comm/communication.go: Broadcast, CloseSession;
   comm/health.go: ExecuteCommHealthCheck; comm/p2p/libp2p.go: StreamHandlerFunc on a stream that
   carries no message).  As coded:
     CloseSession(s)   c.streamManager.ReleaseStreams(s): closes and forgets the OUTBOUND streams of
                       the session - the subscription table is not touched
     Broadcast(..)     marshals, opens / reuses outbound streams, writes - reads nothing of the table
     health check      Broadcast of an Unknown-type message to every peer, then CloseSession
     stream handler    ProcessMessagesFromStream returns at the first read / decode error
   The property's frame condition: who is subscribed is changed by subscribe and cancel ONLY.  Both
   the model of the code and the specification step over these operations without changing their
   state; the runner still looks at the table (and, in the interleaved scripts, keeps sending
   messages) after each of them.
   ================================================================================================ *)

Inductive other :=
| OClose (s : string)                          (* CloseSession(s) *)
| OBcast (s : string) (t : N) (to : list N)    (* Broadcast(to, payload, t, s); to = peer numbers *)
| OHealth (to : list N)                        (* comm.ExecuteCommHealthCheck(communication, to) *)
| OHandler (data : string).                    (* StreamHandlerFunc on an inbound stream with these bytes (no complete message) *)

Inductive xop :=
| XOp (o : op)
| XOther (k : other).

Definition xops_of (xs : list xop) : list op :=
  flat_map (fun x => match x with XOp o => [o] | XOther _ => [] end) xs.

Definition step_xc (uw : string -> option (string * N * string)) (st : cstate) (x : xop) : cstate :=
  match x with XOp o => step_c uw st o | XOther _ => st end.
Definition step_xa (st : astate) (x : xop) : astate :=
  match x with XOp o => step_a st o | XOther _ => st end.

Definition run_xc (uw : string -> option (string * N * string)) (st : cstate) (xs : list xop) : cstate :=
  fold_left (step_xc uw) xs st.
Definition run_xa (st : astate) (xs : list xop) : astate := fold_left step_xa xs st.

(* what is observed after every operation, the other ones included: the subscriber lists of the
   universe (and the receipts of a delivery) *)
Fixpoint xtrace_c (uw : string -> option (string * N * string)) (U : univ) (st : cstate) (xs : list xop) : list obs :=
  match xs with
  | [] => []
  | x :: r =>
      let st' := step_xc uw st x in
      mk_obs (match x with XOp o => id_of_op o | XOther _ => EmptyString end) (view_c U (fst st'))
             (match x with XOp (Deliver s t) => sort (subscribers s t (fst st')) | _ => [] end)
      :: xtrace_c uw U st' r
  end.

Fixpoint xtrace_a (U : univ) (st : astate) (xs : list xop) : list (list (list N) * list N) :=
  match xs with
  | [] => []
  | x :: r =>
      let st' := step_xa st x in
      (view_a U (fst st'),
       match x with XOp (Deliver s t) => sort (spec_subscribers s t (fst st')) | _ => [] end)
      :: xtrace_a U st' r
  end.

Definition judge_xops (U : univ) (xs : list xop) (impl : list obs) : bool :=
  trace_ok (xtrace_a U a_init xs) impl.

(* interleaved scripts with other operations between the messages of the streams *)
Inductive xfev :=
| XEv (e : fev)
| XOth (k : other).

Definition xfevs_of (xs : list xfev) : list fev :=
  flat_map (fun x => match x with XEv e => [e] | XOth _ => [] end) xs.

Section FanIX.
  Context {X : Type}.
  Variable stepX : X -> op -> X.
  Variable subsX : X -> string -> N -> list N.
  Fixpoint recvix_of (st : X) (xs : list xfev) (c : N) : list msg :=
    match xs with
    | [] => []
    | XEv (FOp o) :: r => recvix_of (stepX st o) r c
    | XEv (FMsg m) :: r => repeat m (copies c (subsX st (m_sess m) (m_type m))) ++ recvix_of st r c
    | XOth _ :: r => recvix_of st r c
    end.
End FanIX.

Definition recvix_c : cstate -> list xfev -> N -> list msg :=
  recvix_of (step_c unwrap) (fun st s t => subscribers s t (fst st)).
Definition recvix_a : astate -> list xfev -> N -> list msg :=
  recvix_of step_a (fun st s t => spec_subscribers s t (fst st)).

Definition judge_fanix (xs : list xfev) (chans : list N) (impl : list (list msg)) : bool :=
  fan_ok (recvix_a a_init xs) chans impl.
