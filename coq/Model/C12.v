(* C12 - messages reach exactly the current subscribers of their session and type.
   Executable model of the subscription ids and of the subscription table.  Definitions only;
   proofs are in Proofs/C12.v.

   Source anchors (Go):
     sub_id        comm/subID.go            NewSubscriptionID: fmt.Sprintf("%s-%d-%d", session, type, uint32(now))
     unwrap        comm/subID.go            Unwrap (repaired code: the LAST two separators delimit type and identifier)
     old_unwrap    comm/subID.go            Unwrap as it was: strings.Split on every '-', exactly three parts demanded
     parse_type    comm/subID.go            strconv.ParseInt(part, 10, 8) followed by the "> Unknown" guard
     step (Sub)    comm/p2p/subscription.go SubscribeTo:    table[session][type][identifier-of-new-id] = channel
     step (Unsub)  comm/p2p/subscription.go UnSubscribeFrom: Unwrap; on error return; delete table[s][t][identifier]
     subscribers   comm/p2p/subscription.go GetSubscribers (Go map order is arbitrary: compared as sorted lists)
     step (Deliver) comm/p2p/libp2p.go      ProcessMessagesFromStream: one copy to every GetSubscribers(session,type)

   The unique component u = uint32(time.Now().UnixNano()) is an INPUT of the model (the runner feeds
   the value observed in the id the implementation returned).                                        *)
From Coq Require Import List NArith Bool String Ascii.
Import ListNotations.
Local Open Scope string_scope.
Local Open Scope N_scope.
Local Open Scope list_scope.

(* ---- decimal printing (fmt %d of an unsigned value) ---- *)

Definition digit (d : N) : ascii := ascii_of_N (48 + d).

Fixpoint dec_fuel (fuel : nat) (n : N) (acc : string) : string :=
  match fuel with
  | O => acc
  | S f => let acc' := String (digit (n mod 10)) acc in
           if n / 10 =? 0 then acc' else dec_fuel f (n / 10) acc'
  end.

(* the number of decimal digits never exceeds the number of binary digits *)
Definition dec (n : N) : string := dec_fuel (S (N.to_nat (N.log2 n))) n "".

(* ---- separators ---- *)

Definition hy : ascii := "-"%char.

Fixpoint no_hy (s : string) : bool :=
  match s with
  | EmptyString => true
  | String a r => negb (Ascii.eqb a hy) && no_hy r
  end.

(* split at the LAST '-' : Some (before, after) *)
Fixpoint rsplit (s : string) : option (string * string) :=
  match s with
  | EmptyString => None
  | String a r =>
      match rsplit r with
      | Some (x, y) => Some (String a x, y)
      | None => if Ascii.eqb a hy then Some (EmptyString, r) else None
      end
  end.

(* strings.Split(s, "-") : never empty *)
Fixpoint split_hy (s : string) : list string :=
  match s with
  | EmptyString => [EmptyString]
  | String a r =>
      if Ascii.eqb a hy then EmptyString :: split_hy r
      else match split_hy r with
           | h :: tl => String a h :: tl
           | [] => [String a EmptyString]
           end
  end.

(* ---- strconv.ParseInt(part, 10, 8), then "msgType > int64(Unknown) -> error" (Unknown = 13).
   The part lies between two separators, so it never contains '-' (a '-' is treated like any other
   non-digit); an optional '+' is accepted by ParseInt; base 10 does not accept underscores. ---- *)

Definition digit_val (a : ascii) : option N :=
  let n := N_of_ascii a in
  if (48 <=? n) && (n <=? 57) then Some (n - 48) else None.

Fixpoint digits_val (s : string) (acc : N) : option N :=
  match s with
  | EmptyString => Some acc
  | String a r => match digit_val a with
                  | Some d => digits_val r (acc * 10 + d)
                  | None => None
                  end
  end.

Definition unknown_type : N := 13.

Definition parse_type (s : string) : option N :=
  let body := match s with
              | String a r => if Ascii.eqb a "+"%char then r else s
              | EmptyString => s
              end in
  match body with
  | EmptyString => None
  | _ => match digits_val body 0 with
         | Some v => if v <=? 127 then (if v <=? unknown_type then Some v else None) else None
         | None => None
         end
  end.

(* ---- subscription ids ---- *)

Definition mk_id (s : string) (t : N) (i : string) : string :=
  (s ++ String hy (dec t ++ String hy i))%string.

Definition sub_id (s : string) (t u : N) : string := mk_id s t (dec u).

Definition unwrap (id : string) : option (string * N * string) :=
  match rsplit id with
  | Some (rest, ident) =>
      match rsplit rest with
      | Some (sess, ty) =>
          match parse_type ty with
          | Some t => Some (sess, t, ident)
          | None => None
          end
      | None => None
      end
  | None => None
  end.

Definition old_unwrap (id : string) : option (string * N * string) :=
  match split_hy id with
  | [sess; ty; ident] =>
      match parse_type ty with
      | Some t => Some (sess, t, ident)
      | None => None
      end
  | _ => None
  end.

(* ---- the subscription table ---- *)

Record entry := mk_entry { e_s : string; e_t : N; e_i : string; e_c : N }.

Definition key_eqb (s : string) (t : N) (i : string) (e : entry) : bool :=
  String.eqb (e_s e) s && N.eqb (e_t e) t && String.eqb (e_i e) i.

(* Go map assignment: an existing key keeps its place and gets the new channel *)
Fixpoint put (s : string) (t : N) (i : string) (c : N) (l : list entry) : list entry :=
  match l with
  | [] => [mk_entry s t i c]
  | e :: r => if key_eqb s t i e then mk_entry s t i c :: r else e :: put s t i c r
  end.

Definition del (s : string) (t : N) (i : string) (l : list entry) : list entry :=
  filter (fun e => negb (key_eqb s t i e)) l.

Definition st_eqb (s : string) (t : N) (e : entry) : bool :=
  String.eqb (e_s e) s && N.eqb (e_t e) t.

Definition subscribers (s : string) (t : N) (l : list entry) : list N :=
  map e_c (filter (st_eqb s t) l).

(* ---- operations ---- *)

Inductive op :=
| Sub (s : string) (t u c : N)     (* subscribe channel c; u = the observed unique component *)
| Unsub (k : nat)                  (* cancel with the id returned by the k-th Sub of the history *)
| Deliver (s : string) (t : N).    (* an inbound message of that session and type *)

(* concrete state: the table and the ids returned so far *)
Definition cstate := (list entry * list string)%type.
Definition c_init : cstate := ([], []).

Section Machine.
  Variable uw : string -> option (string * N * string).   (* unwrap or old_unwrap *)

  Definition ident_of (id : string) : string :=
    match uw id with Some (_, _, i) => i | None => EmptyString end.

  Definition step_c (st : cstate) (o : op) : cstate :=
    let '(tbl, ids) := st in
    match o with
    | Sub s t u c => let id := sub_id s t u in (put s t (ident_of id) c tbl, ids ++ [id])
    | Unsub k =>
        match nth_error ids k with
        | Some id => match uw id with
                     | Some (s, t, i) => (del s t i tbl, ids)
                     | None => st
                     end
        | None => st
        end
    | Deliver _ _ => st
    end.

  Definition run_c (st : cstate) (ops : list op) : cstate := fold_left step_c ops st.
End Machine.

(* ---- the specification: the live subscriptions, each with the handle (index of its Sub) ---- *)

Record sub := mk_sub { a_k : nat; a_s : string; a_t : N; a_c : N }.
Definition astate := (list sub * nat)%type.
Definition a_init : astate := ([], O).

Definition step_a (st : astate) (o : op) : astate :=
  let '(live, next) := st in
  match o with
  | Sub s t _ c => (live ++ [mk_sub next s t c], S next)
  | Unsub k => (filter (fun a => negb (Nat.eqb (a_k a) k)) live, next)
  | Deliver _ _ => st
  end.

Definition run_a (st : astate) (ops : list op) : astate := fold_left step_a ops st.

Definition sta_eqb (s : string) (t : N) (a : sub) : bool :=
  String.eqb (a_s a) s && N.eqb (a_t a) t.

Definition spec_subscribers (s : string) (t : N) (live : list sub) : list N :=
  map a_c (filter (sta_eqb s t) live).

(* abstraction: forget identifiers / handles *)
Definition abs_c (tbl : list entry) : list (string * N * N) := map (fun e => (e_s e, e_t e, e_c e)) tbl.
Definition abs_a (live : list sub) : list (string * N * N) := map (fun a => (a_s a, a_t a, a_c a)) live.

(* ---- hypotheses on an operation list, as a boolean: declared message types only, and Subscribe
   never returns an id it returned before (the freshness of uint32(now) is assumed, not proved) ---- *)

Definition mem_str (x : string) (l : list string) : bool := existsb (String.eqb x) l.

Fixpoint wf_from (ids : list string) (ops : list op) : bool :=
  match ops with
  | [] => true
  | Sub s t u c :: r =>
      (t <=? unknown_type) && negb (mem_str (sub_id s t u) ids) && wf_from (ids ++ [sub_id s t u]) r
  | _ :: r => wf_from ids r
  end.

Definition wf_ops (ops : list op) : bool := wf_from [] ops.

(* ---- observations after each operation (what the runner records from the real code) ----
   view : for every (session,type) of a fixed universe the sorted subscriber list;
   got  : for Deliver, the sorted list of channels that received the message. *)

Fixpoint insert_sorted (x : N) (l : list N) : list N :=
  match l with
  | [] => [x]
  | y :: r => if x <=? y then x :: l else y :: insert_sorted x r
  end.
Definition sort (l : list N) : list N := fold_right insert_sorted [] l.

Definition univ := list (string * N).

Record obs := mk_obs { o_id : string; o_view : list (list N); o_got : list N }.

Definition view_c (U : univ) (tbl : list entry) : list (list N) :=
  map (fun p => sort (subscribers (fst p) (snd p) tbl)) U.
Definition view_a (U : univ) (live : list sub) : list (list N) :=
  map (fun p => sort (spec_subscribers (fst p) (snd p) live)) U.

Definition id_of_op (o : op) : string :=
  match o with Sub s t u _ => sub_id s t u | _ => EmptyString end.

Section Trace.
  Variable uw : string -> option (string * N * string).
  Variable U : univ.

  Fixpoint trace_c (st : cstate) (ops : list op) : list obs :=
    match ops with
    | [] => []
    | o :: r =>
        let st' := step_c uw st o in
        mk_obs (id_of_op o) (view_c U (fst st'))
               (match o with Deliver s t => sort (subscribers s t (fst st')) | _ => [] end)
        :: trace_c st' r
    end.
End Trace.

(* what the specification allows to be observed: ids are not constrained by it *)
Fixpoint trace_a (U : univ) (st : astate) (ops : list op) : list (list (list N) * list N) :=
  match ops with
  | [] => []
  | o :: r =>
      let st' := step_a st o in
      (view_a U (fst st'),
       match o with Deliver s t => sort (spec_subscribers s t (fst st')) | _ => [] end)
      :: trace_a U st' r
  end.

Fixpoint listN_eqb (a b : list N) : bool :=
  match a, b with
  | [], [] => true
  | x :: a', y :: b' => N.eqb x y && listN_eqb a' b'
  | _, _ => false
  end.

Fixpoint view_eqb (a b : list (list N)) : bool :=
  match a, b with
  | [], [] => true
  | x :: a', y :: b' => listN_eqb x y && view_eqb a' b'
  | _, _ => false
  end.

(* The judge: the observed views and receipts (sorted by the runner) are exactly those of the
   specification. *)
Fixpoint trace_ok (spec : list (list (list N) * list N)) (impl : list obs) : bool :=
  match spec, impl with
  | [], [] => true
  | (v, g) :: spec', o :: impl' =>
      view_eqb v (o_view o) && listN_eqb g (o_got o) && trace_ok spec' impl'
  | _, _ => false
  end.

Definition judge_ops (U : univ) (ops : list op) (impl : list obs) : bool :=
  trace_ok (trace_a U a_init ops) impl.

(* unwrap on an id built by NewSubscriptionID: the specification of Unwrap *)
Definition unwrap_ok (s : string) (t u : N) (r : option (string * N * string)) : bool :=
  if t <=? unknown_type then
    match r with
    | Some (s', t', i') => String.eqb s' s && N.eqb t' t && String.eqb i' (dec u)
    | None => false
    end
  else true.

(* ---- several inbound messages in flight at once (comm/p2p/libp2p.go ProcessMessagesFromStream:
   for every decoded message one goroutine per subscriber sends a pointer to THAT message's own
   struct; the table does not change while the messages are in flight).  Whatever the relative
   timing of the decoder(s) and the receivers, a channel ends up having received, as a multiset,
   one copy of every message for every subscription it holds on the message's (session, type).
   A message is (session, type, payload, remote peer of the stream it came in on); what a channel
   received has the same shape (From of the received struct mapped back to the peer's number). ---- *)

Definition msg := (string * N * string * N)%type.

Definition msg_eqb (a b : msg) : bool :=
  let '(s, t, p, f) := a in
  let '(s', t', p', f') := b in
  String.eqb s s' && N.eqb t t' && String.eqb p p' && N.eqb f f'.

Definition copies (c : N) (l : list N) : nat := List.length (filter (N.eqb c) l).

Section Fan.
  Variable subs : string -> N -> list N.   (* subscribers of the table / of the specification *)
  Definition recv_of (msgs : list msg) (c : N) : list msg :=
    flat_map (fun m => repeat m (copies c (subs (fst (fst (fst m))) (snd (fst (fst m)))))) msgs.
End Fan.

Definition recv_c (tbl : list entry) : list msg -> N -> list msg :=
  recv_of (fun s t => subscribers s t tbl).
Definition recv_a (live : list sub) : list msg -> N -> list msg :=
  recv_of (fun s t => spec_subscribers s t live).

(* multisets of received messages: order of receipt is not specified *)
Definition count_m (x : msg) (l : list msg) : nat := List.length (filter (msg_eqb x) l).

Definition mset_eqb (a b : list msg) : bool :=
  forallb (fun x => Nat.eqb (count_m x a) (count_m x b)) (a ++ b).

Fixpoint all2 {A B : Type} (f : A -> B -> bool) (la : list A) (lb : list B) : bool :=
  match la, lb with
  | [], [] => true
  | a :: la', b :: lb' => f a b && all2 f la' lb'
  | _, _ => false
  end.

(* The judge for a burst: for every channel of [chans] (all channels of the history), what it
   received is, as a multiset, what the specification's live subscriptions entitle it to. *)
Definition fan_ok (expect : N -> list msg) (chans : list N) (impl : list (list msg)) : bool :=
  all2 (fun c got => mset_eqb (expect c) got) chans impl.

Definition judge_fan (ops : list op) (msgs : list msg) (chans : list N) (impl : list (list msg)) : bool :=
  fan_ok (recv_a (fst (run_a a_init ops)) msgs) chans impl.
