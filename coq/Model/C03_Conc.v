(* C03 - concurrent Bitcoin histories over ONE shared prop store, DEFINITIONS ONLY.

   The relayer has a single store.PropStore.  It is used by the BTC executor(s) (proposalsForExecution /
   storeProposalsStatus, serialised per executor by propMutex) and, without any lock, by the retry handlers of
   every chain (relayer/retry.FilterDeposits).  A thread is one such user: it performs its own list of ops
   (Model/C03.v: Deliver / ExecOk / ExecFail / Restart / Release, Bitcoin semantics) on the SHARED store with
   its OWN in-memory signing sessions.  A schedule picks which thread performs its next op; ops are atomic
   (every store call concerns one key; the interleaving of the individual calls of ops on different keys is
   covered by the commutation of such calls, Proofs/C17_Conc.v).

   Threads work on pairwise DISJOINT transfers ([t_own]) plus shared transfers [re] that are recorded executed
   at the start, which every thread may deliver / retry (and must never sign). *)
From Coq Require Import List NArith Bool.
Import ListNotations.
From SygmaV Require Import Model.C03.
Local Open Scope N_scope.

Record thread := mkthread { t_own : list key; t_ops : list op }.

(* the keys a thread can name *)
Definition t_view (re : list key) (t : thread) : list key := t_own t ++ re.

(* per thread: its live signing sessions and the ops it still has to perform *)
Definition tstate := (list key * list op)%type.
(* the shared store and the threads *)
Definition cstate := (store * list tstate)%type.

Fixpoint upd {A : Type} (i : nat) (a : A) (l : list A) : list A :=
  match l, i with
  | [], _ => []
  | _ :: r, O => a :: r
  | x :: r, S i' => x :: upd i' a r
  end.

(* thread j performs its next op on the shared store; the event: who, and what an observer of that thread
   sees - error class, signing sessions, the status of every key the thread can name *)
Definition cstep (views : list (list key)) (c : cstate) (j : nat) : cstate * option (nat * obs) :=
  match nth_error (snd c) j with
  | Some (inf, o :: r) =>
      let '(s', out) := step BTC (mkstate (fst c) inf) o in
      ((st s', upd j (inflight s', r) (snd c)),
       Some (j, mkobs (err_code out) (sessions_of out) (snapshot (nth j views []) (st s'))))
  | _ => (c, None)
  end.

Fixpoint crun (views : list (list key)) (c : cstate) (sched : list nat) : list (nat * obs) :=
  match sched with
  | [] => []
  | j :: r =>
      let '(c', e) := cstep views c j in
      match e with Some ev => ev :: crun views c' r | None => crun views c' r end
  end.

(* the history of thread i inside a concurrent run *)
Definition cproj (i : nat) (evs : list (nat * obs)) : list obs :=
  map snd (filter (fun e => Nat.eqb (fst e) i) evs).

Definition cinit (init : store) (ths : list thread) : cstate :=
  (init, map (fun t => ([], t_ops t)) ths).

(* the whole concurrent run of [ths] under [sched] *)
Definition conc_run (init : store) (re : list key) (ths : list thread) (sched : list nat) : list (nat * obs) :=
  crun (map (t_view re) ths) (cinit init ths) sched.

(* what thread t does ALONE on the initial store: the sequential model of Model/C03.v *)
Definition solo (init : store) (re : list key) (t : thread) : list obs :=
  model_obs BTC (t_view re t) (mkstate init []) (t_ops t).

(* ---- well-formed concurrent cases (boolean; the generator satisfies it, the run checks it) ---- *)
Definition disjk (a b : list key) : bool := forallb (fun k => negb (kmem k b)) a.
Fixpoint pairwise_disj (l : list (list key)) : bool :=
  match l with [] => true | x :: r => forallb (disjk x) r && pairwise_disj r end.

Definition conc_wf (init : store) (re : list key) (ths : list thread) : bool :=
  pairwise_disj (map t_own ths)                                      (* disjoint transfers per thread *)
  && forallb (fun t => disjk (t_own t) re) ths
  && forallb (fun k => is_done (lookup init k)) re                   (* the shared ones are recorded executed *)
  && forallb (fun t => wf_ops (t_view re t) (t_ops t)) ths.          (* a thread names its own and the shared ones *)

(* the judge of a concurrent case: the sequential judge of Model/C03.v on every thread's own history *)
Definition thread_ok (init : store) (re : list key) (t : thread) (os : list obs) : bool :=
  let u := t_view re t in hist_ok BTC u (combine u (snapshot u init)) (t_ops t) os.
