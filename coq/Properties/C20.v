(* C20 - Configuration is validated, not silently reinterpreted.
   This file contains only the property theorems (each closed by [exact]) and Print Assumptions.
   The model follows the REPAIRED code (fix-C20: ParseUint for ports, blockInterval >= 1; fix-C20b: the
   chain id must be an integer in 0..255); the behaviour before the repair is kept under explicitly
   named [old_] definitions. *)
From Coq Require Import List ZArith NArith Bool String.
Import ListNotations.
From SygmaV Require Import Model.C20 Proofs.C20 Model.C20Num Proofs.C20Num Model.C20Hist Proofs.C20Hist Model.C20Elapsed Proofs.C20Elapsed.
Local Open Scope Z_scope.

(* ---- ports ---------------------------------------------------------------------------------- *)

(* For EVERY integer v written in decimal: the port is accepted iff 0 <= v <= 65535, and the
   accepted value is v itself. *)
Theorem C20_port_accept_iff : forall v p,
  parse_port (print_Z v) = Some p <-> (0 <= v <= 65535 /\ p = v).
Proof. exact port_accept_iff. Qed.
Print Assumptions C20_port_accept_iff.

Theorem C20_port_accepts_all_ports : forall v, 1 <= v <= 65535 -> parse_port (print_Z v) = Some v.
Proof. exact port_accepts_all_ports. Qed.
Print Assumptions C20_port_accepts_all_ports.

Theorem C20_port_rejects_outside : forall v, v < 0 \/ 65535 < v -> parse_port (print_Z v) = None.
Proof. exact port_rejects_outside. Qed.
Print Assumptions C20_port_rejects_outside.

(* The code before the repair, for every v; and the two witnesses that it violates the property. *)
Theorem C20_old_port_value : forall v,
  old_parse_port (print_Z v) =
  if (-32768 <=? v) && (v <=? 32767) then Some (v mod 65536) else None.
Proof. exact old_port_value. Qed.
Print Assumptions C20_old_port_value.

Theorem C20_old_port_accept_iff_refuted :
  (exists v, 1 <= v <= 65535 /\ old_parse_port (print_Z v) = None) /\
  (exists v p, v < 0 /\ old_parse_port (print_Z v) = Some p).
Proof. exact old_port_refuted. Qed.
Print Assumptions C20_old_port_accept_iff_refuted.

(* The judge accepts the model on every text, and what it accepts satisfies the property. *)
Theorem C20_port_ok_model : forall s, port_ok s (parse_port s) = true.
Proof. exact port_ok_model. Qed.
Print Assumptions C20_port_ok_model.

Theorem C20_port_ok_sound : forall v impl, port_ok (print_Z v) impl = true ->
  (1 <= v <= 65535 -> impl = Some v) /\
  (v < 0 \/ 65535 < v -> impl = None) /\
  (forall p, impl = Some p -> p = v /\ 0 <= v <= 65535).
Proof. exact port_ok_sound. Qed.
Print Assumptions C20_port_ok_sound.

(* ---- durations ------------------------------------------------------------------------------ *)

(* Every <digits><unit> duration round-trips exactly when it fits int64 nanoseconds and is rejected
   otherwise. *)
Theorem C20_duration_roundtrip : forall n u,
  parse_duration (print_N n ++ unit_text u) =
  if Z.of_N n * unit_ns u <=? max_int64 then Some (Z.of_N n * unit_ns u) else None.
Proof. exact duration_roundtrip. Qed.
Print Assumptions C20_duration_roundtrip.

Theorem C20_duration_ok_model : forall s, duration_ok s (parse_duration s) = true.
Proof. exact duration_ok_model. Qed.
Print Assumptions C20_duration_ok_model.

Theorem C20_duration_ok_sound : forall n u impl,
  duration_ok (print_N n ++ unit_text u) impl = true ->
  (Z.of_N n * unit_ns u <= max_int64 -> impl = Some (Z.of_N n * unit_ns u)) /\
  (max_int64 < Z.of_N n * unit_ns u -> impl = None).
Proof. exact duration_ok_sound. Qed.
Print Assumptions C20_duration_ok_sound.

(* ---- chain constructors --------------------------------------------------------------------- *)

(* Every accepted chain configuration has a positive interval and (EVM, BTC) positive
   confirmations ... *)
Theorem C20_interval_confirmations_positive : forall c cfg, validate c = Some cfg ->
  1 <= cc_interval cfg /\ (uses_confs (ci_kind c) = true -> 1 <= cc_confs cfg).
Proof. exact validate_positive. Qed.
Print Assumptions C20_interval_confirmations_positive.

(* ... its values are the written ones (zero / absent fields take the default) ... *)
Theorem C20_validate_values : forall c cfg, validate c = Some cfg ->
  cc_start cfg = written (ci_start c) /\
  cc_interval cfg = with_default default_interval (ci_interval c) /\
  (uses_confs (ci_kind c) = true -> cc_confs cfg = with_default default_confs (ci_confs c)).
Proof. exact validate_values. Qed.
Print Assumptions C20_validate_values.

Theorem C20_with_default_written : forall d v, v <> 0 -> with_default d (Some v) = v.
Proof. exact with_default_written. Qed.
Print Assumptions C20_with_default_written.

(* ... a configuration is rejected exactly for a missing required field, an id that is no domain id or a
   negative setting ... *)
Theorem C20_validate_none_iff : forall c,
  validate c = None <->
  (ci_req_missing c = true \/
   ~ (exists z, ci_id c = JNum z /\ 0 <= z <= 255) \/
   (exists v, ci_interval c = Some v /\ v < 0) \/
   (uses_confs (ci_kind c) = true /\ exists v, ci_confs c = Some v /\ v < 0)).
Proof. exact validate_none_iff. Qed.
Print Assumptions C20_validate_none_iff.

(* ... and the start-block computation on it never divides by zero and yields the cell start. *)
Theorem C20_start_block_total : forall c cfg, validate c = Some cfg ->
  exists z, calc_start (cc_start cfg) (cc_interval cfg) = Val z /\
            z mod cc_interval cfg = 0 /\ z <= cc_start cfg < z + cc_interval cfg.
Proof. exact start_block_total. Qed.
Print Assumptions C20_start_block_total.

(* CHAIN IDS.  A domain id is one byte on the wire.  A written id is accepted iff it is an INTEGER in
   0..255 (the float spelling 1.0 of an integer is that integer), and then as itself: 257, 65537, 1.5,
   -1, "1" are rejected, not wrapped / truncated / converted ... *)
Theorem C20_chain_id_accept_iff : forall v i,
  accept_id v = Some i <-> exists z, v = JNum z /\ 0 <= z <= 255 /\ i = z.
Proof. exact accept_id_iff. Qed.
Print Assumptions C20_chain_id_accept_iff.

(* ... so the id of every accepted chain configuration is the written id and fits the byte. *)
Theorem C20_chain_id_value : forall c cfg, validate c = Some cfg ->
  ci_id c = JNum (cc_id cfg) /\ 0 <= cc_id cfg <= 255.
Proof. exact chain_id_value. Qed.
Print Assumptions C20_chain_id_value.

(* The code before the repair (mapstructure narrowing into the uint8), for every non-negative id, and the
   witnesses that it violates the property: 257 was accepted as domain 1, 3/2 as domain 1. *)
Theorem C20_old_chain_id_value : forall z, 0 <= z -> old_accept_id (JNum z) = Some (z mod 256).
Proof. exact old_accept_id_value. Qed.
Print Assumptions C20_old_chain_id_value.

Theorem C20_old_chain_id_fraction_value : forall n d, 0 <= n ->
  old_accept_id (JFrac n d) = Some ((n / Zpos d) mod 256).
Proof. exact old_accept_id_frac. Qed.
Print Assumptions C20_old_chain_id_fraction_value.

Theorem C20_old_chain_id_refuted :
  exists c cfg, ci_id c = JNum 257 /\ old_id_validate c = Some cfg /\ cc_id cfg = 1 /\
                chain_ok c (old_id_model_chain c) = false.
Proof. exact old_chain_id_refuted. Qed.
Print Assumptions C20_old_chain_id_refuted.

Theorem C20_old_chain_id_fraction_refuted :
  exists c cfg, ci_id c = JFrac 3 2 /\ old_id_validate c = Some cfg /\ cc_id cfg = 1 /\
                chain_ok c (old_id_model_chain c) = false.
Proof. exact old_chain_id_fraction_refuted. Qed.
Print Assumptions C20_old_chain_id_fraction_refuted.

(* Before the repair a negative interval was accepted. *)
Theorem C20_old_interval_positive_refuted :
  exists c cfg, old_validate c = Some cfg /\ cc_interval cfg < 1 /\
                chain_ok c (old_model_chain c) = false.
Proof. exact old_validate_refuted. Qed.
Print Assumptions C20_old_interval_positive_refuted.

Theorem C20_chain_ok_model : forall c, chain_ok c (model_chain c) = true.
Proof. exact chain_ok_model. Qed.
Print Assumptions C20_chain_ok_model.

Theorem C20_chain_ok_sound : forall c cfg r, chain_ok c (Some (cfg, r)) = true ->
  (forall z, ci_id c = JNum z -> cc_id cfg = z /\ 0 <= z <= 255) /\
  (forall n d, ci_id c <> JFrac n d) /\
  1 <= cc_interval cfg /\
  (uses_confs (ci_kind c) = true -> 1 <= cc_confs cfg) /\
  (forall v, ci_interval c = Some v -> v <> 0 -> cc_interval cfg = v) /\
  (uses_confs (ci_kind c) = true -> forall v, ci_confs c = Some v -> v <> 0 -> cc_confs cfg = v) /\
  cc_start cfg = written (ci_start c) /\
  r <> Panic.
Proof. exact chain_ok_sound. Qed.
Print Assumptions C20_chain_ok_sound.

Theorem C20_chain_ok_rejects : forall c, chain_ok c None = true ->
  ci_req_missing c = true \/
  ~ (exists z, ci_id c = JNum z /\ 0 <= z <= 255) \/
  (exists v, ci_interval c = Some v /\ v < 1) \/
  (uses_confs (ci_kind c) = true /\ exists v, ci_confs c = Some v /\ v < 1).
Proof. exact chain_ok_rejects. Qed.
Print Assumptions C20_chain_ok_rejects.

(* ---- key spelling: whatever the decoder treats as the same key is validated identically ------------ *)

(* KEY SPELLING.  mapstructure matches the keys of a chain entry case-insensitively ("id", "Id", "ID",
   "iD" are one setting), so the id check has to hold for every spelling.  C20_chain_id_accept_iff
   restated over entries: with the id written ONCE as (s, v) - s ANY spelling of the key - the id check of
   the constructors (ValidateDomainID over every spelling + the decoder) passes and yields i iff v is
   the INTEGER i in 0..255 ... *)
Theorem C20_chain_id_accept_iff_any_spelling : forall d s v i,
  ci_entries "id" (cd_entry d) = [(s, v)] ->
  (ids_valid (cd_entry d) = true /\ accept_id (ci_id (doc_in d)) = Some i) <->
  exists z, v = JNum z /\ 0 <= z <= 255 /\ i = z.
Proof. exact doc_id_accept_iff. Qed.
Print Assumptions C20_chain_id_accept_iff_any_spelling.

(* ... so an accepted entry that writes the id once carries exactly that id, a domain id ... *)
Theorem C20_chain_id_value_any_spelling : forall d s v cfg,
  ci_entries "id" (cd_entry d) = [(s, v)] -> validate_doc d = Some cfg ->
  v = JNum (cc_id cfg) /\ 0 <= cc_id cfg <= 255.
Proof. exact doc_single_id_value. Qed.
Print Assumptions C20_chain_id_value_any_spelling.

(* ... and with the id written under SEVERAL spellings (with whatever values) the id of an accepted
   configuration is one of the written numbers, it is a domain id, and EVERY value written under any
   spelling passed the range check. *)
Theorem C20_chain_id_one_of_written : forall d cfg, validate_doc d = Some cfg ->
  In (JNum (cc_id cfg)) (ci_values "id" (cd_entry d)) /\ 0 <= cc_id cfg <= 255 /\
  (forall v, In v (ci_values "id" (cd_entry d)) -> id_value_valid v = true).
Proof. exact doc_id_written. Qed.
Print Assumptions C20_chain_id_one_of_written.

(* an entry is rejected exactly when the loader does not find "id" / "type" under their exact names
   (loading against a shared configuration), some spelling of "id" carries a number that is no domain
   id, or the decoded settings are rejected (C20_validate_none_iff) *)
Theorem C20_doc_none_iff : forall d,
  validate_doc d = None <->
  ((cd_shared d = true /\ loader_pre (cd_entry d) = false) \/
   (exists v, In v (ci_values "id" (cd_entry d)) /\ id_value_valid v = false) \/
   validate (doc_in d) = None).
Proof. exact doc_none_iff. Qed.
Print Assumptions C20_doc_none_iff.

(* entries spelled as documented, loaded directly, are the constructors' model of the sections above *)
Theorem C20_doc_canonical : forall k miss v i c s,
  validate_doc (mkDoc k false miss
     ([("id"%string, v)] ++ match i with Some z => [("blockInterval"%string, JNum z)] | None => [] end
      ++ match c with Some z => [("blockConfirmations"%string, JNum z)] | None => [] end
      ++ match s with Some z => [("startBlock"%string, JNum z)] | None => [] end))
  = if id_value_valid v then validate (mkChainIn k miss v i c s) else None.
Proof. exact validate_doc_canonical. Qed.
Print Assumptions C20_doc_canonical.

(* the judge for entries with arbitrary key spellings accepts the model - in whichever order Go visits
   the entry's map - and what it accepts is a configuration made of written values *)
Theorem C20_doc_ok_model : forall d, doc_wf d = true ->
  doc_ok d (model_doc d) = true /\ doc_ok d (model_doc (rev_doc d)) = true.
Proof. exact doc_ok_model_any_order. Qed.
Print Assumptions C20_doc_ok_model.

Theorem C20_doc_ok_sound : forall d cfg r, doc_ok d (Some (cfg, r)) = true ->
  let e := cd_entry d in
  ((exists v, In v (ci_values "id" e) /\ is_num v = true) ->
   In (JNum (cc_id cfg)) (ci_values "id" e) /\ 0 <= cc_id cfg <= 255) /\
  1 <= cc_interval cfg /\
  ((ci_values "blockInterval" e = [] /\ 1 <= cc_interval cfg) \/
   exists z, In (JNum z) (ci_values "blockInterval" e) /\ (z <> 0 -> cc_interval cfg = z) /\ (z = 0 -> 1 <= cc_interval cfg)) /\
  (uses_confs (cd_kind d) = true ->
   1 <= cc_confs cfg /\
   ((ci_values "blockConfirmations" e = [] /\ 1 <= cc_confs cfg) \/
    exists z, In (JNum z) (ci_values "blockConfirmations" e) /\ (z <> 0 -> cc_confs cfg = z) /\ (z = 0 -> 1 <= cc_confs cfg))) /\
  ((ci_values "startBlock" e = [] /\ cc_start cfg = 0) \/ In (JNum (cc_start cfg)) (ci_values "startBlock" e)) /\
  r <> Panic.
Proof. exact doc_ok_sound. Qed.
Print Assumptions C20_doc_ok_sound.

Theorem C20_use_ok_model_doc : forall d n, use_ok (model_doc d) (model_after (model_doc d) n) = true.
Proof. exact use_ok_model_doc. Qed.
Print Assumptions C20_use_ok_model_doc.

(* A validator that looks the key up EXACTLY (chainConfig["id"]) in front of the case-folding decoder
   violates the property: {"Id": 257} passes it and is narrowed to domain 1. *)
Theorem C20_exact_id_lookup_refuted :
  exists d cfg, doc_wf d = true /\ ci_entries "id" (cd_entry d) = [("Id"%string, JNum 257)] /\
    exact_validate_doc d = Some cfg /\ cc_id cfg = 1 /\
    doc_ok d (exact_model_doc d) = false /\ validate_doc d = None.
Proof. exact exact_id_lookup_refuted. Qed.
Print Assumptions C20_exact_id_lookup_refuted.

(* ---- using a loaded configuration does not change it ------------------------------------------ *)

(* The consumers of an accepted configuration (the start-block computation, run any number of times on
   the loaded values) are functions of the values: the configuration afterwards is the configuration
   loaded, and every run returns the same result.  This is the specification the runner checks on the
   real config objects (deep comparison by value with a snapshot taken right after loading). *)
Theorem C20_start_block_pure : forall cfg n,
  fst (use_chain cfg n) = cfg /\
  List.length (snd (use_chain cfg n)) = n /\
  (forall r, In r (snd (use_chain cfg n)) -> r = calc_start (cc_start cfg) (cc_interval cfg)).
Proof. exact start_block_pure. Qed.
Print Assumptions C20_start_block_pure.

Theorem C20_use_ok_model : forall c n, use_ok (model_chain c) (model_after (model_chain c) n) = true.
Proof. exact use_ok_model. Qed.
Print Assumptions C20_use_ok_model.

Theorem C20_use_ok_sound : forall cfg r af, use_ok (Some (cfg, r)) (Some af) = true ->
  ca_cfg af = cfg /\ ca_rest_same af = true /\ (forall x, In x (ca_calcs af) -> x <> Panic).
Proof. exact use_ok_sound. Qed.
Print Assumptions C20_use_ok_sound.

(* ---- substrateNetwork (int64 -> uint16) ------------------------------------------------------ *)

Theorem C20_net_accept_iff : forall v p, parse_net v = Some p <-> (0 <= v <= 65535 /\ p = v).
Proof. exact net_accept_iff. Qed.
Print Assumptions C20_net_accept_iff.

Theorem C20_net_ok_model : forall v, net_ok v (parse_net v) = true.
Proof. exact net_ok_model. Qed.
Print Assumptions C20_net_ok_model.

Theorem C20_net_ok_sound : forall v impl, net_ok v impl = true ->
  (forall p, impl = Some p -> p = v) /\ (impl = None -> v < 0 \/ 65535 < v).
Proof. exact net_ok_sound. Qed.
Print Assumptions C20_net_ok_sound.

(* Before the repair the value was wrapped silently (70000 -> 4464). *)
Theorem C20_old_net_roundtrip_refuted :
  exists v p, old_parse_net v = Some p /\ p <> v /\ net_ok v (old_parse_net v) = false.
Proof. exact old_net_refuted. Qed.
Print Assumptions C20_old_net_roundtrip_refuted.

(* ---- local over shared ---------------------------------------------------------------------- *)

(* The merge, key by key, for ALL entries (any keys, any overlap). *)
Theorem C20_lookup_merge : forall k local shared,
  lookup k (merge local shared) =
  match lookup k local with
  | Some v => Some (merge_value shared k v)
  | None => lookup k shared
  end.
Proof. exact lookup_merge. Qed.
Print Assumptions C20_lookup_merge.

Theorem C20_merge_local_wins : forall local shared k v,
  lookup k local = Some v -> jempty v = false -> lookup k (merge local shared) = Some v.
Proof. exact merge_local_wins. Qed.
Print Assumptions C20_merge_local_wins.

Theorem C20_merge_keeps_shared_only : forall local shared k,
  lookup k local = None -> lookup k (merge local shared) = lookup k shared.
Proof. exact merge_keeps_shared_only. Qed.
Print Assumptions C20_merge_keeps_shared_only.

Theorem C20_merge_keeps_local_only : forall local shared k,
  lookup k shared = None -> lookup k (merge local shared) = lookup k local.
Proof. exact merge_keeps_local_only. Qed.
Print Assumptions C20_merge_keeps_local_only.

Theorem C20_merge_no_invention : forall local shared k v,
  lookup k (merge local shared) = Some v -> lookup k local = Some v \/ lookup k shared = Some v.
Proof. exact merge_no_invention. Qed.
Print Assumptions C20_merge_no_invention.

(* The unrestricted statement "a locally supplied value always wins" is FALSE for the code as it is
   (mergo treats a written 0 / false / "" as absent); known finding C20-mergo-empty-local, open. *)
Theorem C20_merge_local_always_wins_refuted :
  exists local shared k v, lookup k local = Some v /\ lookup k (merge local shared) <> Some v.
Proof. exact merge_local_always_wins_refuted. Qed.
Print Assumptions C20_merge_local_always_wins_refuted.

Theorem C20_merge_empty_local_loses : forall local shared k v w,
  lookup k local = Some v -> jempty v = true -> lookup k shared = Some w ->
  lookup k (merge local shared) = Some w.
Proof. exact merge_empty_local_loses. Qed.
Print Assumptions C20_merge_empty_local_loses.

(* HISTORIES of loads against one shared configuration (the caller's maps, handed to the loaders again
   and again with a local document each): the specification is that of one load for EVERY load, against
   the shared document as written; the model - every load is [process] on its own documents, nothing is
   carried over - passes for every history of well-formed documents, and what it returns for a document
   does not depend on the history around it. *)
Theorem C20_loadhist_every_load : forall shared h, merge_hist_ok shared h = true ->
  forall l impl, In (l, impl) h -> merge_ok l shared impl = true.
Proof. exact merge_hist_ok_every_load. Qed.
Print Assumptions C20_loadhist_every_load.

Theorem C20_loadhist_model_ok : forall shared docs,
  forallb (fun l => wf_merge l shared) docs = true ->
  merge_hist_ok shared (combine docs (hist_model shared docs)) = true.
Proof. exact merge_hist_ok_model. Qed.
Print Assumptions C20_loadhist_model_ok.

Theorem C20_loadhist_model_pure : forall shared before after l,
  hist_model shared (before ++ l :: after)
  = hist_model shared before ++ process l shared :: hist_model shared after.
Proof. exact hist_model_pure. Qed.
Print Assumptions C20_loadhist_model_pure.

Theorem C20_merge_missing_chain_errors : forall locals shared c i,
  In c locals -> id_of c = Some i -> find_chain i shared = None -> process locals shared = None.
Proof. exact process_missing_chain_errors. Qed.
Print Assumptions C20_merge_missing_chain_errors.

(* Chain ids are compared AS WRITTEN: compareDomainID holds exactly for equal numbers (no narrowing to
   uint8, no truncation of fractions) ... *)
Theorem C20_compare_domain_id_exact : forall a b, compare_domain_id a b = true <-> a = b.
Proof. exact compare_domain_id_exact. Qed.
Print Assumptions C20_compare_domain_id_exact.

(* ... so every local chain of a configuration that loads was merged with a shared entry carrying the
   SAME id, and a local chain whose id no shared entry carries makes the load fail ... *)
Theorem C20_merge_ids_exact : forall locals shared outs, process locals shared = Some outs ->
  forall c, In c locals -> exists i s, id_of c = Some i /\ find_chain i shared = Some s /\
                                         In s shared /\ id_of s = Some i.
Proof. exact process_ids_exact. Qed.
Print Assumptions C20_merge_ids_exact.

Theorem C20_find_chain_none : forall i shared,
  find_chain i shared = None -> forall s, In s shared -> id_of s <> Some i.
Proof. exact find_chain_none. Qed.
Print Assumptions C20_find_chain_none.

(* ... and the judge rejects an outcome in which a local chain whose id no shared entry carries shows
   any setting it did not write itself (nothing is inherited from a chain with another id). *)
Theorem C20_merge_ok_ids_exact : forall locals shared outs, merge_ok locals shared (Some outs) = true ->
  forall n c o, nth_error locals n = Some c -> nth_error outs n = Some o ->
    (forall i, id_of c = Some i -> (forall s, In s shared -> id_of s <> Some i) ->
       forall k, has k o = true -> has k c = true).
Proof. exact merge_ok_ids_exact. Qed.
Print Assumptions C20_merge_ok_ids_exact.

Theorem C20_process_none_iff : forall locals shared,
  process locals shared = None <-> loadable locals shared = false.
Proof. exact process_none_iff. Qed.
Print Assumptions C20_process_none_iff.

(* The judge accepts the model on every local/shared combination without an overridden empty local
   value, and what it accepts satisfies the override statement entry by entry. *)
Theorem C20_merge_ok_model : forall locals shared, wf_merge locals shared = true ->
  merge_ok locals shared (process locals shared) = true.
Proof. exact merge_ok_model. Qed.
Print Assumptions C20_merge_ok_model.

Theorem C20_merge_ok_sound : forall locals shared outs, entries_ok locals shared outs = true ->
  List.length outs = List.length locals /\
  forall n c o, nth_error locals n = Some c -> nth_error outs n = Some o ->
    (forall k v, In (k, v) c -> lookup k o = Some v) /\
    (forall i s, id_of c = Some i -> find_chain i shared = Some s ->
       (forall k, has k c = false -> has k s = true -> lookup k o = lookup k s) /\
       (forall k, has k o = true -> has k c = true \/ has k s = true)).
Proof. exact entries_ok_sound. Qed.
Print Assumptions C20_merge_ok_sound.

(* ---- string-valued settings ------------------------------------------------------------------- *)

(* EVERY non-empty text written for a string setting is loaded unchanged, whatever characters it
   contains ('=', '_', the SYG prefix, quotes, unicode ...) and whatever the rule of the setting. *)
Theorem C20_string_roundtrip : forall r s, s <> EmptyString -> load_string r (Some s) = Some s.
Proof. exact string_roundtrip. Qed.
Print Assumptions C20_string_roundtrip.

Theorem C20_string_rejected_iff : forall r w,
  load_string r w = None <-> (r = Required /\ written_text w = EmptyString).
Proof. exact load_string_none_iff. Qed.
Print Assumptions C20_string_rejected_iff.

Theorem C20_strings_roundtrip : forall ws gs, load_strings ws = Some gs ->
  Forall2 (fun (rw : str_rule * option string) g =>
             forall s, snd rw = Some s -> s <> EmptyString -> g = s) ws gs.
Proof. exact strs_roundtrip. Qed.
Print Assumptions C20_strings_roundtrip.

Theorem C20_strs_ok_model : forall ws, strs_ok ws (load_strings ws) = true.
Proof. exact strs_ok_model. Qed.
Print Assumptions C20_strs_ok_model.

Theorem C20_strs_ok_sound : forall ws gs, strs_ok ws (Some gs) = true ->
  Forall2 (fun (rw : str_rule * option string) g =>
             forall s, snd rw = Some s -> s <> EmptyString -> g = s) ws gs.
Proof. exact strs_ok_sound. Qed.
Print Assumptions C20_strs_ok_sound.

Theorem C20_level_value : forall s l, parse_level s = Some l -> l = s /\ In s level_names.
Proof. exact parse_level_value. Qed.
Print Assumptions C20_level_value.

Theorem C20_level_ok_model : forall s, level_ok s (parse_level s) = true.
Proof. exact level_ok_model. Qed.
Print Assumptions C20_level_ok_model.

Theorem C20_level_ok_sound : forall s l, level_ok s (Some l) = true -> l = s.
Proof. exact level_ok_sound. Qed.
Print Assumptions C20_level_ok_sound.

(* ---- every numeric chain setting round-trips or is rejected (Model/C20Num.v) ------------------------ *)

(* For EVERY numeric / duration setting of the three chain kinds and EVERY written value - any Go integer,
   any integer or fraction of a JSON document that a float64 holds exactly ([num_wf]), strings, bools, an
   absent key - the model of the REPAIRED constructors (/repo commits 4b6460c b9a0784 e724d22) meets the specification: the
   configuration is rejected, or the loaded value is the written number, or the default for a written
   zero. *)
Theorem C20_num_ok_model : forall k f nf w, nfield_of k f = Some nf -> num_wf nf w = true ->
  num_ok k f w (model_num k f w) = true.
Proof. exact num_ok_model. Qed.
Print Assumptions C20_num_ok_model.

(* ... and the specification says what it reads: an accepted value v of a written number q is q (in the
   setting's unit) or, for q = 0, the default *)
Theorem C20_num_ok_sound : forall k f nf w v q, nfield_of k f = Some nf ->
  num_ok k f w (Some v) = true -> reading w = Some q ->
  fst v * Zpos (snd q) = fst q * scale_of nf * Zpos (snd v)
  \/ (fst q = 0 /\ fst v = nf_default nf * scale_of nf * Zpos (snd v)).
Proof. exact num_ok_sound. Qed.
Print Assumptions C20_num_ok_sound.

(* a NEGATIVE number reaching the decoder for an unsigned setting (transferGas, blockRetryInterval, tip)
   is rejected, and the specification accepts no non-negative value for a written negative number *)
Theorem C20_unsigned_negative_rejected : forall k f nf z h, nfield_of k f = Some nf -> nf_ty nf = TU64 -> handed z h < 0 ->
  model_num k f (WNum z h) = None
  /\ forall v, z < 0 -> num_ok k f (WNum z h) (Some v) = true -> fst v < 0.
Proof. exact unsigned_negative_rejected. Qed.
Print Assumptions C20_unsigned_negative_rejected.

(* THE REPAIR (config.DecodeExact / chain.ValidateSeconds), for every integer setting: a fraction is rejected, *)
Theorem C20_num_fraction_rejected : forall k f nf n d, nfield_of k f = Some nf -> nf_ty nf <> TF64 ->
  model_num k f (WFrac n d) = None.
Proof. exact num_fraction_rejected. Qed.
Print Assumptions C20_num_fraction_rejected.

(* a number outside the range of the setting's Go type is rejected, *)
Theorem C20_num_out_of_range_rejected : forall k f nf z h, nfield_of k f = Some nf ->
  (nf_ty nf = TI64 /\ (handed z h < min_i64 \/ max_i64 < handed z h))
  \/ (nf_ty nf = TU64 /\ (handed z h < 0 \/ max_u64 < handed z h)) ->
  model_num k f (WNum z h) = None.
Proof. exact num_out_of_range_rejected. Qed.
Print Assumptions C20_num_out_of_range_rejected.

(* an accepted integer setting holds exactly the number the decoder was handed (or the default for 0), a
   duration at most the seconds a time.Duration holds, *)
Theorem C20_num_accepted_exact : forall k f nf z h v, nfield_of k f = Some nf -> nf_ty nf <> TF64 ->
  model_num k f (WNum z h) = Some v ->
  snd v = 1%positive /\
  (fst v = handed z h * scale_of nf \/ (handed z h = 0 /\ fst v = nf_default nf * scale_of nf)) /\
  (nf_secs nf = true -> fst v <= max_secs * giga).
Proof. exact num_accepted_exact. Qed.
Print Assumptions C20_num_accepted_exact.

(* and more seconds of blockRetryInterval than a time.Duration holds are rejected *)
Theorem C20_num_retry_interval_bound : forall k z h, max_secs < handed z h ->
  model_num k FRetryInterval (WNum z h) = None.
Proof. exact num_retry_interval_bound. Qed.
Print Assumptions C20_num_retry_interval_bound.

(* BEFORE the repair (mapstructure.Decode, no bound on the seconds; [old_model_num]) - known findings
   C20-num-fraction-truncated, C20-num-range-wrap, C20-retry-interval-wrap, fixed by /repo commits 4b6460c b9a0784 e724d22:
   a fraction written for an integer setting was cut off (maxGasPrice 1.5 -> 1, blockConfirmations 1.5 -> 1,
   blockInterval 0.5 -> 0 -> the default 5) *)
Theorem C20_old_num_fraction_truncated_refuted :
  old_model_num Evm FMaxGasPrice (WFrac 3 2) = Some (1, 1%positive) /\
  num_ok Evm FMaxGasPrice (WFrac 3 2) (old_model_num Evm FMaxGasPrice (WFrac 3 2)) = false /\
  old_model_num Btc FConfs (WFrac 3 2) = Some (1, 1%positive) /\
  num_ok Btc FConfs (WFrac 3 2) (old_model_num Btc FConfs (WFrac 3 2)) = false /\
  old_model_num Evm FInterval (WFrac 1 2) = Some (5, 1%positive) /\
  model_num Evm FMaxGasPrice (WFrac 3 2) = None /\ model_num Btc FConfs (WFrac 3 2) = None.
Proof. exact old_num_fraction_truncated_refuted. Qed.
Print Assumptions C20_old_num_fraction_truncated_refuted.

(* a number beyond the target type wrapped: gasLimit 2^63 -> -2^63, transferGas 2^64 -> 2^63, a Go uint64
   startBlock 2^63 -> -2^63, maxGasPrice 2^63-1 of a JSON document (the float64 2^63) -> -2^63 *)
Theorem C20_old_num_int64_wrap_refuted :
  old_model_num Evm FGasLimit (WNum two63 AsFloat) = Some (min_i64, 1%positive) /\
  num_ok Evm FGasLimit (WNum two63 AsFloat) (old_model_num Evm FGasLimit (WNum two63 AsFloat)) = false /\
  old_model_num Evm FTransferGas (WNum two64 AsFloat) = Some (two63, 1%positive) /\
  num_ok Evm FTransferGas (WNum two64 AsFloat) (old_model_num Evm FTransferGas (WNum two64 AsFloat)) = false /\
  old_model_num Evm FStartBlock (WNum two63 AsInt) = Some (min_i64, 1%positive) /\
  old_model_num Evm FMaxGasPrice (WNum max_i64 AsFloat) = Some (min_i64, 1%positive) /\
  model_num Evm FGasLimit (WNum two63 AsFloat) = None /\ model_num Evm FTransferGas (WNum two64 AsFloat) = None /\
  model_num Evm FStartBlock (WNum two63 AsInt) = None /\ model_num Evm FMaxGasPrice (WNum max_i64 AsFloat) = None.
Proof. exact old_num_int64_wrap_refuted. Qed.
Print Assumptions C20_old_num_int64_wrap_refuted.

(* blockRetryInterval: more than 9223372036 seconds wrapped in the product with time.Second *)
Theorem C20_old_num_retry_interval_wrap_refuted :
  old_model_num Btc FRetryInterval (WNum 9223372037 AsFloat) = Some (-9223372036709551616, 1%positive) /\
  num_ok Btc FRetryInterval (WNum 9223372037 AsFloat) (old_model_num Btc FRetryInterval (WNum 9223372037 AsFloat)) = false /\
  model_num Btc FRetryInterval (WNum 9223372037 AsFloat) = None /\
  model_num Btc FRetryInterval (WNum 9223372036 AsFloat) = Some (9223372036000000000, 1%positive).
Proof. exact old_num_retry_interval_wrap_refuted. Qed.
Print Assumptions C20_old_num_retry_interval_wrap_refuted.

(* STILL the case (open known finding C20-json-integer-rounding): an integer above 2^53 that no float64
   holds, written in a JSON document, is loaded as the nearest float64 (chainID 2^53+1 -> 2^53) *)
Theorem C20_num_float_rounding_refuted :
  model_num Sub FChainID (WNum 9007199254740993 AsFloat) = Some (9007199254740992, 1%positive) /\
  num_ok Sub FChainID (WNum 9007199254740993 AsFloat) (model_num Sub FChainID (WNum 9007199254740993 AsFloat)) = false /\
  exact53 9007199254740993 = false /\ exact53 9007199254740992 = true.
Proof. exact num_float_rounding_refuted. Qed.
Print Assumptions C20_num_float_rounding_refuted.

(* ---- uploaderConfig.maxRetries (weakly typed decoding of the relayer section of a config file) ------- *)

(* for EVERY written value (JSON integers that a float64 holds exactly) the repaired loader meets the
   specification: rejected, or the written number (a string: the number it spells in the base-0 syntax
   of the weak decoder, else in decimal), or the default 5 for a written zero *)
Theorem C20_retries_ok_model : forall w, retries_wf w = true -> retries_ok w (model_retries w) = true.
Proof. exact retries_ok_model. Qed.
Print Assumptions C20_retries_ok_model.

Theorem C20_retries_ok_sound : forall w v q, retries_ok w (Some v) = true -> reading0 w = Some q ->
  fst v * Zpos (snd q) = fst q * Zpos (snd v) \/ (fst q = 0 /\ fst v = 5 * Zpos (snd v)).
Proof. exact retries_ok_sound. Qed.
Print Assumptions C20_retries_ok_sound.

Theorem C20_retries_bad_number_rejected : forall z h n d,
  (handed z h < 0 \/ max_u64 < handed z h -> model_retries (WNum z h) = None) /\ model_retries (WFrac n d) = None.
Proof. exact retries_bad_number_rejected. Qed.
Print Assumptions C20_retries_bad_number_rejected.

(* before the repair (known finding C20-uploader-weak-number-wrap): maxRetries -1 -> 2^64-1, 1.5 -> 1, 2^64 -> 2^63 *)
(* uploaderConfig.maxElapsedTime (a time.Duration decoded by the same viper.Unmarshal): the model passes
   the judge for every written value, an accepted number / duration text is held exactly (0: the
   default), a number outside int64 and a fraction of a nanosecond do not load *)
Theorem C20_elapsed_ok_model : forall w, elapsed_wf w = true -> elapsed_ok w (model_elapsed w) = true.
Proof. exact elapsed_ok_model. Qed.
Print Assumptions C20_elapsed_ok_model.

Theorem C20_elapsed_ok_sound_num : forall z h v, elapsed_ok (WNum z h) (Some v) = true ->
  v = given z h \/ (given z h = 0 /\ v = elapsed_default).
Proof. exact elapsed_ok_sound_num. Qed.
Print Assumptions C20_elapsed_ok_sound_num.

Theorem C20_elapsed_ok_sound_text : forall s n u v, duration_reading s = Some (n, u) ->
  elapsed_ok (WStr s) (Some v) = true ->
  v = n * unit_ns u \/ (n * unit_ns u = 0 /\ v = elapsed_default).
Proof. exact elapsed_ok_sound_text. Qed.
Print Assumptions C20_elapsed_ok_sound_text.

Theorem C20_elapsed_bad_number_rejected : forall z h n d,
  (given z h < min_i64 \/ two63 <= given z h -> model_elapsed (WNum z h) = None) /\
  model_elapsed (WFrac n d) = None /\ elapsed_ok (WFrac n d) (Some z) = false.
Proof. exact elapsed_bad_number_rejected. Qed.
Print Assumptions C20_elapsed_bad_number_rejected.

Theorem C20_old_retries_wrap_refuted :
  old_model_retries (WNum (-1) AsFloat) = Some (max_u64, 1%positive) /\
  retries_ok (WNum (-1) AsFloat) (old_model_retries (WNum (-1) AsFloat)) = false /\
  old_model_retries (WFrac 3 2) = Some (1, 1%positive) /\
  retries_ok (WFrac 3 2) (old_model_retries (WFrac 3 2)) = false /\
  old_model_retries (WNum two64 AsFloat) = Some (two63, 1%positive) /\
  model_retries (WNum (-1) AsFloat) = None /\ model_retries (WFrac 3 2) = None /\ model_retries (WNum two64 AsFloat) = None /\
  model_retries (WNum 7 AsFloat) = Some (7, 1%positive) /\ model_retries (WStr "0x10") = Some (16, 1%positive) /\
  model_retries (WStr "") = Some (5, 1%positive) /\ model_retries WAbsent = Some (5, 1%positive).
Proof. exact old_retries_wrap_refuted. Qed.
Print Assumptions C20_old_retries_wrap_refuted.

(* ---- numeric strings -------------------------------------------------------------------------------- *)

(* a BTC resource's fee amount: for EVERY text the model (big.Int.SetString base 10) is accepted by the
   specification, an accepted amount is the number the text spells in decimal, every integer written in
   decimal comes back; a base-0 parser in that place reads "0100" as 64 and is rejected *)
Theorem C20_fee_ok_model : forall s, fee_ok s (parse_fee s) = true.
Proof. exact fee_ok_model. Qed.
Print Assumptions C20_fee_ok_model.

Theorem C20_fee_ok_sound : forall s v q, fee_ok s (Some v) = true -> parse_int_text s = Some q -> v = q.
Proof. exact fee_ok_sound. Qed.
Print Assumptions C20_fee_ok_sound.

Theorem C20_fee_roundtrip : forall z, parse_fee (print_Z z) = Some z.
Proof. exact fee_roundtrip. Qed.
Print Assumptions C20_fee_roundtrip.

Theorem C20_fee_base0_refuted :
  parse_fee "0100" = Some 100 /\ parse_uint0 max_u64 "0100" = Some 64 /\
  fee_ok "0100" (parse_uint0 max_u64 "0100") = false /\ fee_ok "0100" (parse_fee "0100") = true.
Proof. exact fee_base0_refuted. Qed.
Print Assumptions C20_fee_base0_refuted.

(* relayer ports are written in Go's base-0 syntax (strconv.ParseUint(s, 0, 16)), in which a leading 0 IS
   octal notation: "017" spells 15.  For EVERY text the port as the code reads it meets the base-0
   specification port0_ok (C20_port0_ok_model) - accepted: the number the text spells, and it lies in
   0..65535 (C20_port0_ok_sound, _port0_range); every canonical decimal 0..65535 is read as itself (the
   domain enumerated completely: 65536 texts); on the canonical decimals the base-0 reading and the
   decimal model [parse_port] coincide.  (Observation C20-port-octal-notation: a zero-padded decimal such
   as "017" is therefore port 15, not 17 - C20_port0_readings.) *)
Theorem C20_port0_canonical : forall v, 0 <= v <= 65535 -> parse_port0 (print_Z v) = Some v.
Proof. exact port0_canonical. Qed.
Print Assumptions C20_port0_canonical.

Theorem C20_port0_range : forall s v, parse_port0 s = Some v -> 0 <= v <= 65535.
Proof. exact (parse_uint0_range 65535). Qed.
Print Assumptions C20_port0_range.

Theorem C20_port0_agrees : forall v, parse_port0 (print_Z v) = parse_port (print_Z v) \/ v < 0 \/ 65535 < v.
Proof. exact port0_agrees. Qed.
Print Assumptions C20_port0_agrees.

Theorem C20_port0_ok_model : forall s, port0_ok s (parse_port0 s) = true.
Proof. exact port0_ok_model. Qed.
Print Assumptions C20_port0_ok_model.

Theorem C20_port0_ok_sound : forall s v impl, read_uint0 s = Some v -> port0_ok s impl = true ->
  forall p, impl = Some p -> p = v /\ 0 <= v <= 65535.
Proof. exact port0_ok_sound. Qed.
Print Assumptions C20_port0_ok_sound.

Theorem C20_port0_readings :
  parse_port0 "017" = Some 15 /\ port0_ok "017" (Some 15) = true /\ port0_ok "017" (Some 17) = false /\
  port_ok "017" (Some 15) = false /\
  parse_port0 "0100" = Some 64 /\ parse_port0 "08" = None /\ parse_port0 "007" = Some 7 /\
  parse_port0 "0x1F90" = Some 8080 /\ parse_port0 "1_000" = Some 1000 /\ parse_port0 "_1" = None /\
  parse_port0 "1__0" = None /\ parse_port0 "0x_1" = Some 1 /\ parse_port0 "0b101" = Some 5 /\ parse_port0 "0o17" = Some 15 /\
  parse_port0 "0" = Some 0 /\ parse_port0 "0x" = None /\ parse_port0 "+1" = None /\ parse_port0 "" = None /\
  parse_port0 "65536" = None /\ parse_port0 "0xFFFF" = Some 65535 /\ parse_port0 "0x10000" = None /\ parse_port0 "0_7" = Some 7.
Proof. exact port0_readings. Qed.
Print Assumptions C20_port0_readings.

(* Non-vacuity of the numeric-setting theorems *)
Example C20_nonvacuous_numeric :
  nfield_of Evm FTransferGas = Some (mkNF TU64 250000 None None false) /\
  num_wf (mkNF TU64 250000 None None false) (WNum (-1) AsInt) = true /\
  model_num Evm FTransferGas (WNum (-1) AsInt) = None /\
  num_ok Evm FTransferGas (WNum (-1) AsInt) (Some (18446744073709551615, 1%positive)) = false /\
  num_ok Evm FRetryInterval (WNum (-1) AsFloat) (Some (-1000000000, 1%positive)) = true /\
  num_ok Evm FRetryInterval (WNum (-1) AsFloat) (Some (-1000000000 + two64, 1%positive)) = false /\
  model_num Evm FRetryInterval (WNum 7 AsFloat) = Some (7000000000, 1%positive) /\
  model_num Evm FGasMultiplier (WFrac 3 2) = Some (3, 2%positive) /\
  model_num Evm FMaxGasPrice (WNum 0 AsInt) = Some (500000000000, 1%positive) /\
  num_ok Evm FMaxGasPrice (WNum 0 AsInt) (Some (500000000000, 1%positive)) = true /\
  num_ok Evm FMaxGasPrice (WStr "010") (Some (8, 1%positive)) = false /\
  num_ok Evm FMaxGasPrice (WStr "010") (Some (10, 1%positive)) = true /\
  model_num Sub FNet (WNum 70000 AsFloat) = None /\ model_num Sub FTip (WNum max_u64 AsInt) = Some (max_u64, 1%positive) /\
  num_wf (mkNF TI64 5 (Some 1) None false) (WNum two64 AsFloat) = true /\ model_num Btc FInterval (WNum two64 AsFloat) = None /\
  num_wf (mkNF TI64 0 None None false) (WFrac 3 2) = true /\ model_num Evm FStartBlock (WFrac 3 2) = None /\
  model_num Evm FStartBlock (WNum min_i64 AsFloat) = Some (min_i64, 1%positive) /\
  retries_wf (WNum (-1) AsFloat) = true /\ model_retries (WNum (-1) AsFloat) = None /\
  retries_ok (WNum (-1) AsFloat) (Some (max_u64, 1%positive)) = false /\
  fee_ok "0100" (Some 64) = false /\ fee_ok "0100" (Some 100) = true /\ fee_ok "0x10" (Some 16) = true /\ parse_fee "0x10" = None /\
  port0_ok "0x1F90" (parse_port0 "0x1F90") = true /\ port0_ok "017" (Some 17) = false.
Proof. vm_compute. repeat split. Qed.

(* Non-vacuity: the hypotheses are satisfiable and the boundary values behave as stated. *)
Local Open Scope string_scope.
Example C20_nonvacuous :
  parse_port "65535" = Some 65535 /\ parse_port "65536" = None /\ parse_port "-1" = None /\
  parse_port "1" = Some 1 /\ old_parse_port "-1" = Some 65535 /\ old_parse_port "32768" = None /\
  parse_duration "5m" = Some 300000000000 /\ parse_duration "9223372036854775808ns" = None /\
  validate (mkChainIn Evm false (JNum 3) (Some 2) (Some 1) (Some 7)) = Some (mkChainCfg 3 2 1 7) /\
  validate (mkChainIn Sub false (JNum 1) (Some (-5)) None None) = None /\
  model_chain (mkChainIn Btc false (JNum 255) None None (Some 13)) = Some (mkChainCfg 255 5 10 13, Val 10) /\
  accept_id (JNum 0) = Some 0 /\ accept_id (JNum 255) = Some 255 /\ accept_id (JNum 256) = None /\
  accept_id (JNum 257) = None /\ accept_id (JNum (-1)) = None /\ accept_id (JFrac 3 2) = None /\
  accept_id (JStr "1") = None /\ old_accept_id (JNum 257) = Some 1 /\ old_accept_id (JNum 65537) = Some 1 /\
  old_accept_id (JFrac 511 2) = Some 255 /\ old_accept_id (JNum (-1)) = None /\
  validate (mkChainIn Evm false (JNum 257) None None None) = None /\
  chain_ok (mkChainIn Evm false (JNum 257) None None None) (Some (mkChainCfg 1 5 10 0, Val 0)) = false /\
  chain_ok (mkChainIn Evm false (JNum 255) None None None) None = false /\
  wf_merge [[("id", JNum 1); ("type", JStr "evm"); ("a", JNum 3)]]
           [[("id", JNum 1); ("a", JNum 9); ("b", JBool true)]] = true /\
  process [[("id", JNum 1); ("type", JStr "evm"); ("a", JNum 3)]]
          [[("id", JNum 1); ("a", JNum 9); ("b", JBool true)]]
  = Some [[("id", JNum 1); ("type", JStr "evm"); ("a", JNum 3); ("b", JBool true)]] /\
  process [[("id", JNum 257); ("type", JStr "evm")]] [[("id", JNum 1); ("a", JNum 9)]] = None /\
  process [[("id", JFrac 3 2); ("type", JStr "evm")]] [[("id", JNum 1); ("a", JNum 9)]; [("id", JNum 2)]] = None /\
  process [[("id", JNum (-255)); ("type", JStr "evm")]] [[("id", JNum 1)]; [("id", JNum (-255)); ("b", JStr "x")]]
  = Some [[("id", JNum (-255)); ("type", JStr "evm"); ("b", JStr "x")]] /\
  merge_ok [[("id", JNum 257); ("type", JStr "evm")]] [[("id", JNum 1); ("a", JNum 9)]]
           (Some [[("id", JNum 257); ("type", JStr "evm"); ("a", JNum 9)]]) = false /\
  use_ok (Some (mkChainCfg 1 5 10 200, Val 200)) (Some (mkAfter (mkChainCfg 1 0 10 200) true [Panic])) = false /\
  use_ok (Some (mkChainCfg 1 5 10 203, Val 200)) (Some (mkAfter (mkChainCfg 1 3 10 203) true [Val 201])) = false /\
  use_ok (Some (mkChainCfg 1 5 10 203, Val 200)) (Some (mkAfter (mkChainCfg 2 5 10 203) true [Val 200])) = false /\
  use_ok (model_chain (mkChainIn Btc false (JNum 1) None None (Some 13)))
         (model_after (model_chain (mkChainIn Btc false (JNum 1) None None (Some 13))) 2) = true /\
  load_strings [(Required, Some "dGVzdGtleQ=="); (Defaulted "out.log", None); (Plain, Some "http://h/p?a=b&c_d=SYG_X")]
  = Some ["dGVzdGtleQ=="; "out.log"; "http://h/p?a=b&c_d=SYG_X"] /\
  load_strings [(Required, Some ""); (Plain, Some "x")] = None /\
  strs_ok [(Plain, Some "dGVzdGtleQ==")] (Some ["dGVzdGtleQ"]) = false /\
  parse_level "debug" = Some "debug" /\ parse_level "DEBUG" = None.
Proof. vm_compute. repeat split. Qed.

Example C20_nonvacuous_elapsed :
  model_elapsed (WNum 300000 AsFloat) = Some 300000 /\ model_elapsed (WNum 0 AsFloat) = Some 300000 /\
  model_elapsed (WNum (-1) AsFloat) = Some (-1) /\ model_elapsed (WNum two63 AsFloat) = None /\
  model_elapsed (WNum min_i64 AsFloat) = Some min_i64 /\ model_elapsed (WFrac 3 2) = None /\
  model_elapsed (WStr "5m") = Some 300000000000 /\ model_elapsed (WStr "300000") = None /\
  model_elapsed (WStr "0s") = Some 300000 /\ model_elapsed WAbsent = Some 300000 /\
  elapsed_wf (WNum 7 AsFloat) = true /\
  elapsed_ok (WNum 3 AsFloat) (Some 1) = false /\ elapsed_ok (WNum two64 AsFloat) (Some min_i64) = false /\
  elapsed_ok (WStr "5m") (Some 5) = false.
Proof. exact elapsed_examples. Qed.

(* histories of loads: the hypothesis of the model theorem is satisfiable, the model of two loads against
   one shared entry, and what the judge rejects - a second load that returns a setting only the FIRST
   local document wrote, and two local entries of one domain that come back as one *)
Example C20_nonvacuous_loadhist :
  let shared := [[("id", JNum 1); ("bridge", JStr "0xB")]] in
  let l1 := [[("id", JNum 1); ("type", JStr "evm"); ("name", JStr "first"); ("startBlock", JNum 100)]] in
  let l2 := [[("id", JNum 1); ("type", JStr "evm"); ("name", JStr "second")]] in
  forallb (fun l => wf_merge l shared) [l1; l2] = true /\
  hist_model shared [l1; l2]
  = [Some [[("id", JNum 1); ("type", JStr "evm"); ("name", JStr "first"); ("startBlock", JNum 100); ("bridge", JStr "0xB")]];
     Some [[("id", JNum 1); ("type", JStr "evm"); ("name", JStr "second"); ("bridge", JStr "0xB")]]] /\
  merge_hist_ok shared (combine [l1; l2] (hist_model shared [l1; l2])) = true /\
  merge_hist_ok shared
    [(l1, Some [[("id", JNum 1); ("type", JStr "evm"); ("name", JStr "first"); ("startBlock", JNum 100); ("bridge", JStr "0xB")]]);
     (l2, Some [[("id", JNum 1); ("type", JStr "evm"); ("name", JStr "second"); ("startBlock", JNum 100); ("bridge", JStr "0xB")]])]
  = false /\
  merge_hist_ok shared
    [([[("id", JNum 1); ("type", JStr "evm"); ("name", JStr "primary")]; [("id", JNum 1); ("type", JStr "evm"); ("name", JStr "backup")]],
      Some [[("id", JNum 1); ("type", JStr "evm"); ("name", JStr "backup"); ("bridge", JStr "0xB")];
            [("id", JNum 1); ("type", JStr "evm"); ("name", JStr "backup"); ("bridge", JStr "0xB")]])]
  = false.
Proof. cbv zeta. repeat split; vm_compute; reflexivity. Qed.

(* key spelling: the hypotheses (doc_wf, a single id entry) are satisfiable; one setting under several
   spellings *)
Example C20_nonvacuous_spelling :
  let d := mkDoc Evm false false [("ID", JNum 7); ("type", JStr "evm"); ("BLOCKINTERVAL", JNum 3); ("startblock", JNum 11)] in
  doc_wf d = true /\ ci_entries "id" (cd_entry d) = [("ID", JNum 7)] /\
  validate_doc d = Some (mkChainCfg 7 3 10 11) /\
  validate_doc (mkDoc Sub false false [("Id", JNum 257)]) = None /\
  validate_doc (mkDoc Btc false false [("iD", JFrac 3 2)]) = None /\
  validate_doc (mkDoc Evm true false [("Id", JNum 1); ("type", JStr "evm")]) = None /\
  validate_doc (mkDoc Evm true false [("id", JNum 1); ("type", JStr "evm"); ("BlockInterval", JNum 9)]) = Some (mkChainCfg 1 9 10 0) /\
  validate_doc (mkDoc Evm false false [("id", JNum 1); ("ID", JNum 257)]) = None /\
  validate_doc (mkDoc Evm false false [("Id", JNum 1); ("id", JNum 2)]) = Some (mkChainCfg 2 5 10 0) /\
  validate_doc (mkDoc Evm false false [("Id", JNum 1); ("ID", JNum 2)]) = Some (mkChainCfg 1 5 10 0) /\
  validate_doc (rev_doc (mkDoc Evm false false [("Id", JNum 1); ("ID", JNum 2)])) = Some (mkChainCfg 2 5 10 0) /\
  doc_ok (mkDoc Evm false false [("Id", JNum 257)]) (Some (mkChainCfg 1 5 10 0, Val 0)) = false /\
  doc_ok (mkDoc Evm false false [("id", JNum 1); ("ID", JNum 2)]) (Some (mkChainCfg 3 5 10 0, Val 0)) = false /\
  doc_ok (mkDoc Evm false false [("id", JNum 1); ("BlockInterval", JNum 4); ("blockinterval", JNum 6)]) (Some (mkChainCfg 1 5 10 0, Val 0)) = false /\
  lookup_ci "blockInterval" [("BLOCKINTERVAL", JNum 1); ("blockInterval", JNum 2)] = Some (JNum 2) /\
  eq_ci "bLoCkCoNfIrMaTiOnS" "blockConfirmations" = true /\ eq_ci "idx" "id" = false.
Proof. vm_compute. repeat split. Qed.
