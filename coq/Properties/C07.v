(* C07 - All relayers agree on who coordinates a session and who signs.
   This file contains only the property theorems (each closed by [exact]) and Print Assumptions.
   [key] is the 64-bit session sort key of a peer (first 8 bytes of keccak256(peer id ++ session id)
   in the implementation); every theorem holds for an arbitrary key function. *)
From Coq Require Import List ZArith NArith Bool Permutation Sorted.
Import ListNotations.
From SygmaV Require Import Model.C07 Proofs.C07.

(* The coordinator does not depend on the order in which the key holders are listed (for every key
   function that separates the listed peers; equal 64-bit prefixes of two different peers are the
   2^-64 residue named in DESIGN.md). *)
Theorem C07_coordinator_perm_invariant : forall (key : peer -> N) l l',
  inj_on key l -> Permutation l l' -> coordinator key l = coordinator key l'.
Proof. exact coordinator_perm_invariant. Qed.
Print Assumptions C07_coordinator_perm_invariant.

Theorem C07_coordinator_perm_invariant_nodup : forall (key : peer -> N) l l',
  NoDup (map key l) -> Permutation l l' -> coordinator key l = coordinator key l'.
Proof. exact coordinator_perm_invariant_nodup. Qed.
Print Assumptions C07_coordinator_perm_invariant_nodup.

(* ... and so does the whole session order (hence every subset cut from it). *)
Theorem C07_sort_perm_invariant : forall (key : peer -> N) l l',
  inj_on key l -> Permutation l l' -> sort_peers key l = sort_peers key l'.
Proof. exact sort_perm_invariant. Qed.
Print Assumptions C07_sort_perm_invariant.

(* The model's insertion sort stands for ANY correct sorting procedure (Go's sort.Sort is pdqsort):
   every descending arrangement of the listed peers is the model's. *)
Theorem C07_sort_unique : forall (key : peer -> N) l s,
  Permutation l s -> StronglySorted (ge_key key) s -> inj_on key l -> s = sort_peers key l.
Proof. exact sort_unique. Qed.
Print Assumptions C07_sort_unique.

(* The coordinator is a listed peer with the largest key; none only for the empty list. *)
Theorem C07_coordinator_is_max : forall (key : peer -> N) l c,
  coordinator key l = Some c -> In c l /\ forall p, In p l -> (key p <= key c)%N.
Proof. exact coordinator_is_max. Qed.
Print Assumptions C07_coordinator_is_max.

(* For EVERY stream of ready messages (any senders, order, duplication, outsiders, excluded peers):
   if the coordinator announces a subset S, then |S| = t+1, S has no repetition, consists of key
   holders that are the coordinator itself or senders of a ready message, contains the coordinator
   and no excluded peer. *)
Theorem C07_announced_subset_ok : forall (key : peer -> N) holders t excluded self msgs calls S,
  In self holders -> ~ In self excluded ->
  initiate key holders t excluded [self] msgs = (calls, Some S) ->
  Z.of_nat (length S) = (t + 1)%Z /\ NoDup S /\ (forall p, In p S -> In p holders)
  /\ (forall p, In p S -> p = self \/ In p msgs) /\ In self S
  /\ (forall p, In p S -> ~ In p excluded).
Proof. exact announced_subset_spec. Qed.
Print Assumptions C07_announced_subset_ok.

(* The boolean form used as judge on the implementation's announcements: the model satisfies it,
   and it is equivalent to the statement above. *)
Theorem C07_subset_judge_model : forall (key : peer -> N) holders t excluded self msgs calls S,
  In self holders -> ~ In self excluded ->
  initiate key holders t excluded [self] msgs = (calls, Some S) ->
  subset_ok holders t excluded self msgs S = true.
Proof. exact announced_subset_ok. Qed.
Print Assumptions C07_subset_judge_model.

Theorem C07_subset_judge_sound : forall holders t excluded self senders S,
  subset_ok holders t excluded self senders S = true <->
  (Z.of_nat (length S) = (t + 1)%Z /\ NoDup S /\ (forall p, In p S -> In p holders)
   /\ (forall p, In p S -> p = self \/ In p senders) /\ In self S
   /\ (forall p, In p S -> ~ In p excluded)).
Proof. exact subset_ok_iff. Qed.
Print Assumptions C07_subset_judge_sound.

(* While the attempt has a known coordinator c, what a relayer does (ready messages sent, process
   started and with which params, session aborted) depends only on c's own messages: for every
   interleaving and duplication of initiate / start / fail messages, from every state. *)
Theorem C07_only_coordinator_moves : forall c msgs st,
  run_wait (Some c) st msgs = run_wait (Some c) st (filter (from_is c) msgs).
Proof. exact only_coordinator_moves. Qed.
Print Assumptions C07_only_coordinator_moves.

Theorem C07_forged_only_nothing : forall c msgs st,
  (forall m, In m msgs -> from_is c m = false) -> run_wait (Some c) st msgs = (st, []).
Proof. exact forged_only_nothing. Qed.
Print Assumptions C07_forged_only_nothing.

(* The judge of the wait cases: the model always satisfies it, and an observation it accepts
   consists only of actions caused by a message of the coordinator. *)
Theorem C07_wait_judge_model : forall c msgs,
  outs_justified c msgs (snd (run_wait (Some c) Waiting msgs)) = true.
Proof. exact outs_justified_model. Qed.
Print Assumptions C07_wait_judge_model.

Theorem C07_wait_judge_sound : forall c msgs outs,
  outs_justified c msgs outs = true ->
  (forall o, In o outs -> caused_spec c msgs o)
  /\ (count_ready outs <= count_initiates c msgs)%nat /\ (count_runs outs <= 1)%nat.
Proof. exact outs_justified_sound. Qed.
Print Assumptions C07_wait_judge_sound.

Theorem C07_wait_judge_forged_only : forall c msgs outs,
  (forall m, In m msgs -> from_is c m = false) -> outs_justified c msgs outs = true -> outs = [].
Proof. exact outs_justified_forged_only. Qed.
Print Assumptions C07_wait_judge_forged_only.

(* The retried attempt (after a retryable failure): handleError tells the watcher the EMPTY
   coordinator id ([wc] = None, as coded) although the attempt has a coordinator c - the winner of the
   bully election, which waitForStart is told.  Whether the watcher is told nothing or c: for every
   interleaving and duplication of initiate / start / fail messages and from every state, what the
   relayer does depends only on c's own messages; in particular a fail message from any other
   peer - even a legitimate committee member - never aborts the retried attempt. *)
Theorem C07_retry_only_coordinator_moves : forall wc c msgs st,
  wc = None \/ wc = Some c ->
  run_wait2 wc (Some c) st msgs = run_wait2 wc (Some c) st (filter (from_is c) msgs).
Proof. exact retry_only_coordinator_moves. Qed.
Print Assumptions C07_retry_only_coordinator_moves.

Theorem C07_retry_forged_only_nothing : forall wc c msgs st,
  wc = None \/ wc = Some c ->
  (forall m, In m msgs -> from_is c m = false) -> run_wait2 wc (Some c) st msgs = (st, []).
Proof. exact retry_forged_only_nothing. Qed.
Print Assumptions C07_retry_forged_only_nothing.

(* as coded: told the empty id, the watcher of the retried attempt ignores every fail message *)
Theorem C07_retry_as_coded_never_aborts : forall c msgs st,
  ~ In OAbort (snd (run_wait2 None c st msgs)).
Proof. exact retry_as_coded_never_aborts. Qed.
Print Assumptions C07_retry_as_coded_never_aborts.

(* with the same id on both sides it is the first attempt's behaviour *)
Theorem C07_run_wait2_same : forall c msgs st, run_wait2 c c st msgs = run_wait c st msgs.
Proof. exact run_wait2_same. Qed.
Print Assumptions C07_run_wait2_same.

(* The judge of the retry-phase wait cases is the same specification (every action is caused by a
   message of the attempt's coordinator; it does NOT demand that the coordinator's own fail message
   aborts): the model satisfies it, and an accepted observation contains no abort unless the
   coordinator itself sent a fail message. *)
Theorem C07_retry_wait_judge_model : forall c2 msgs,
  outs_justified c2 msgs (snd (retry_wait c2 msgs)) = true.
Proof. exact retry_wait_judge_model. Qed.
Print Assumptions C07_retry_wait_judge_model.

Theorem C07_retry_wait_judge_no_foreign_abort : forall c msgs outs,
  outs_justified c msgs outs = true -> ~ In (MFail c) msgs -> ~ In OAbort outs.
Proof. exact outs_justified_no_foreign_abort. Qed.
Print Assumptions C07_retry_wait_judge_no_foreign_abort.

(* This relayer coordinates the retried attempt (event (true, p) = ready message from p,
   (false, p) = fail message from p): the judge accepts the model for every event stream, and what
   it accepts was aborted only if a fail message came from the coordinator (this relayer) itself and
   announces only well-formed subsets without excluded peers. *)
Theorem C07_retry_coord_judge_model : forall (key : peer -> N) holders t excluded self evs,
  In self holders -> ~ In self excluded ->
  retry_coord_ok holders t excluded self evs
    (fst (retry_coord key holders t excluded self evs)) (snd (retry_coord key holders t excluded self evs)) = true.
Proof. exact retry_coord_ok_model. Qed.
Print Assumptions C07_retry_coord_judge_model.

Theorem C07_retry_coord_judge_sound : forall holders t excluded self evs run aborted,
  retry_coord_ok holders t excluded self evs run aborted = true ->
  (aborted = true -> In (false, self) evs)
  /\ (forall S, run = Some S ->
        Z.of_nat (length S) = (t + 1)%Z /\ NoDup S /\ (forall p, In p S -> In p holders)
        /\ (forall p, In p S -> p = self \/ In (true, p) evs) /\ In self S
        /\ (forall p, In p S -> ~ In p excluded)).
Proof. exact retry_coord_ok_sound. Qed.
Print Assumptions C07_retry_coord_judge_sound.

(* WITH TIME (waitForStart's coordinator-timeout ticker next to the watcher's TssTimeout ticker; messages
   carry arrival times, the relayer is watched until [horizon]; [wc] = what the watcher was told: the
   coordinator in the first attempt, the empty id in the retried one).  For every timed stream whose
   arrival times do not decrease, from every state and ticker deadline: what the relayer does AND how
   its wait ends - still waiting / running at the horizon, or timed out, by which ticker - is what it is
   on the coordinator's own messages alone.  Initiate / start / fail messages of other peers neither
   move the relayer nor keep it waiting: they do not re-arm (or postpone) any ticker. *)
Theorem C07_timed_only_coordinator_moves : forall wc c cto tto horizon msgs deadline st,
  wc = None \/ wc = Some c ->
  sorted_times msgs = true -> in_horizon horizon msgs = true ->
  tw_run wc (Some c) cto tto horizon deadline st msgs
  = tw_run wc (Some c) cto tto horizon deadline st (own_msgs c msgs).
Proof. exact timed_only_coordinator_moves. Qed.
Print Assumptions C07_timed_only_coordinator_moves.

Theorem C07_timed_forged_only : forall wc c cto tto horizon msgs deadline st,
  wc = None \/ wc = Some c ->
  sorted_times msgs = true -> in_horizon horizon msgs = true ->
  (forall x, In x msgs -> from_is c (snd x) = false) ->
  tw_run wc (Some c) cto tto horizon deadline st msgs = tw_run wc (Some c) cto tto horizon deadline st [].
Proof. exact timed_forged_only. Qed.
Print Assumptions C07_timed_forged_only.

(* a silent coordinator in the middle of any traffic of other peers: nothing is done and the wait ends
   with the CoordinatorError at the coordinator timeout *)
Theorem C07_timed_silent_coordinator : forall c cto tto horizon msgs,
  sorted_times msgs = true -> in_horizon horizon msgs = true ->
  (forall x, In x msgs -> from_is c (snd x) = false) ->
  (cto < tto)%N -> (cto < horizon)%N ->
  timed_first c cto tto horizon msgs = ([], TCoordTimeout).
Proof. exact timed_silent_coordinator. Qed.
Print Assumptions C07_timed_silent_coordinator.

(* The judge of the timed cases (the real relayer is driven twice: with all messages and with the
   coordinator's own messages only; both observations must be equal and every action caused by a
   coordinator message) accepts the model, and what it accepts is what the property says. *)
Theorem C07_timed_judge_model : forall wc c cto tto horizon msgs,
  wc = None \/ wc = Some c ->
  timed_ignored c horizon msgs
    (tw_run wc (Some c) cto tto horizon cto Waiting msgs)
    (tw_run wc (Some c) cto tto horizon cto Waiting (own_msgs c msgs)) = true.
Proof. exact timed_ignored_model. Qed.
Print Assumptions C07_timed_judge_model.

Theorem C07_timed_judge_sound : forall c horizon msgs a b,
  timed_ignored c horizon msgs a b = true ->
  sorted_times msgs = true -> in_horizon horizon msgs = true ->
  a = b /\ (forall o, In o (fst a) -> caused_spec c (map snd msgs) o).
Proof. exact timed_ignored_sound. Qed.
Print Assumptions C07_timed_judge_sound.

(* WHO TAKES THE COORDINATOR ROLE (tss/coordinator.go start compares the elected id with the relayer's own
   host id, by their complete printed form): a relayer runs the coordinator's side of an attempt exactly
   when it IS the elected coordinator; a relayer other than the elected one never does - however much its
   id looks like the coordinator's, it is a different peer; and two relayers that list the key holders in
   different orders and both take the role are the same relayer. *)
Theorem C07_role_iff_elected : forall c self,
  takes_coordinator_role c self = true <-> c = Some self.
Proof. exact role_iff_elected. Qed.
Print Assumptions C07_role_iff_elected.

Theorem C07_role_only_elected : forall c self p,
  c = Some p -> self <> p -> takes_coordinator_role c self = false.
Proof. exact role_only_elected. Qed.
Print Assumptions C07_role_only_elected.

Theorem C07_one_coordinator_role : forall (key : peer -> N) l l' p q,
  inj_on key l -> Permutation l l' ->
  takes_coordinator_role (coordinator key l) p = true ->
  takes_coordinator_role (coordinator key l') q = true -> p = q.
Proof. exact one_coordinator_role. Qed.
Print Assumptions C07_one_coordinator_role.

(* SEVERAL SESSIONS ON ONE RELAYER (one long-lived Coordinator object, Execute once per session, any
   number of sessions, each with the coordinator elected from its own session id; events = messages
   tagged with the session they belong to, in ANY interleaving, from every state of every session).
   Projection: what the relayer does in session s is what a relayer that serves s alone does on the
   messages of s - the other sessions, their coordinators and their progress do not exist for it. *)
Theorem C07_multi_projection : forall cs script st s,
  of_session s (multi_run cs st script) = snd (run_wait (cs s) (st s) (of_session s script)).
Proof. exact multi_projection. Qed.
Print Assumptions C07_multi_projection.

(* hence every session is moved by ITS OWN coordinator's messages only: dropping every message that was
   not sent by the coordinator of the session it is addressed to - messages of the coordinators of the
   relayer's OTHER sessions included - changes nothing in any session *)
Theorem C07_multi_only_own_coordinator : forall cs script st s,
  of_session s (multi_run cs st script) = of_session s (multi_run cs st (own_events cs script)).
Proof. exact multi_only_own_coordinator. Qed.
Print Assumptions C07_multi_only_own_coordinator.

Theorem C07_multi_foreign_event_nothing : forall cs st s c m r,
  cs s = Some c -> from_is c m = false ->
  multi_run cs st ((s, m) :: r) = multi_run cs st r.
Proof. exact multi_foreign_event_nothing. Qed.
Print Assumptions C07_multi_foreign_event_nothing.

(* ... whatever attempt each session is in: [wcs s] = what the watcher of session s was told, [cs s] = what
   its waitForStart was told - the elected coordinator on both sides in a first attempt, nothing (as coded) or
   the re-elected coordinator on the watcher's side in a retried attempt.  [multi_run cs] = [multi_run2 cs cs]. *)
Theorem C07_multi_projection_any_attempt : forall wcs cs script st s,
  of_session s (multi_run2 wcs cs st script) = snd (run_wait2 (wcs s) (cs s) (st s) (of_session s script)).
Proof. exact multi_projection2. Qed.
Print Assumptions C07_multi_projection_any_attempt.

Theorem C07_multi_only_own_coordinator_any_attempt : forall wcs cs script st s,
  (forall s c, cs s = Some c -> wcs s = None \/ wcs s = Some c) ->
  of_session s (multi_run2 wcs cs st script) = of_session s (multi_run2 wcs cs st (own_events cs script)).
Proof. exact multi_only_own_coordinator2. Qed.
Print Assumptions C07_multi_only_own_coordinator_any_attempt.

Theorem C07_multi_judge_model_any_attempt : forall wcs cs script s c,
  (forall s c, cs s = Some c -> wcs s = None \/ wcs s = Some c) -> cs s = Some c ->
  outs_justified c (of_session s script) (of_session s (multi_run2 wcs cs all_waiting script)) = true.
Proof. exact multi_judge_model2. Qed.
Print Assumptions C07_multi_judge_model_any_attempt.

Theorem C07_multi_retried_never_aborts : forall wcs cs script st s,
  wcs s = None -> ~ In OAbort (of_session s (multi_run2 wcs cs st script)).
Proof. exact multi_retried_never_aborts. Qed.
Print Assumptions C07_multi_retried_never_aborts.

(* the judge of the multi-session cases is the judge of the wait cases applied per session to that
   session's messages and actions: it accepts the model for every script *)
Theorem C07_multi_judge_model : forall cs script s c,
  cs s = Some c ->
  outs_justified c (of_session s script) (of_session s (multi_run cs all_waiting script)) = true.
Proof. exact multi_judge_model. Qed.
Print Assumptions C07_multi_judge_model.

(* Non-vacuity: three key holders listed in two orders elect the same coordinator; a ready stream
   with a duplicate, an outsider (7) and an excluded peer (2) yields a well-formed subset; a forged
   start and a forged fail are ignored while the coordinator's own messages act. *)
Example C07_nonvacuous :
  let key := fun p : peer => match p with 0 => 50 | 1 => 90 | 2 => 70 | 3 => 10 | _ => 5 end%N in
  coordinator key [0; 1; 2]%N = Some 1%N /\ coordinator key [2; 0; 1]%N = Some 1%N
  /\ initiate key [0; 1; 2; 3]%N 1%Z [2]%N [1]%N [7; 2; 1; 3; 0]%N
     = ([[1; 7]; [1; 7]; [1; 7]; [1; 7; 3]]%N, Some [1; 3]%N)
  /\ subset_ok [0; 1; 2; 3]%N 1%Z [2]%N 1%N [7; 2; 1; 3; 0]%N [1; 3]%N = true
  /\ run_wait (Some 1%N) Waiting [MStart 0%N (Some [0]%N); MFail 2%N; MInitiate 1%N; MStart 1%N (Some [1; 3]%N); MFail 0%N; MFail 1%N]
     = (Finished, [OReady 1%N; ORun [1; 3]%N; OAbort])
  (* retried attempt, coordinator 1: forged fails (2, 0) and even 1's own fail are ignored as coded *)
  /\ retry_wait 1%N [MFail 2%N; MInitiate 1%N; MStart 0%N (Some [0]%N); MStart 1%N (Some [1; 3]%N); MFail 0%N; MFail 1%N]
     = (Running, [OReady 1%N; ORun [1; 3]%N])
  /\ retry_coord key [0; 1; 2; 3]%N 1%Z [2]%N 1%N [(false, 3); (true, 2); (false, 0); (true, 3)]%N = (Some [1; 3]%N, false)
  /\ retry_coord_ok [0; 1; 2; 3]%N 1%Z [2]%N 1%N [(false, 3); (true, 2); (false, 0); (true, 3)]%N (Some [1; 3]%N) true = false
  (* with time, coordinator 1, CoordinatorTimeout 300, TssTimeout 5000, watched for 2000 ms: forged traffic every
     100 ms does not keep the relayer waiting (CoordinatorError at 300); the coordinator's own initiate message
     at 100 moves the deadline to 400, so its start message at 350 is still obeyed; a relayer that was kept
     waiting by the traffic is rejected by the judge *)
  /\ sorted_times [(100, MInitiate 3); (200, MStart 3 (Some [3])); (300, MFail 3); (400, MInitiate 3)]%N = true
  /\ timed_first 1%N 300 5000 2000 [(100, MInitiate 3); (200, MStart 3 (Some [3])); (300, MFail 3); (400, MInitiate 3)]%N
     = ([], TCoordTimeout)
  /\ timed_first 1%N 300 5000 2000 [(100, MInitiate 1); (200, MInitiate 3); (350, MStart 1 (Some [1; 3]))]%N
     = ([OReady 1; ORun [1; 3]]%N, TRunning)
  /\ timed_first 1%N 300 5000 2000 [(200, MInitiate 3); (350, MStart 1 (Some [1; 3]))]%N = ([], TCoordTimeout)
  /\ timed_ignored 1%N 2000 [(100, MInitiate 3); (200, MInitiate 3); (300, MInitiate 3)]%N ([], TWaiting) ([], TCoordTimeout) = false.
Proof. vm_compute. repeat split. Qed.

(* Non-vacuity of the role and multi-session statements: peer 4 is not the elected coordinator 1 and does
   not take the role; two overlapping sessions with coordinators 1 (session 0) and 2 (session 1): a fail
   message for session 0 from session 1's coordinator, and a start message for session 1 from session
   0's, are ignored; each session obeys its own coordinator; a relayer that aborted session 0 on the
   other session's coordinator's word is rejected by the judge. *)
Example C07_multi_nonvacuous :
  let key := fun p : peer => match p with 0 => 50 | 1 => 90 | 2 => 70 | 3 => 10 | _ => 5 end%N in
  let cs := fun s : session => match s with 0 => Some 1 | 1 => Some 2 | _ => None end%N in
  let script := [(0, MInitiate 1); (1, MInitiate 2); (0, MStart 1 (Some [1; 3])); (0, MFail 2);
                 (1, MStart 1 (Some [1])); (1, MFail 1); (1, MFail 2); (0, MFail 1)]%N in
  takes_coordinator_role (coordinator key [0; 1; 2; 4]%N) 4%N = false
  /\ takes_coordinator_role (coordinator key [0; 1; 2; 4]%N) 1%N = true
  /\ of_session 0%N (multi_run cs all_waiting script) = [OReady 1; ORun [1; 3]; OAbort]%N
  /\ of_session 1%N (multi_run cs all_waiting script) = [OReady 2; OAbort]%N
  /\ of_session 0%N script = [MInitiate 1; MStart 1 (Some [1; 3]); MFail 2; MFail 1]%N
  /\ outs_justified 1%N [MInitiate 1; MStart 1 (Some [1; 3]); MFail 2]%N [OReady 1; ORun [1; 3]; OAbort]%N = false.
Proof. vm_compute. repeat split. Qed.
