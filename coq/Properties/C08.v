(* C08 - Threshold signing yields a signature valid under the group key; refresh keeps it; for ECDSA
   only the coordinator's process releases the signature.                       (claimed PARTIALLY)
   This file contains only the property theorems (each closed by [exact]) and Print Assumptions.

   PROVED for all inputs: (A) the share algebra the threshold protocols rely on, over an arbitrary
   field, (B) that the executable reconstruct_Zq / shares_ok used on REAL key-share files
   instantiate it over Z mod q for every prime q, (C) this repository's glue.
   NOT modelled: the MPC protocols inside tss-lib/threshlib (GG18/20) and multi-party-sig (FROST)
   and elliptic-curve arithmetic; their behaviour on this code is sampled by the runner.
   REFUTED part (theorems C08_frost_refresh_join, ..._wrong, ..._refuted): the FROST refresh of this code base does not keep
   the key usable when a member joins or the threshold is lowered. *)
From Coq Require Import ZArith List Bool Permutation.
From mathcomp Require Import all_ssreflect all_algebra.
From SygmaV Require Import Model.C08 Proofs.C08 Proofs.C08_Lagrange Proofs.C08_Bridge Proofs.C08_Btc Proofs.C08_Coord.
Import GRing.Theory.
Delimit Scope Z_scope with Z.
Local Open Scope ring_scope.

(* ---- (A) share algebra, any field ------------------------------------------------------------- *)

(* every set of at least deg+1 distinct nodes recovers the secret f(0) from its shares *)
Theorem C08_reconstruct_any_subset : forall (F : fieldType) (S : seq F) (f : {poly F}),
  uniq S -> (size f <= size S)%N -> reconstruct S (share f) = f.[0].
Proof. exact reconstruct_any_subset. Qed.
Print Assumptions C08_reconstruct_any_subset.

Theorem C08_two_subsets_agree : forall (F : fieldType) (S T : seq F) (f : {poly F}),
  uniq S -> uniq T -> (size f <= size S)%N -> (size f <= size T)%N ->
  reconstruct S (share f) = reconstruct T (share f).
Proof. exact two_subsets_agree. Qed.
Print Assumptions C08_two_subsets_agree.

(* proactive refresh (adding shares of a zero-constant polynomial) keeps the secret, for whatever
   node set S and degree result *)
Theorem C08_refresh_keeps_secret : forall (F : fieldType) (S : seq F) (f g : {poly F}),
  uniq S -> (size (f + g)%R <= size S)%N -> g.[0] = 0 -> reconstruct S (share (f + g)) = f.[0].
Proof. exact refresh_keeps_secret. Qed.
Print Assumptions C08_refresh_keeps_secret.

(* resharing (ECDSA, tss-lib): a qualified old set Q re-deals its Lagrange-weighted shares with
   fresh polynomials; ANY new node set S' large enough for the new degree - changed committee,
   changed threshold - reconstructs the OLD secret *)
Theorem C08_reshare_keeps_secret :
  forall (F : fieldType) (Q S' : seq F) (f : {poly F}) (h : F -> {poly F}),
  uniq Q -> (size f <= size Q)%N -> uniq S' ->
  (forall i, i \in Q -> (h i).[0] = f.[i] * lambda Q i) ->
  (forall i, i \in Q -> (size (h i) <= size S')%N) ->
  reconstruct S' (fun j => \sum_(i <- Q) (h i).[j]) = f.[0].
Proof. exact reshare_keeps_secret. Qed.
Print Assumptions C08_reshare_keeps_secret.

(* FROST signing: Derive(tweak) on every share = a sharing of (+/-)(secret + tweak) *)
Theorem C08_derive_keeps_sharing : forall (F : fieldType) (S : seq F) (f : {poly F}) (h s : F),
  uniq S -> (0 < size S)%N -> (size f <= size S)%N ->
  reconstruct S (fun i => s * (share f i + h)) = s * (f.[0] + h).
Proof. exact derive_keeps_sharing. Qed.
Print Assumptions C08_derive_keeps_sharing.

(* threshold Schnorr aggregation verifies under the group key (group written additively as a vector
   space over the scalar field): z G = R + c Y *)
Theorem C08_schnorr_threshold_verifies :
  forall (F : fieldType) (V : lmodType F) (G : V) (x c : F) (S : seq F) (s k : F -> F),
  reconstruct S s = x ->
  (\sum_(i <- S) (k i + lambda S i * s i * c)) *: G = \sum_(i <- S) (k i *: G) + c *: (x *: G).
Proof. exact schnorr_threshold_verifies. Qed.
Print Assumptions C08_schnorr_threshold_verifies.

(* REFUTED for the FROST refresh of this code base (frost.RefreshTaproot via tss/frost/resharing):
   a joining member d starts from share 0, so every signer set containing d reconstructs
   f(0) - f(d) lambda_d, which is NOT the secret unless f(d) = 0 *)
Theorem C08_frost_refresh_join : forall (F : fieldType) (S : seq F) (f g : {poly F}) (d : F),
  uniq S -> d \in S -> (size (f + g)%R <= size S)%N -> g.[0] = 0 ->
  reconstruct S (fun i => if i == d then g.[i] else (f + g).[i]) = f.[0] - f.[d] * lambda S d.
Proof. exact frost_refresh_join. Qed.
Print Assumptions C08_frost_refresh_join.

Theorem C08_frost_refresh_join_wrong : forall (F : fieldType) (S : seq F) (f g : {poly F}) (d : F),
  uniq S -> d \in S -> 0 \notin S -> (size (f + g)%R <= size S)%N -> g.[0] = 0 -> f.[d] != 0 ->
  reconstruct S (fun i => if i == d then g.[i] else (f + g).[i]) != f.[0].
Proof. exact frost_refresh_join_wrong. Qed.
Print Assumptions C08_frost_refresh_join_wrong.

(* the same on the executable model, with the judge used by the runner: concrete witnesses *)
Theorem C08_frost_refresh_join_refuted :
  exists q old gs new_ids t x,
    shares_ok q t old x = true /\
    (forall x', shares_ok q t (frost_refresh_Zq q old gs new_ids) x' = false).
Proof. exact frost_refresh_join_refuted. Qed.
Print Assumptions C08_frost_refresh_join_refuted.

Theorem C08_frost_refresh_threshold_down_refuted :
  exists q old gs new_ids t t' x,
    shares_ok q t old x = true /\ (t' < t)%coq_nat /\
    (forall x', shares_ok q t' (frost_refresh_Zq q old gs new_ids) x' = false).
Proof. exact frost_refresh_threshold_down_refuted. Qed.
Print Assumptions C08_frost_refresh_threshold_down_refuted.

(* ---- (B) the executable algebra over Z mod q instantiates (A) --------------------------------- *)

(* for every prime q, every coefficient list cs and every node list distinct mod q with
   |cs| <= |nodes|: reconstruct_Zq on the shares returns the constant term *)
Theorem C08_reconstruct_Zq_shares : forall (q : Z), prime (Z.to_nat q) ->
  forall (cs ids : list Z),
  distinct_mod q ids = true -> (length cs <= length ids)%coq_nat ->
  reconstruct_Zq q (share_pts q cs ids) = (List.hd 0%Z cs mod q)%Z.
Proof. exact reconstruct_Zq_shares. Qed.
Print Assumptions C08_reconstruct_Zq_shares.

(* the judge used on real key-share files accepts every sharing of degree <= t among >= t+1
   distinct nodes ... *)
Theorem C08_shares_ok_model : forall (q : Z), prime (Z.to_nat q) ->
  forall (cs ids : list Z) (t : nat),
  distinct_mod q ids = true -> (length cs <= t.+1)%coq_nat -> (t.+1 <= length ids)%coq_nat ->
  shares_ok q t (share_pts q cs ids) (List.hd 0%Z cs mod q)%Z = true.
Proof. exact shares_ok_model. Qed.
Print Assumptions C08_shares_ok_model.

(* ... and what it accepts: EVERY t+1 of the holders reconstruct the same secret x *)
Theorem C08_shares_ok_spec : forall (q : Z) (t : nat) (pts : list (Z * Z)) (x : Z),
  shares_ok q t pts x = true ->
  distinct_mod q (List.map fst pts) = true /\ (t.+1 <= length pts)%coq_nat /\
  forall s, List.In s (sublists t.+1 pts) -> reconstruct_Zq q s = x.
Proof. exact shares_ok_spec. Qed.
Print Assumptions C08_shares_ok_spec.

(* the scenario judge (key generation -> refresh -> ..., with signing sessions in between) accepts
   every ideal scenario and whatever it accepts has one secret throughout *)
Theorem C08_scn_ok_model : forall (q : Z), prime (Z.to_nat q) ->
  forall (ecdsa : bool) (s : Z) (l : list ideal) (prev : option Z),
  List.forallb (ideal_wf q s) l = true -> prev = None \/ prev = Some s ->
  scn_ok q ecdsa prev (List.map (ideal_obs q ecdsa) l) = true.
Proof. exact scn_ok_model. Qed.
Print Assumptions C08_scn_ok_model.

Theorem C08_scn_ok_sound : forall (q : Z) (e : bool) (obs : list sobs) (prev : option Z),
  scn_ok q e prev obs = true ->
  (forall t pts x pub old, List.In (OShares t pts x pub old) obs -> shares_ok q t pts x = true /\ pub = true) /\
  (forall m c comp rel val, List.In (OSign m c comp rel val) obs -> sign_ok e m c comp rel val = true) /\
  (forall x y, List.In x (secrets obs) -> List.In y (secrets obs) -> x = y).
Proof. exact scn_ok_sound. Qed.
Print Assumptions C08_scn_ok_sound.

(* ---- (C) glue of this repository ---------------------------------------------------------------- *)

(* ECDSA: among the processes of a session only the coordinator's puts the signature on the result
   channel, and it does *)
Theorem C08_ecdsa_only_coordinator_releases : forall (S : Type) (n coord : nat) (sig s : S) (i : nat),
  nth_error (session_release n coord sig) i = Some (Some s) -> i = coord /\ s = sig.
Proof. exact ecdsa_only_coordinator_releases. Qed.
Print Assumptions C08_ecdsa_only_coordinator_releases.

Theorem C08_ecdsa_coordinator_does_release : forall (S : Type) (n coord : nat) (sig : S),
  (coord < n)%coq_nat -> nth_error (session_release n coord sig) coord = Some (Some sig).
Proof. exact ecdsa_coordinator_does_release. Qed.
Print Assumptions C08_ecdsa_coordinator_does_release.

(* the signature reaches whoever reads the process's result channel, whenever they read: for every
   channel capacity (0 = the unbuffered channels of the EVM / Substrate executors) and every number
   n >= 1 of receive operations, performed at whatever time, the reader gets exactly the value
   processEndMessage releases, once *)
Theorem C08_result_reaches_reader : forall (S : Type) (coordinator : bool) (sig : S) (cap n : nat),
  (1 <= n)%coq_nat -> result_channel coordinator sig cap n = (release coordinator sig :: nil)%list.
Proof. exact result_reaches_reader. Qed.
Print Assumptions C08_result_reaches_reader.

Theorem C08_ecdsa_session_reader_gets : forall (S : Type) (coord : nat) (sig : S) (i cap n : nat),
  (1 <= n)%coq_nat -> got_sig (result_channel (Nat.eqb i coord) sig cap n) = Nat.eqb i coord.
Proof. exact ecdsa_session_reader_gets. Qed.
Print Assumptions C08_ecdsa_session_reader_gets.

(* the judge of the release cases accepts the model and means: signature received iff coordinator *)
Theorem C08_release_ok_model : forall (S : Type) (coordinator : bool) (sig : S) (cap n : nat),
  (1 <= n)%coq_nat -> release_ok coordinator (got_sig (result_channel coordinator sig cap n)) = true.
Proof. exact release_ok_model. Qed.
Print Assumptions C08_release_ok_model.

Theorem C08_release_ok_sound : forall coordinator got,
  release_ok coordinator got = true -> (got = true <-> coordinator = true).
Proof. exact release_ok_sound. Qed.
Print Assumptions C08_release_ok_sound.

(* a send that gives up instead of waiting loses the value on an unbuffered channel without a parked
   reader (the model tells the two apart) *)
Theorem C08_nonblocking_send_loses : forall (V : Type) (v : V) (n : nat),
  reader_receives (send_nonblocking 0 false v) n = nil.
Proof. exact nonblocking_send_loses. Qed.
Print Assumptions C08_nonblocking_send_loses.

(* FROST: whatever the number k of the attempt (Run called again on the same process object by the
   coordinator's retry), the process signs with the share tweaked exactly once *)
Theorem C08_frost_retry_same_share : forall q neg share tweak k,
  frost_attempt_share q neg share tweak k = derive_share q neg share tweak.
Proof. exact frost_retry_same_share. Qed.
Print Assumptions C08_frost_retry_same_share.

Theorem C08_sign_ok_sound : forall ecdsa must coord completed released valid,
  sign_ok ecdsa must coord completed released valid = true ->
  (completed = true ->
     (exists i, nth_error released i = Some true) /\
     (forall v, List.In v valid -> v = true) /\
     (ecdsa = true -> forall k, (k < length released)%coq_nat -> List.nth k released false = Nat.eqb k coord))
  /\ (must = true -> completed = true).
Proof. exact sign_ok_sound. Qed.
Print Assumptions C08_sign_ok_sound.

(* party key = value of the peer-id string: injective *)
Theorem C08_party_key_inj : forall l1 l2,
  wf_id l1 = true -> wf_id l2 = true -> party_key l1 = party_key l2 -> l1 = l2.
Proof. exact party_key_inj. Qed.
Print Assumptions C08_party_key_inj.

Theorem C08_sort_keys_perm : forall l, Permutation (sort_keys l) l.
Proof. exact sort_keys_perm. Qed.
Print Assumptions C08_sort_keys_perm.

(* resharing keeps the old indexes and rearranges the committee *)
Theorem C08_sort_parties_perm : forall parties old l,
  wf_sort_parties parties old = true -> sort_parties parties old = SpOk l -> Permutation l parties.
Proof. exact sort_parties_perm. Qed.
Print Assumptions C08_sort_parties_perm.

Theorem C08_sort_parties_old_prefix : forall parties old l,
  wf_sort_parties parties old = true -> sort_parties parties old = SpOk l ->
  List.firstn (length old) l = old /\
  (forall k o, nth_error old k = Some o -> nth_error l k = Some o).
Proof. exact sort_parties_old_prefix. Qed.
Print Assumptions C08_sort_parties_old_prefix.

Theorem C08_sort_parties_ok_model : forall parties old,
  sort_parties_ok parties old (sort_parties parties old) = true.
Proof. exact sort_parties_ok_model. Qed.
Print Assumptions C08_sort_parties_ok_model.

Theorem C08_sort_parties_ok_sound : forall parties old res,
  wf_sort_parties parties old = true -> sort_parties_ok parties old res = true ->
  exists l, res = SpOk l /\ List.firstn (length old) l = old /\ length l = length parties /\
            (forall p, List.In p parties <-> List.In p l).
Proof. exact sort_parties_ok_sound. Qed.
Print Assumptions C08_sort_parties_ok_sound.

(* validateStartParams accepts exactly the well-formed start parameters *)
Theorem C08_validate_start_params_spec : forall old_t sub key_peers store,
  validate_start_params old_t sub key_peers store = VOk <->
  validate_accepts old_t sub key_peers store = true.
Proof. exact validate_start_params_spec. Qed.
Print Assumptions C08_validate_start_params_spec.

Theorem C08_validate_ok_model : forall old_t sub key_peers store,
  validate_ok old_t sub key_peers store
    (vres_eqb (validate_start_params old_t sub key_peers store) VOk) = true.
Proof. exact validate_ok_model. Qed.
Print Assumptions C08_validate_ok_model.

Theorem C08_validate_start_params_ok : forall old_t sub key_peers store,
  validate_start_params old_t sub key_peers store = VOk ->
  (0 < old_t <= Z.of_nat (length sub))%Z /\
  (key_peers = nil \/ Permutation sub (List.filter (fun p => memZ p store) key_peers)).
Proof. exact validate_start_params_ok. Qed.
Print Assumptions C08_validate_start_params_ok.

(* ---- the BTC executor between the signing results and the broadcast (watchExecution) ----------- *)

(* Whatever results arrive on the signature channel - in any order, any input any number of times,
   nil values in between, some inputs never -: a transaction is sent only when every input's slot
   holds the signature made for THAT input (the results of correct signing processes: [Some id] is
   valid exactly in slot id), i.e. what the BTC executor submits carries a valid signature on EVERY
   input. *)
Theorem C08_btc_sends_only_fully_signed : forall (n : nat) (rs : list (option nat)) (w : list (option nat)),
  btc_watch_tx n rs = WSent w ->
  List.length w = n /\ List.forallb (fun b => b) (slots_valid_from 0 w) = true.
Proof. exact btc_watch_tx_sent_valid. Qed.
Print Assumptions C08_btc_sends_only_fully_signed.

(* ... it does send once every input has delivered (results of the transaction's own inputs) ... *)
Theorem C08_btc_sends_when_every_input_signed : forall (n : nat) (rs : list (option nat)),
  Peano.lt 0 n -> results_in_range n rs = true ->
  (forall i, Peano.lt i n -> input_delivered i rs = true) -> exists w, btc_watch_tx n rs = WSent w.
Proof. exact btc_watch_tx_live. Qed.
Print Assumptions C08_btc_sends_when_every_input_signed.

(* ... and never indexes outside the transaction's inputs *)
Theorem C08_btc_watch_no_panic : forall rs slots, results_in_range (List.length slots) rs = true ->
  btc_watch slots rs <> WPanic.
Proof. exact btc_watch_no_panic. Qed.
Print Assumptions C08_btc_watch_no_panic.

(* the judge of what reached the node accepts the model and means "every input verifies" *)
Theorem C08_btc_sent_ok_model : forall n rs,
  btc_sent_ok n (fst (btc_model_obs n rs)) (snd (btc_model_obs n rs)) = true.
Proof. exact btc_sent_ok_model. Qed.
Print Assumptions C08_btc_sent_ok_model.

Theorem C08_btc_sent_ok_sound : forall n sent valids, btc_sent_ok n sent valids = true -> sent <> 0%nat ->
  List.length valids = n /\ forall i, Peano.lt i n -> List.nth i valids false = true.
Proof. exact btc_sent_ok_sound. Qed.
Print Assumptions C08_btc_sent_ok_sound.

(* one complete execution of the BTC executor by the relayers of a committee (judge btc_exec_ok): the
   expected outcome is accepted; acceptance means that every relayer that broadcast anything broadcast a
   valid signature on EVERY input and - when the execution follows a refresh, "the new committee can
   sign" - that some relayer did broadcast the signed transfer *)
Theorem C08_btc_exec_ok_ideal : forall (must : bool) (n k j : nat), Peano.le 1 k ->
  btc_exec_ok must n (List.repeat (1%nat, List.repeat true n) k ++ List.repeat (0%nat, nil) j) = true.
Proof. exact btc_exec_ok_ideal. Qed.
Print Assumptions C08_btc_exec_ok_ideal.

Theorem C08_btc_exec_ok_sound : forall (must : bool) (n : nat) (relayers : list (nat * list bool)),
  btc_exec_ok must n relayers = true ->
  (forall r, List.In r relayers -> fst r <> 0%nat ->
     List.length (snd r) = n /\ forall i, Peano.lt i n -> List.nth i (snd r) false = true) /\
  (must = true -> exists r, List.In r relayers /\ fst r <> 0%nat /\
     List.length (snd r) = n /\ forall i, Peano.lt i n -> List.nth i (snd r) false = true).
Proof. exact btc_exec_ok_sound. Qed.
Print Assumptions C08_btc_exec_ok_sound.

Theorem C08_btc_exec_must_sign_refutes_silence :
  btc_exec_ok true 2 ((0, true :: true :: nil) :: (0, true :: true :: nil) :: (0, true :: true :: nil) :: nil)%nat = false /\
  btc_exec_ok false 2 ((0, true :: true :: nil) :: (0, true :: true :: nil) :: (0, true :: true :: nil) :: nil)%nat = true.
Proof. exact btc_exec_must_sign_refutes_silence. Qed.
Print Assumptions C08_btc_exec_must_sign_refutes_silence.

(* counting the results instead ("one result per input") sends a transaction with an unsigned input
   as soon as one input delivers twice *)
Theorem C08_btc_counting_results_refuted :
  btc_watch_counting 2 (List.repeat None 2) (Some 0 :: Some 0 :: Some 1 :: nil)%nat = WSent (Some 0%nat :: None :: nil) /\
  btc_sent_ok 2 1 (slots_valid_from 0 (Some 0%nat :: None :: nil)) = false /\
  btc_watch_tx 2 (Some 0 :: Some 0 :: Some 1 :: nil)%nat = WSent (Some 0 :: Some 1 :: nil)%nat.
Proof. exact counting_sends_unsigned_input. Qed.
Print Assumptions C08_btc_counting_results_refuted.

(* ---- (E) who may coordinate a session ------------------------------------------------------------ *)

(* the judge of the candidates a real process names accepts the model's, for every process kind, stored
   key share and peerstore *)
Theorem C08_candidates_ok_model : forall (k : proc_kind) (key_peers store : list Z),
  candidates_ok k key_peers store (coordinator_candidates k key_peers store) = true.
Proof. exact candidates_ok_model. Qed.
Print Assumptions C08_candidates_ok_model.

(* and means: every candidate can coordinate the session (keygen: a relayer of the peerstore; signing: a
   key holder; resharing: a holder of the old key that is in the peerstore), and there is a candidate
   whenever such a relayer exists *)
Theorem C08_candidates_ok_sound : forall (k : proc_kind) (key_peers store impl : list Z),
  candidates_ok k key_peers store impl = true ->
  (forall c, List.In c impl ->
     match k with
     | PKeygen => List.In c store
     | PSigning => List.In c key_peers
     | PResharing => List.In c key_peers /\ List.In c store
     end)
  /\ ((match k with
       | PKeygen => exists p, List.In p store
       | PSigning => exists p, List.In p key_peers
       | PResharing => exists p, List.In p key_peers /\ List.In p store
       end) -> impl <> nil).
Proof. exact candidates_ok_sound. Qed.
Print Assumptions C08_candidates_ok_sound.

(* for EVERY session id (rank): whoever the static election takes among candidates the judge accepts
   holds a share of the old key and takes part in the refresh, and somebody is elected whenever such a
   relayer exists - the refresh does not depend on which relayer sorts first *)
Theorem C08_refresh_coordinator_ok : forall (rank : Z -> Z) (key_peers store impl : list Z),
  candidates_ok PResharing key_peers store impl = true ->
  (forall c, elect rank impl = Some c -> List.In c key_peers /\ List.In c store)
  /\ ((exists p, List.In p key_peers /\ List.In p store) -> exists c, elect rank impl = Some c).
Proof. exact refresh_coordinator_ok. Qed.
Print Assumptions C08_refresh_coordinator_ok.

(* REFUTED for the FROST resharing as it was (every peer of the stored key share is a candidate): a
   relayer that LEAVES with the refresh is elected for the session ids for which it sorts first and is
   not in the peerstore - reproduced on the real code (open finding
   C08-frost-refresh-exmember-coordinator, repaired in /repo by 2f3fd0e) *)
Theorem C08_old_frost_resharing_candidates_refuted :
  exists (rank : Z -> Z) (key_peers store : list Z) (c : Z),
    candidates_ok PResharing key_peers store (old_frost_resharing_candidates key_peers store) = false
    /\ elect rank (old_frost_resharing_candidates key_peers store) = Some c /\ ~ List.In c store.
Proof. exact old_frost_resharing_candidates_refuted. Qed.
Print Assumptions C08_old_frost_resharing_candidates_refuted.

(* naming every relayer of the peerstore for a refresh (what a key generation does) lets a relayer that
   is only joining - no share of the old key - be elected *)
Theorem C08_peerstore_resharing_candidates_refuted :
  exists (rank : Z -> Z) (key_peers store : list Z) (c : Z),
    candidates_ok PResharing key_peers store store = false
    /\ elect rank store = Some c /\ ~ List.In c key_peers.
Proof. exact peerstore_resharing_candidates_refuted. Qed.
Print Assumptions C08_peerstore_resharing_candidates_refuted.

(* Non-vacuity: over Z mod 7 a degree-1 sharing of the secret 3 among the nodes 1,2,3: every pair
   and the triple reconstruct 3, the judge accepts; 7 is prime; the refresh/reshare hypotheses are
   satisfiable (g = 2X has g(0) = 0); a well-formed sort_parties / validate instance. *)
Example C08_nonvacuous :
  prime (Z.to_nat 7) /\
  share_pts 7 (3 :: 1 :: nil)%Z (1 :: 2 :: 3 :: nil)%Z = ((1, 4) :: (2, 5) :: (3, 6) :: nil)%Z /\
  List.map (reconstruct_Zq 7) (sublists 2 (share_pts 7 (3 :: 1 :: nil) (1 :: 2 :: 3 :: nil))%Z) = (3 :: 3 :: 3 :: nil)%Z /\
  shares_ok 7 1 (share_pts 7 (3 :: 1 :: nil) (1 :: 2 :: 3 :: nil))%Z 3%Z = true /\
  shares_ok 7 1 (frost_refresh_Zq 7 (share_pts 7 (3 :: 1 :: nil) (1 :: 2 :: 3 :: nil)) (2 :: nil) (1 :: 3 :: nil))%Z 3%Z = true /\
  wf_sort_parties (10 :: 20 :: 30 :: 40 :: nil)%Z (20 :: 40 :: nil)%Z = true /\
  sort_parties (10 :: 20 :: 30 :: 40 :: nil)%Z (20 :: 40 :: nil)%Z = SpOk (20 :: 40 :: 10 :: 30 :: nil)%Z /\
  validate_start_params 1 (5 :: 3 :: nil)%Z (3 :: 9 :: 5 :: nil)%Z (5 :: 3 :: 7 :: nil)%Z = VOk /\
  List.forallb (ideal_wf 7 3) (IStage (3 :: 1 :: nil)%Z (1 :: 2 :: 3 :: nil)%Z 1 :: ISign false 2 1
                               :: IStage (3 :: 4 :: 2 :: nil)%Z (2 :: 3 :: 4 :: 5 :: nil)%Z 2 :: ISign true 3 0 :: nil) = true /\
  result_channel true 5%Z 0 3 = (Some 5%Z :: nil)%list /\ result_channel false 5%Z 2 1 = (None :: nil)%list /\
  coordinator_candidates PResharing (3 :: 9 :: 5 :: nil)%Z (5 :: 3 :: 7 :: nil)%Z = (3 :: 5 :: nil)%Z /\
  candidates_ok PResharing (3 :: 9 :: 5 :: nil)%Z (5 :: 3 :: 7 :: nil)%Z (5 :: 3 :: nil)%Z = true /\
  elect (fun z => (- z)%Z) (3 :: 5 :: nil)%Z = Some 5%Z /\
  derive_in_run_share 7 false 3 2 1 <> frost_attempt_share 7 false 3 2 1.
Proof. by vm_compute. Qed.
