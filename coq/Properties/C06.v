(* C06 - A malformed deposit cannot crash the relayer or suppress its neighbours.
   Only the property theorems (each closed by [exact]) and Print Assumptions.

   Reading guide.  [run p es] is the model of the REPAIRED code (branch fix-C06) of path p on the
   range / retried transactions / retried blocks [es]; [run_old] is the code of tree 4a5972e.
   A deposit is [Good m] (well-formed: its handler yields m) or [Bad o] with o chosen by the
   adversary among Ok garbage | Err | Panic | Skip; the theorems quantify over ALL lists and ALL
   such choices, at every position. *)
From Coq Require Import List NArith Bool.
Import ListNotations.
From SygmaV Require Import Model.C06 Proofs.C06.
Local Open Scope N_scope.

(* Processing terminates with the grouped messages: it neither fails the range (an error returned
   to the listener loop makes it repeat the range forever) nor lets a panic escape (every deposit
   handler call of the model sits under a recover; an escaping panic has no representation other
   than the absence of [Done]). *)
Theorem C06_process_total : forall p es, exists g, run p es = Done g.
Proof. exact run_total. Qed.
Print Assumptions C06_process_total.

(* Exactly the emitted messages, per destination, in the original order. *)
Theorem C06_process_exact : forall p es g k, run p es = Done g -> get k g = all_emitted p es k.
Proof. exact run_exact. Qed.
Print Assumptions C06_process_exact.

(* Neighbours survive: for every destination the messages owed to the well-formed deposits are a
   subsequence (original relative order) of that destination's group, whatever the malformed
   deposits do and wherever they sit. *)
Theorem C06_neighbours_survive : forall p es g k,
  run p es = Done g -> Subseq (healthy p es k) (get k g).
Proof. exact neighbours_survive. Qed.
Print Assumptions C06_neighbours_survive.

(* Element-wise: each well-formed deposit (on the retry-by-transaction path: not yet executed)
   has its message in the group of its destination. *)
Theorem C06_good_deposit_delivered : forall p es g m st,
  run p es = Done g -> In (Good m, st) (flat es) ->
  (uses_status p = true -> st = StNew) ->
  In m (get (dest m) g).
Proof. exact good_deposit_delivered. Qed.
Print Assumptions C06_good_deposit_delivered.

(* Deposits that share field values.  Nothing in the code is keyed by the deposit nonce (which is
   counted per destination domain), the resource, the recipient or the bytes: deposits of one range
   that carry the same nonce for different destinations, the same destination, or that are
   byte-identical each yield their own message - every message owed to a well-formed deposit is in
   the group of its destination as many times as it is owed, whatever else the range holds. *)
Theorem C06_each_its_own_message : forall p es g m,
  run p es = Done g ->
  (count m (filter_map (owed p) (flat es)) <= count m (get (dest m) g))%nat.
Proof. exact each_its_own_message. Qed.
Print Assumptions C06_each_its_own_message.

(* The judge used on the implementation's observations accepts the model on every input ... *)
Theorem C06_spec_ok_model : forall p es, spec_ok p es false (run p es) = true.
Proof. exact spec_ok_model. Qed.
Print Assumptions C06_spec_ok_model.

(* ... and whatever observation it accepts satisfies the statement of the property: the process
   survived and processing ended, and each well-formed deposit has its message in the group of its
   destination - with multiplicity: deposits that are owed equal messages get one each. *)
Theorem C06_spec_ok_sound : forall p es crashed r,
  spec_ok p es crashed r = true ->
  crashed = false /\
  forall m st, In (Good m, st) (flat es) -> (uses_status p = true -> st = StNew) ->
    exists g, r = Done g /\ In m (get (dest m) g) /\
      (count m (filter_map (owed p) (flat es)) <= count m (get (dest m) g))%nat.
Proof. exact spec_ok_sound. Qed.
Print Assumptions C06_spec_ok_sound.

(* What the event handlers hand on to the relayer cannot crash the consumer.  HandleEvents pushes
   each group of [run p es] to the message channel as one batch; sygma-core's Relayer.route
   ([route], no recover) panics on an empty batch or a nil message.  The groups are non-empty by
   construction and hold only messages of their own destination ... *)
Theorem C06_no_empty_group : forall p es g k l,
  run p es = Done g -> In (k, l) g -> l <> [] /\ forall m, In m l -> dest m = k.
Proof. exact no_empty_group. Qed.
Print Assumptions C06_no_empty_group.

(* ... so every batch is delivered, whole, to the chain of its destination ... *)
Theorem C06_groups_routed : forall p es g k l,
  run p es = Done g -> In (k, l) g -> route (map Some l) = Delivered k l.
Proof. exact groups_routed. Qed.
Print Assumptions C06_groups_routed.

(* ... the judge on the batches observed on the message channel accepts the model on every input,
   and whatever it accepts holds no empty batch and no nil message and is survived by route. *)
Theorem C06_sent_ok_model : forall p es g, run p es = Done g -> sent_ok (batches_of g) = true.
Proof. exact sent_ok_model. Qed.
Print Assumptions C06_sent_ok_model.

Theorem C06_sent_ok_sound : forall bs, sent_ok bs = true ->
  forall b, In b bs -> b <> [] /\ ~ In None b /\ exists k l, route b = Delivered k l.
Proof. exact sent_ok_sound. Qed.
Print Assumptions C06_sent_ok_sound.

(* Downstream of the message channel (round 5).  route hands every message of a batch to the message
   handler of the destination chain, on the route goroutine, which recovers nothing: [route_h h] is
   route with a handler h that yields, per message, a proposal, an error or a panic.  A batch of the
   model none of whose messages makes the handler panic is survived, and every message of it that the
   handler turns into a proposal is written, whatever the handler does with the others ... *)
Theorem C06_route_h_delivers : forall h p es g k l,
  run p es = Done g -> In (k, l) g -> (forall m, In m l -> h m <> RPanic) ->
  exists w, route_h h (map Some l) = Delivered k w /\
    (forall m, In m l -> h m = RProp -> In m w) /\ (forall m, In m w -> In m l /\ h m = RProp).
Proof. exact route_h_delivers. Qed.
Print Assumptions C06_route_h_delivers.

(* ... whereas ONE message on which the handler panics, anywhere in the batch, ends the route
   goroutine and the process with it: nothing of the batch is written.  So the judge rejects every
   observed panic of a real destination message handler on a message the listener side produced ... *)
Theorem C06_route_h_panics : forall h p es g k l m,
  run p es = Done g -> In (k, l) g -> In m l -> h m = RPanic -> route_h h (map Some l) = RoutePanic.
Proof. exact route_h_panics. Qed.
Print Assumptions C06_route_h_panics.

(* ... and what it accepts holds no such message. *)
Theorem C06_down_ok_sound : forall hp, down_ok hp = true -> forall x, ~ In x hp.
Proof. exact down_ok_sound. Qed.
Print Assumptions C06_down_ok_sound.

(* The tree before the repairs violates the property on both retry paths (DESIGN.md section 7
   rows 3 and 4): statements about the explicitly named old definitions. *)
Theorem C06_retry_v1_old_refuted : exists es m st,
  In (Good m, st) (flat es) /\ st = StNew /\
  exists g, run_old EvmRetryV1 es = Done g /\ ~ In m (get (dest m) g).
Proof. exact retry_v1_old_refuted. Qed.
Print Assumptions C06_retry_v1_old_refuted.

Theorem C06_sub_retry_old_refuted_err : exists es m st,
  In (Good m, st) (flat es) /\ run_old SubRetry es = Failed.
Proof. exact sub_retry_old_refuted_err. Qed.
Print Assumptions C06_sub_retry_old_refuted_err.

Theorem C06_sub_retry_old_refuted_panic : exists es m st,
  In (Good m, st) (flat es) /\
  exists g, run_old SubRetry es = Done g /\ ~ In m (get (dest m) g).
Proof. exact sub_retry_old_refuted_panic. Qed.
Print Assumptions C06_sub_retry_old_refuted_panic.

(* Non-vacuity: a range with poison at the head, in the middle and at the tail, two destinations;
   and a retried range whose deposits share the nonce 7 for destinations 2 and 3 (the first of them
   malformed), share destination and nonce with different contents, and hold a byte-identical pair. *)
Example C06_nonvacuous :
  let es := [RDeps [(Bad Panic, StNew); (Good (2, (1, 1)), StNew); (Bad Err, StNew); (Good (3, (2, 2)), StNew);
                    (Bad (Ok (2, (9, 3))), StNew); (Good (2, (3, 1)), StNew); (Bad Skip, StNew)]] in
  run EvmRetryV1 es = Done [(2, [(2, (1, 1)); (2, (9, 3)); (2, (3, 1))]); (3, [(3, (2, 2))])] /\
  healthy EvmRetryV1 es 2 = [(2, (1, 1)); (2, (3, 1))] /\
  run_old EvmRetryV1 es = Done [] /\ run_old SubRetry es = Done [] /\
  run SubRetry es = run EvmRetryV1 es /\ run BtcDeposits es = run EvmRetryV1 es /\
  sent_ok (batches_of [(2, [(2, (1, 1)); (2, (9, 3)); (2, (3, 1))]); (3, [(3, (2, 2))])]) = true /\
  (* a destination all of whose deposits are malformed has NO group; an empty or nil-holding batch is rejected *)
  run EvmDeposits [RDeps [(Good (2, (1, 1)), StNew); (Bad Err, StNew)]] = Done [(2, [(2, (1, 1))])] /\
  sent_ok [[Some (2, (1, 1))]; []] = false /\ sent_ok [[Some (2, (1, 1)); None]] = false /\
  let sh := [RDeps [(Bad Panic, StNew); (Good (3, (7, 1)), StNew); (Good (2, (7, 1)), StNew)];
             RDeps [(Good (2, (7, 2)), StNew); (Good (3, (7, 1)), StNew)]] in
  run SubRetry sh = Done [(3, [(3, (7, 1)); (3, (7, 1))]); (2, [(2, (7, 1)); (2, (7, 2))])] /\
  spec_ok SubRetry sh false (run SubRetry sh) = true /\
  (* de-duplication by nonce alone, by (destination, nonce), or of the byte-identical pair is rejected *)
  spec_ok SubRetry sh false (Done [(3, [(3, (7, 1)); (3, (7, 1))])]) = false /\
  spec_ok SubRetry sh false (Done [(3, [(3, (7, 1)); (3, (7, 1))]); (2, [(2, (7, 1))])]) = false /\
  spec_ok SubRetry sh false (Done [(3, [(3, (7, 1))]); (2, [(2, (7, 1)); (2, (7, 2))])]) = false /\
  (* downstream: a handler that refuses the garbage message (2, (9, 3)) still writes its neighbours' proposals; one
     that panics on it writes nothing; an observed handler panic is rejected *)
  let h := fun m : msg => if N.eqb (nonce m) 9 then RErr else RProp in
  let hpanic := fun m : msg => if N.eqb (nonce m) 9 then RPanic else RProp in
  route_h h (map Some [(2, (1, 1)); (2, (9, 3)); (2, (3, 1))]) = Delivered 2 [(2, (1, 1)); (2, (3, 1))] /\
  route_h hpanic (map Some [(2, (1, 1)); (2, (9, 3)); (2, (3, 1))]) = RoutePanic /\
  down_ok [] = true /\ down_ok [(1, (2, (9, 3)))] = false.
Proof. vm_compute. repeat split. Qed.
