(* C18 - Key shares and the topology survive crashes intact.
   This file contains only the property theorems (each closed by [exact]) and Print Assumptions.
   The store protocol modelled as [store_new] is the REPAIRED code (fix-C18: temporary file in the same
   directory, write, fsync, close, rename over the target); [store_old] is the code before the repair
   (truncate in place). *)
From Coq Require Import List NArith Bool Arith String.
Import ListNotations.
From SygmaV Require Import Model.C18 Proofs.C18 Proofs.C18Hist Model.C18Codec Proofs.C18Codec.

(* For EVERY trace of the atomic-replace shape, every previous file-system state, every contents and
   EVERY crash point (between any two operations and after any number of bytes of any write) a reader
   of the target sees the complete previous or the complete final contents. *)
Theorem C18_atomic_replace_safe : forall t tr, atomic_replace_shape t tr = true ->
  forall s, crash_safe s t tr.
Proof. exact atomic_replace_safe. Qed.
Print Assumptions C18_atomic_replace_safe.

(* The repaired protocol has that shape, ends with exactly the new contents, and a crash anywhere in
   it leaves old or new - for all contents, all temporary names different from the target. *)
Theorem C18_store_new_shape : forall tmp t d, N.eqb tmp t = false ->
  atomic_replace_shape t (store_new tmp t d) = true.
Proof. exact store_new_shape. Qed.
Print Assumptions C18_store_new_shape.

Theorem C18_store_new_result : forall s tmp t d, N.eqb tmp t = false ->
  run s (store_new tmp t d) t = Some d.
Proof. exact store_new_result. Qed.
Print Assumptions C18_store_new_result.

Theorem C18_store_new_atomic : forall s tmp t d s', N.eqb tmp t = false ->
  crashed s (store_new tmp t d) s' -> s' t = s t \/ s' t = Some d.
Proof. exact store_new_atomic. Qed.
Print Assumptions C18_store_new_atomic.

(* A write failing after ANY number k of bytes (and a crash anywhere on that path) leaves the previous
   value. *)
Theorem C18_store_new_failed_keeps_old : forall s tmp t d k s', N.eqb tmp t = false ->
  crashed s (store_new_failed tmp d k) s' -> s' t = s t.
Proof. exact store_new_failed_keeps_old. Qed.
Print Assumptions C18_store_new_failed_keeps_old.

(* The protocol used before the repair is unsafe for every non-empty old and new value ... *)
Theorem C18_trunc_in_place_unsafe : forall s t old d, s t = Some old -> old <> [] -> d <> [] ->
  exists s', crashed s (store_old t d) s' /\ s' t = Some [] /\ s' t <> s t /\ s' t <> run s (store_old t d) t.
Proof. exact trunc_in_place_unsafe. Qed.
Print Assumptions C18_trunc_in_place_unsafe.

Theorem C18_trunc_in_place_prefixes : forall s t d k, (k <= List.length d)%nat ->
  exists s', crashed s (store_old t d) s' /\ s' t = Some (firstn k d).
Proof. exact trunc_in_place_prefixes. Qed.
Print Assumptions C18_trunc_in_place_prefixes.

(* ... explicit witness: the specification, the recogniser and the executable judge all reject it. *)
Theorem C18_trunc_in_place_unsafe_refuted :
  exists s t d, ~ crash_safe s t (store_old t d) /\
                atomic_replace_shape t (store_old t d) = false /\
                crash_safe_b 1 s t (store_old t d) = false.
Proof. exact trunc_in_place_unsafe_refuted. Qed.
Print Assumptions C18_trunc_in_place_unsafe_refuted.

(* The judge run on observed system-call traces: it accepts every trace of the shape (any spacing g of
   the enumerated cut points), and with g = 1 it IS the specification. *)
Theorem C18_judge_accepts_shape : forall g s t tr,
  atomic_replace_shape t tr = true -> crash_safe_b g s t tr = true.
Proof. exact shape_crash_safe_b. Qed.
Print Assumptions C18_judge_accepts_shape.

Theorem C18_judge_of_spec : forall g s t tr, crash_safe s t tr -> crash_safe_b g s t tr = true.
Proof. exact crash_safe_b_of_crash_safe. Qed.
Print Assumptions C18_judge_of_spec.

Theorem C18_judge_complete : forall s t tr, crash_safe_b 1 s t tr = true -> crash_safe s t tr.
Proof. exact crash_safe_b_complete. Qed.
Print Assumptions C18_judge_complete.

Theorem C18_judge_sound : forall g s t tr, crash_safe_b g s t tr = true ->
  forall s', In s' (crash_states g s tr) -> s' t = s t \/ s' t = run s tr t.
Proof. exact crash_safe_b_sound. Qed.
Print Assumptions C18_judge_sound.

(* Failed-write sweep: the judge accepts the model, what it accepts is old-or-new at every k, and the
   sweep model is what the protocol model yields for every k <= |d|. *)
Theorem C18_sweep_ok_model : forall len, sweep_ok (sweep_model len) = true.
Proof. exact sweep_ok_model. Qed.
Print Assumptions C18_sweep_ok_model.

Theorem C18_sweep_ok_sound : forall obs, sweep_ok obs = true -> forall o, In o obs -> o = Old \/ o = New.
Proof. exact sweep_ok_sound. Qed.
Print Assumptions C18_sweep_ok_sound.

Theorem C18_sweep_model_spec : forall s tmp t old d k, N.eqb tmp t = false -> s t = Some old -> old <> d ->
  (k <= List.length d)%nat ->
  nth_error (sweep_model (List.length d)) k =
  Some (classify old d (run s (if k <? List.length d then store_new_failed tmp d k else store_new tmp t d) t)).
Proof. exact sweep_model_spec. Qed.
Print Assumptions C18_sweep_model_spec.

(* ---- histories of store operations ------------------------------------------------------------
   For EVERY history of store attempts on one target - each attempt of the repaired protocol shape (the
   temporary file is created fresh: a new name with O_EXCL or an old name with O_TRUNC) completes, has
   its write fail after any number of bytes, or dies at ANY point (between two operations or after any
   number of bytes of the write, on the normal or on the error path) - started in ANY file-system
   state (leftovers of earlier crashed attempts present), with any temporary names different from the
   target (reused or not): after every attempt a reader finds the complete value of that attempt or -
   only if the attempt did not complete - exactly what it found before. *)
Theorem C18_history_safe : forall t h s l, tmps_ok t h = true -> hist_run t s h l ->
  steps_ok (s t) (spec_of h) (map (fun x : fs => x t) l).
Proof. exact history_safe. Qed.
Print Assumptions C18_history_safe.

(* ... so after the whole history a read returns the last COMPLETED store's value or the complete value
   of an unfinished store after it; a history ending with a completed store reads exactly its value *)
Theorem C18_history_last : forall t h s l, tmps_ok t h = true -> hist_run t s h l ->
  In (last (map (fun x : fs => x t) l) (s t)) (allowed [s t] (spec_of h)).
Proof. exact history_last. Qed.
Print Assumptions C18_history_last.

Theorem C18_history_completed : forall t h a s l, tmps_ok t (h ++ [a]) = true -> a_fate a = Done ->
  hist_run t s (h ++ [a]) l -> last (map (fun x : fs => x t) l) (s t) = Some (a_data a).
Proof. exact history_completed. Qed.
Print Assumptions C18_history_completed.

(* the judge of observed histories (on value numbers) implies the specification, and the model passes it *)
Theorem C18_hist_judge_sound : forall val l p, hist_ok (RVal p) l = true ->
  steps_ok (Some (val p)) (spec_of_obs val l) (map (fun x : N * fate * reading => decode val (snd x)) l).
Proof. exact hist_ok_sound. Qed.
Print Assumptions C18_hist_judge_sound.

Theorem C18_hist_judge_model : forall val t h s l ids p, tmps_ok t h = true -> hist_run t s h l ->
  s t = Some (val p) -> map a_data h = map val ids ->
  exists rs, map (decode val) rs = map (fun x : fs => x t) l /\
             hist_ok (RVal p) (combine (combine ids (map a_fate h)) rs) = true.
Proof. exact hist_ok_model. Qed.
Print Assumptions C18_hist_judge_model.

(* a store or a read that never returns gives a reading that is no value: rejected after any attempt,
   whatever its fate, when a value was stored before (the judge of the observation "hung") *)
Theorem C18_hist_judge_no_value : forall p v f l, hist_ok (RVal p) ((v, f, ROther) :: l) = false.
Proof. exact hist_ok_no_value. Qed.
Print Assumptions C18_hist_judge_no_value.

Theorem C18_hung_rejected : hung_ok = false.
Proof. exact hung_rejected. Qed.
Print Assumptions C18_hung_rejected.

(* quick store / read sequences on one long-lived store object (every store completes, reads follow): the
   judge - every read returns the value stored last - is the history judge on the all-Done history *)
Theorem C18_reads_judge_is_hist : forall l p,
  reads_ok l = hist_ok p (map (fun x : N * reading => (fst x, Done, snd x)) l).
Proof. exact reads_ok_is_hist. Qed.
Print Assumptions C18_reads_judge_is_hist.

Theorem C18_reads_judge_sound : forall l, reads_ok l = true -> forall v r, In (v, r) l -> r = RVal v.
Proof. exact reads_ok_sound. Qed.
Print Assumptions C18_reads_judge_sound.

(* stores through a configured path of any file-system shape, each reporting success or an error, the
   file read through the same path before the first and after every store: the judge implies the
   specification for both getters whatever was read before (also "nothing"), a store that reported
   success must be read back, and the abstract store (success installs, an error changes nothing)
   passes *)
Theorem C18_paths_judge_sound : forall val prev l, paths_ok prev l = true ->
  steps_ok (decode val prev) (spec_of_obs val (paths_obs l false))
           (map (fun x : N * fate * reading => decode val (snd x)) (paths_obs l false)) /\
  steps_ok (decode val prev) (spec_of_obs val (paths_obs l true))
           (map (fun x : N * fate * reading => decode val (snd x)) (paths_obs l true)).
Proof. exact paths_ok_sound. Qed.
Print Assumptions C18_paths_judge_sound.

Theorem C18_paths_done_reads : forall prev v r1 r2 l, paths_ok prev ((v, Done, r1, r2) :: l) = true ->
  r1 = RVal v /\ r2 = RVal v.
Proof. exact paths_ok_done_reads. Qed.
Print Assumptions C18_paths_done_reads.

Theorem C18_paths_model_ok : forall l prev,
  forallb (fun x : N * fate => negb (fate_eqb (snd x) Died)) l = true ->
  hist_ok prev (combine l (path_model prev l)) = true.
Proof. exact path_model_ok. Qed.
Print Assumptions C18_paths_model_ok.

(* the recogniser [determined] used on observed traces: what such a trace leaves in the target does not
   depend on any other file of the directory; the repaired protocol passes it *)
Theorem C18_leftovers_irrelevant : forall t tr s1 s2, determined [t] tr = true -> s1 t = s2 t ->
  run s1 tr t = run s2 tr t.
Proof. exact leftovers_irrelevant. Qed.
Print Assumptions C18_leftovers_irrelevant.

Theorem C18_store_fresh_determined : forall ex tmp t d, determined [t] (store_fresh ex tmp t d) = true.
Proof. exact store_fresh_determined. Qed.
Print Assumptions C18_store_fresh_determined.

(* a protocol that REUSES a temporary file without truncating it is crash-atomic store by store, yet
   unsafe over histories: a store of d1 that dies after writing its temporary file, followed by a
   healthy store of d2, installs d2 followed by the tail of d1 - for all d1, d2 *)
Theorem C18_keep_reuse_mixed : forall s tmp t d1 d2, N.eqb tmp t = false -> s tmp = None ->
  exists s1, crashed s (store_keep tmp t d1) s1 /\ s1 t = s t /\
             run s1 (store_keep tmp t d2) t = Some (d2 ++ skipn (List.length d2) d1).
Proof. exact keep_reuse_mixed. Qed.
Print Assumptions C18_keep_reuse_mixed.

Theorem C18_keep_reuse_unsafe_refuted :
  exists s t tmp d1 d2 s1, crashed s (store_keep tmp t d1) s1 /\
    run s1 (store_keep tmp t d2) t <> Some d2 /\ run s1 (store_keep tmp t d2) t <> s t /\
    atomic_replace_shape t (store_keep tmp t d2) = true /\
    determined [t] (store_keep tmp t d2) = false.
Proof. exact keep_reuse_unsafe_refuted. Qed.
Print Assumptions C18_keep_reuse_unsafe_refuted.

(* Codec of the topology file (partial: the key-share JSON of third-party types is differential only):
   for EVERY topology whose peer ids and addresses contain no double quote or backslash, parsing the
   printed document gives the topology back. *)
Theorem C18_topology_roundtrip : forall t, safe_topo t = true -> parse_topo (print_topo t) = Some t.
Proof. exact topology_roundtrip. Qed.
Print Assumptions C18_topology_roundtrip.

Theorem C18_topo_judge_model : forall t, safe_topo t = true ->
  otopo_eqb (parse_topo (print_topo t)) t = true.
Proof. exact topo_codec_judge_model. Qed.
Print Assumptions C18_topo_judge_model.

Theorem C18_topo_judge_sound : forall o t, otopo_eqb o t = true -> o = Some t.
Proof. exact otopo_eqb_eq. Qed.
Print Assumptions C18_topo_judge_sound.

(* Non-vacuity *)
Example C18_nonvacuous :
  let s : fs := fun p => if N.eqb p 0 then Some [1; 2; 3]%N else None in
  atomic_replace_shape 0%N (store_new 7%N 0%N [4; 5]%N) = true /\
  run s (store_new 7%N 0%N [4; 5]%N) 0%N = Some [4; 5]%N /\
  run s (store_new 7%N 0%N [4; 5]%N) 7%N = None /\
  crash_safe_b 1 s 0%N (store_new 7%N 0%N [4; 5]%N) = true /\
  List.length (crash_states 1 s (store_new 7%N 0%N [4; 5]%N)) = 8 /\
  crash_safe_b 1 s 0%N (store_old 0%N [4; 5]%N) = false /\
  run s (store_new_failed 7%N [4; 5]%N 1) 0%N = Some [1; 2; 3]%N /\
  sweep_model 2 = [Old; Old; New] /\
  tmps_ok 0%N [mkAttempt true 7%N [4; 5; 6; 7]%N Died; mkAttempt false 7%N [8]%N Done] = true /\
  hist_run 0%N s [mkAttempt true 7%N [4; 5; 6; 7]%N Died; mkAttempt false 7%N [8]%N Done]
    [apply (apply s (OpenExcl 7%N)) (Write 7%N [4; 5; 6; 7]%N);
     run (apply (apply s (OpenExcl 7%N)) (Write 7%N [4; 5; 6; 7]%N)) (store_fresh false 7%N 0%N [8]%N)] /\
  run (apply (apply s (OpenExcl 7%N)) (Write 7%N [4; 5; 6; 7]%N)) (store_fresh false 7%N 0%N [8]%N) 0%N = Some [8]%N /\
  run (apply (apply s (OpenKeep 7%N)) (WriteAt 7%N 0 [4; 5; 6; 7]%N)) (store_keep 7%N 0%N [8]%N) 0%N = Some [8; 5; 6; 7]%N /\
  hist_ok (RVal 0) [(1%N, Died, RVal 0%N); (2%N, Done, RVal 2%N)] = true /\
  hist_ok (RVal 0) [(1%N, Died, RVal 0%N); (2%N, Done, ROther)] = false /\
  (* store 1, read, store 2 (same length, same timestamp tick), read: the second read must see 2 *)
  reads_ok [(1%N, RVal 1%N); (2%N, RVal 2%N)] = true /\
  reads_ok [(1%N, RVal 1%N); (2%N, RVal 1%N)] = false /\
  (* a path that is a link: store 1 reports success but the previous value 0 is read back *)
  paths_ok (RVal 0) [(1%N, Done, RVal 0%N, RVal 0%N)] = false /\
  paths_ok ROther [(1%N, Failed, ROther, ROther); (2%N, Done, RVal 2%N, RVal 2%N)] = true /\
  path_model (RVal 0) [(1%N, Failed); (2%N, Done)] = [RVal 0%N; RVal 2%N] /\
  safe_topo (mkTopo [mkPeer "QmA"%string ["/dns4/r1/tcp/9000"%string]; mkPeer "QmB"%string []] 2) = true /\
  parse_topo (print_topo (mkTopo [mkPeer "QmA"%string ["/dns4/r1/tcp/9000"%string]; mkPeer "QmB"%string []] 2))
  = Some (mkTopo [mkPeer "QmA"%string ["/dns4/r1/tcp/9000"%string]; mkPeer "QmB"%string []] 2).
Proof.
  cbv zeta. repeat match goal with |- _ /\ _ => split end; try (vm_compute; reflexivity).
  repeat constructor.
Qed.
