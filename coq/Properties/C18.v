(* C18 - Key shares and the topology survive crashes intact.
   This file contains only the property theorems (each closed by [exact]) and Print Assumptions.
   The store protocol modelled as [store_new] is the REPAIRED code (fix-C18: temporary file in the same
   directory, write, fsync, close, rename over the target); [store_old] is the code before the repair
   (truncate in place). *)
From Coq Require Import List NArith Bool Arith String.
Import ListNotations.
From SygmaV Require Import Model.C18 Proofs.C18 Model.C18Codec Proofs.C18Codec.

(* For EVERY trace of the atomic-replace shape, every previous file-system state, every contents and
   EVERY crash point (between any two operations and after any number of bytes of any write) a reader
   of the target sees the complete previous or the complete final contents. *)
Theorem C18_atomic_replace_safe : forall t tr, atomic_replace_shape t tr = true ->
  forall s, crash_safe s t tr.
Proof. exact atomic_replace_safe. Qed.
Print Assumptions C18_atomic_replace_safe.

(* The repaired protocol has that shape, ends with exactly the new contents, and a crash anywhere in
   it leaves old or new - for all contents, all temporary names different from the target. *)
Theorem C18_store_new_shape : forall tmp t d, N.eqb tmp t = false ->
  atomic_replace_shape t (store_new tmp t d) = true.
Proof. exact store_new_shape. Qed.
Print Assumptions C18_store_new_shape.

Theorem C18_store_new_result : forall s tmp t d, N.eqb tmp t = false ->
  run s (store_new tmp t d) t = Some d.
Proof. exact store_new_result. Qed.
Print Assumptions C18_store_new_result.

Theorem C18_store_new_atomic : forall s tmp t d s', N.eqb tmp t = false ->
  crashed s (store_new tmp t d) s' -> s' t = s t \/ s' t = Some d.
Proof. exact store_new_atomic. Qed.
Print Assumptions C18_store_new_atomic.

(* A write failing after ANY number k of bytes (and a crash anywhere on that path) leaves the previous
   value. *)
Theorem C18_store_new_failed_keeps_old : forall s tmp t d k s', N.eqb tmp t = false ->
  crashed s (store_new_failed tmp d k) s' -> s' t = s t.
Proof. exact store_new_failed_keeps_old. Qed.
Print Assumptions C18_store_new_failed_keeps_old.

(* The protocol used before the repair is unsafe for every non-empty old and new value ... *)
Theorem C18_trunc_in_place_unsafe : forall s t old d, s t = Some old -> old <> [] -> d <> [] ->
  exists s', crashed s (store_old t d) s' /\ s' t = Some [] /\ s' t <> s t /\ s' t <> run s (store_old t d) t.
Proof. exact trunc_in_place_unsafe. Qed.
Print Assumptions C18_trunc_in_place_unsafe.

Theorem C18_trunc_in_place_prefixes : forall s t d k, (k <= List.length d)%nat ->
  exists s', crashed s (store_old t d) s' /\ s' t = Some (firstn k d).
Proof. exact trunc_in_place_prefixes. Qed.
Print Assumptions C18_trunc_in_place_prefixes.

(* ... explicit witness: the specification, the recogniser and the executable judge all reject it. *)
Theorem C18_trunc_in_place_unsafe_refuted :
  exists s t d, ~ crash_safe s t (store_old t d) /\
                atomic_replace_shape t (store_old t d) = false /\
                crash_safe_b 1 s t (store_old t d) = false.
Proof. exact trunc_in_place_unsafe_refuted. Qed.
Print Assumptions C18_trunc_in_place_unsafe_refuted.

(* The judge run on observed system-call traces: it accepts every trace of the shape (any spacing g of
   the enumerated cut points), and with g = 1 it IS the specification. *)
Theorem C18_judge_accepts_shape : forall g s t tr,
  atomic_replace_shape t tr = true -> crash_safe_b g s t tr = true.
Proof. exact shape_crash_safe_b. Qed.
Print Assumptions C18_judge_accepts_shape.

Theorem C18_judge_of_spec : forall g s t tr, crash_safe s t tr -> crash_safe_b g s t tr = true.
Proof. exact crash_safe_b_of_crash_safe. Qed.
Print Assumptions C18_judge_of_spec.

Theorem C18_judge_complete : forall s t tr, crash_safe_b 1 s t tr = true -> crash_safe s t tr.
Proof. exact crash_safe_b_complete. Qed.
Print Assumptions C18_judge_complete.

Theorem C18_judge_sound : forall g s t tr, crash_safe_b g s t tr = true ->
  forall s', In s' (crash_states g s tr) -> s' t = s t \/ s' t = run s tr t.
Proof. exact crash_safe_b_sound. Qed.
Print Assumptions C18_judge_sound.

(* Failed-write sweep: the judge accepts the model, what it accepts is old-or-new at every k, and the
   sweep model is what the protocol model yields for every k <= |d|. *)
Theorem C18_sweep_ok_model : forall len, sweep_ok (sweep_model len) = true.
Proof. exact sweep_ok_model. Qed.
Print Assumptions C18_sweep_ok_model.

Theorem C18_sweep_ok_sound : forall obs, sweep_ok obs = true -> forall o, In o obs -> o = Old \/ o = New.
Proof. exact sweep_ok_sound. Qed.
Print Assumptions C18_sweep_ok_sound.

Theorem C18_sweep_model_spec : forall s tmp t old d k, N.eqb tmp t = false -> s t = Some old -> old <> d ->
  (k <= List.length d)%nat ->
  nth_error (sweep_model (List.length d)) k =
  Some (classify old d (run s (if k <? List.length d then store_new_failed tmp d k else store_new tmp t d) t)).
Proof. exact sweep_model_spec. Qed.
Print Assumptions C18_sweep_model_spec.

(* Codec of the topology file (partial: the key-share JSON of third-party types is differential only):
   for EVERY topology whose peer ids and addresses contain no double quote or backslash, parsing the
   printed document gives the topology back. *)
Theorem C18_topology_roundtrip : forall t, safe_topo t = true -> parse_topo (print_topo t) = Some t.
Proof. exact topology_roundtrip. Qed.
Print Assumptions C18_topology_roundtrip.

Theorem C18_topo_judge_model : forall t, safe_topo t = true ->
  otopo_eqb (parse_topo (print_topo t)) t = true.
Proof. exact topo_codec_judge_model. Qed.
Print Assumptions C18_topo_judge_model.

Theorem C18_topo_judge_sound : forall o t, otopo_eqb o t = true -> o = Some t.
Proof. exact otopo_eqb_eq. Qed.
Print Assumptions C18_topo_judge_sound.

(* Non-vacuity *)
Example C18_nonvacuous :
  let s : fs := fun p => if N.eqb p 0 then Some [1; 2; 3]%N else None in
  atomic_replace_shape 0%N (store_new 7%N 0%N [4; 5]%N) = true /\
  run s (store_new 7%N 0%N [4; 5]%N) 0%N = Some [4; 5]%N /\
  run s (store_new 7%N 0%N [4; 5]%N) 7%N = None /\
  crash_safe_b 1 s 0%N (store_new 7%N 0%N [4; 5]%N) = true /\
  List.length (crash_states 1 s (store_new 7%N 0%N [4; 5]%N)) = 8 /\
  crash_safe_b 1 s 0%N (store_old 0%N [4; 5]%N) = false /\
  run s (store_new_failed 7%N [4; 5]%N 1) 0%N = Some [1; 2; 3]%N /\
  sweep_model 2 = [Old; Old; New] /\
  safe_topo (mkTopo [mkPeer "QmA"%string ["/dns4/r1/tcp/9000"%string]; mkPeer "QmB"%string []] 2) = true /\
  parse_topo (print_topo (mkTopo [mkPeer "QmA"%string ["/dns4/r1/tcp/9000"%string]; mkPeer "QmB"%string []] 2))
  = Some (mkTopo [mkPeer "QmA"%string ["/dns4/r1/tcp/9000"%string]; mkPeer "QmB"%string []] 2).
Proof. vm_compute. repeat split. Qed.
