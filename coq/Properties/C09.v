(* C09 - One live MPC process per session id, and sessions always clean up.
   Only the property theorems (each closed by [exact]) and Print Assumptions.

   The admission theorems are about the REPAIRED Execute (the check of pendingProcesses inside the
   processLock critical section, variant [New]); the code as found (variant [Old]) is refuted by
   C09_old_at_most_one_live_refuted.  Threads are natural numbers, one per Execute call; [sid t]
   is the session id call t asks for; a schedule is any list of [Step t] / [Fin t] events. *)
From Coq Require Import List Arith NArith Bool.
Import ListNotations.
From SygmaV Require Import Model.C09 Proofs.C09 Proofs.C09_Batch.

(* Every schedule, every assignment of session ids, every reachable state: two different calls for
   the same session id are never both running. *)
Theorem C09_at_most_one_live : forall (sid : nat -> nat) (sched : list sev) (t1 t2 : nat),
  let st := exec New sid sched (init New) in
  sid t1 = sid t2 -> pcs st t1 = PRun -> pcs st t2 = PRun -> t1 = t2.
Proof. exact at_most_one_live. Qed.
Print Assumptions C09_at_most_one_live.

(* Of n overlapping requests (threads 0..n-1; no session of id s has ended yet) whose requests for
   the free session id s have all been decided, exactly one runs - the others were refused. *)
Theorem C09_exactly_one_admitted : forall (sid : nat -> nat) (n : nat) (sched : list sev) (s : nat),
  no_fin_for sid s sched ->
  let st := exec New sid sched (init New) in
  (exists t, t < n /\ sid t = s) ->
  (forall t, sid t = s -> t < n -> decided (pcs st t) = true) ->
  (forall t, sid t = s -> n <= t -> claims (pcs st t) = false) ->
  exists t, (t < n /\ sid t = s /\ pcs st t = PRun) /\
            forall u, sid u = s -> pcs st u = PRun -> u = t.
Proof. exact exactly_one_admitted. Qed.
Print Assumptions C09_exactly_one_admitted.

(* "Without data races", as far as a model can say it: every access to the pending map happens
   while the accessing thread holds processLock, and the critical sections exclude each other. *)
Theorem C09_lock_discipline : forall (sid : nat -> nat) (sched : list sev),
  all_locked (acc (exec New sid sched (init New))) = true.
Proof. exact lock_discipline. Qed.
Print Assumptions C09_lock_discipline.

Theorem C09_mutual_exclusion : forall (sid : nat -> nat) (sched : list sev) (t1 t2 : nat),
  let st := exec New sid sched (init New) in
  in_cs (pcs st t1) = true -> in_cs (pcs st t2) = true -> t1 = t2.
Proof. exact mutual_exclusion. Qed.
Print Assumptions C09_mutual_exclusion.

(* However a session ends (any role, outcome, phase, number of processes): subscriptions =
   unsubscriptions per message type, CloseSession once, every process stopped exactly once,
   pending flag false. *)
Theorem C09_cleanup_complete : forall r o ph np, cleanup_ok np (session_trace r o ph np) = true.
Proof. exact cleanup_complete. Qed.
Print Assumptions C09_cleanup_complete.

(* The state in which Execute is ENTERED: with a context that is already cancelled / past its
   deadline (phase BeforeEntry; covered by C09_cleanup_complete like every phase) the session is
   admitted and torn down exactly like one cancelled before start: no process is run, every
   subscription is released, CloseSession once, every process stopped once, the pending flag is
   false again, Execute returns nil. *)
Theorem C09_cancelled_before_entry : forall r np,
  session_trace r Cancelled BeforeEntry np = session_trace r Cancelled BeforeStart np /\
  runs r Cancelled BeforeEntry = false /\
  session_ret r Cancelled BeforeEntry = RNil /\
  cleanup_ok np (session_trace r Cancelled BeforeEntry np) = true.
Proof. exact cancelled_before_entry. Qed.
Print Assumptions C09_cancelled_before_entry.

Theorem C09_cleanup_ok_sound : forall np l, cleanup_ok np l = true ->
  (forall m, count_ev (is_sub m) l = count_ev (is_unsub m) l) /\
  (count_ev is_close l = 1 \/
   (count_ev is_close l = 0 /\ (forall m, count_ev (is_sub m) l = 0) /\
    (forall p, p < np -> count_ev (is_run p) l = 0))) /\
  (forall p, p < np -> count_ev (is_stop p) l = 1 /\ count_ev (is_run p) l <= 1) /\
  last_pend l = Some false.
Proof. exact cleanup_ok_sound. Qed.
Print Assumptions C09_cleanup_ok_sound.

(* In the interleaving model: once no call for s is live any more the pending flag of s is false,
   and a new call for s, run on its own, is admitted. *)
Theorem C09_reusable : forall (sid : nat -> nat) (sched : list sev) (s t0 : nat),
  let st := exec New sid sched (init New) in
  (forall t, sid t = s -> claims (pcs st t) = false) ->
  (forall t, in_cs (pcs st t) = false) ->
  sid t0 = s -> pcs st t0 = PLock ->
  pcs (exec New sid [Step t0; Step t0; Step t0; Step t0] st) t0 = PRun.
Proof. exact reusable. Qed.
Print Assumptions C09_reusable.

(* The code as found: the schedule  0.Check 1.Check 0.Lock 0.Set 0.Unlock 1.Lock 1.Set 1.Unlock
   leaves both requests for the same session id running, and the map was read without the lock. *)
Theorem C09_old_at_most_one_live_refuted :
  exists (sid : nat -> nat) (sched : list sev) (t1 t2 : nat),
    let st := exec Old sid sched (init Old) in
    t1 <> t2 /\ sid t1 = sid t2 /\ pcs st t1 = PRun /\ pcs st t2 = PRun /\
    all_locked (acc st) = false.
Proof.
  exists (fun _ => 0), old_witness, 0, 1.
  destruct old_two_live as [H1 [H2 H3]]. cbv zeta. split; [discriminate|]. split; [reflexivity|]. split; [exact H1|]. split; [exact H2 | exact H3].
Qed.
Print Assumptions C09_old_at_most_one_live_refuted.

(* The judge of the admission runs accepts the model on every complete schedule, and whatever it
   accepts satisfies the property. *)
Theorem C09_conc_ok_model : forall (sid : nat -> nat) (n : nat) (sched : list sev),
  steps_below n sched = true ->
  let st := exec New sid sched (init New) in
  all_decided n st = true ->
  conc_ok n sid (fun t => pc_eqb (pcs st t) PRun) = true.
Proof. exact conc_ok_model. Qed.
Print Assumptions C09_conc_ok_model.

Theorem C09_conc_ok_sound : forall n sid adm, conc_ok n sid adm = true ->
  (forall t, t < n -> exists u, u < n /\ sid u = sid t /\ adm u = true) /\
  (forall u w, u < n -> w < n -> sid u = sid w -> adm u = true -> adm w = true -> u = w).
Proof. exact conc_ok_sound. Qed.
Print Assumptions C09_conc_ok_sound.

(* Streams: after ReleaseStreams s no stream of s is retained, other sessions are untouched, and
   exactly the streams registered for s are closed (each entry once). *)
Theorem C09_release_none_retained : forall P m s p, sm_get (fst (sm_release P m s)) s p = None.
Proof. exact release_none_retained. Qed.
Print Assumptions C09_release_none_retained.

Theorem C09_release_others_untouched : forall P m s s' p, s' <> s ->
  sm_get (fst (sm_release P m s)) s' p = sm_get m s' p.
Proof. exact release_others_untouched. Qed.
Print Assumptions C09_release_others_untouched.

Theorem C09_release_closes_registered : forall P m s x,
  In x (snd (sm_release P m s)) <-> exists p, p < P /\ sm_get m s p = Some x.
Proof. exact release_closes_registered. Qed.
Print Assumptions C09_release_closes_registered.

(* Whatever Close() returns on the streams of s (all patterns of failing closes): nothing of s is
   retained, and the next run of the same session id gets the fresh stream it registers. *)
Theorem C09_release_any_close_result : forall (fails : nat -> bool) P m s p x,
  sm_get (fst (sm_release_f fails P m s)) s p = None /\
  sm_get (sm_add (fst (sm_release_f fails P m s)) s p x) s p = Some x.
Proof. exact release_any_close_result. Qed.
Print Assumptions C09_release_any_close_result.

Theorem C09_streams_ok_model : forall S P X ops st, releases_below S ops = true ->
  streams_ok S P X ops (model_sobs S P X st ops) = true.
Proof. exact streams_ok_model. Qed.
Print Assumptions C09_streams_ok_model.

Theorem C09_release_ok_sound : forall S P X s b a cb ca, release_ok S P X s b a cb ca = true ->
  (forall p, s < S -> p < P -> get2 a s p = None) /\
  (forall s' p, s' < S -> p < P -> s' <> s -> get2 a s' p = get2 b s' p) /\
  (forall x, x < X -> nth x ca 0 = nth x cb 0 + count_occ Nat.eq_dec (somes (nth s b [])) x).
Proof. exact release_ok_sound. Qed.
Print Assumptions C09_release_ok_sound.

(* Libp2pCommunication over the stream map (sendMessage opens a stream per (session, peer) on first
   use, CloseSession = ReleaseStreams), for ALL sequences of sends and CloseSessions: no message is
   ever written to a stream that has been closed - a session id that is started again after
   CloseSession works on fresh streams -, and every CloseSession closes all the streams the session
   has used since its last one.  [comm_ok] is the judge of the comm cases; the two soundness
   statements unfold what it demands. *)
Theorem C09_comm_ok_model : forall P ops, peers_below P ops = true ->
  comm_ok [] (fun _ => []) ops (model_cobs P (sm_empty, 0) ops) = true.
Proof. exact comm_ok_model. Qed.
Print Assumptions C09_comm_ok_model.

Theorem C09_comm_ok_sound_close : forall cl live s ops xs obs,
  comm_ok cl live (CClose s :: ops) (CClosed xs :: obs) = true ->
  (forall x, In x (live s) -> In x xs) /\ comm_ok (xs ++ cl) (upd live s []) ops obs = true.
Proof. exact comm_ok_sound_close. Qed.
Print Assumptions C09_comm_ok_sound_close.

Theorem C09_comm_ok_sound_send : forall cl live s p ops x obs,
  comm_ok cl live (CSend s p :: ops) (CWrote x :: obs) = true ->
  ~ In x cl /\ comm_ok cl (upd live s (x :: live s)) ops obs = true.
Proof. exact comm_ok_sound_send. Qed.
Print Assumptions C09_comm_ok_sound_send.

(* Admission versus teardown.  The deferred cleanup of Execute performs CloseSession, then clears
   the pending flag (under the lock), then stops the processes.  For every number of processes and
   every moment k (number of completed teardown steps) at which a request for the same session id
   arrives: it is refused as long as the flag is set (in particular while CloseSession is still
   running); if it is admitted, the session has been closed and no CloseSession of the old run is
   still to come (it would hit the streams of the new run); in the end the session is closed once,
   the flag is clear and every process was stopped exactly once. *)
Theorem C09_teardown_order : forall np k,
  let st := arrive (code_teardown np) k in
  (k <= 1 -> admitted_at (code_teardown np) k = false) /\
  (t_pend st = true -> admitted_at (code_teardown np) k = false) /\
  (admitted_at (code_teardown np) k = true ->
     t_closed st = 1 /\ late_closes (code_teardown np) k = 0) /\
  (let fin := trun tinit (code_teardown np) in
   t_closed fin = 1 /\ t_pend fin = false /\ forall p, p < np -> count_occ Nat.eq_dec (t_stops fin) p = 1).
Proof. exact teardown_order. Qed.
Print Assumptions C09_teardown_order.

(* For ANY order of the teardown steps: if every CloseSession precedes the clearing of the flag, a
   request admitted at any moment has no CloseSession of the old run coming after it - and if not,
   there is a moment at which a request is admitted with such a CloseSession still to come. *)
Theorem C09_teardown_safe_iff_close_first : forall order,
  (closes_before_clear order = true ->
     forall k, admitted_at order k = true -> late_closes order k = 0) /\
  (closes_before_clear order = false ->
     exists k, admitted_at order k = true /\ 1 <= late_closes order k).
Proof. exact teardown_safe_iff_close_first. Qed.
Print Assumptions C09_teardown_safe_iff_close_first.

(* The swapped order (flag cleared before CloseSession - "don't hold up new requests") is refuted
   for every number of processes: a request arriving right after the flag was cleared is admitted,
   the session is not closed yet, and the old run's CloseSession comes after it. *)
Theorem C09_teardown_early_clear_refuted : forall np,
  admitted_at (early_clear_teardown np) 1 = true /\
  t_closed (arrive (early_clear_teardown np) 1) = 0 /\
  late_closes (early_clear_teardown np) 1 = 1.
Proof. exact early_clear_refuted. Qed.
Print Assumptions C09_teardown_early_clear_refuted.

(* The judge of the tear cases accepts the model wherever the teardown is parked, and what it
   accepts means: a request admitted during the teardown found the session closed and no old process
   running, no CloseSession came after its admission; Execute did not return with a teardown step
   outstanding; every process stopped exactly once, the session closed, the id startable again. *)
Theorem C09_tear_ok_model : forall np at_,
  let order := code_teardown np in
  let k := tear_pos at_ in
  let fin := trun tinit order in
  tear_ok np (model_dec np at_) (model_dec np at_) (t_closed (arrive order k))
          (if admitted_at order k then late_closes order k else 0) 0 false
          (stops_vec np fin) (t_closed fin) true (t_pend fin) = true.
Proof. exact tear_ok_model. Qed.
Print Assumptions C09_tear_ok_model.

Theorem C09_tear_ok_sound : forall np dec fin cb late live rp sa cl third pa,
  tear_ok np dec fin cb late live rp sa cl third pa = true ->
  (dec = TAdmitted -> 1 <= cb /\ live = 0) /\
  (fin = TAdmitted -> late = 0) /\ fin <> TWaited /\
  rp = false /\ sa = repeat 1 np /\ 1 <= cl /\ third = true /\ pa = false.
Proof. exact tear_ok_sound. Qed.
Print Assumptions C09_tear_ok_sound.

(* Libp2pCommunication with faults at the streams, for ALL sequences of sends and CloseSessions,
   whichever NewStream calls fail and whatever the first write on each stream does (wf): nothing is
   written to a stream a CloseSession released, CloseSession s releases every stream that was opened for s since
   its last CloseSession - also one whose first write failed - and no stream another session uses. *)
Theorem C09_wcomm_ok_model : forall wf P S ops, wpeers_below P ops = true ->
  wcomm_ok S [] [] (fun _ => []) ops (model_wobs RegOnOpen wf P (sm_empty, 0) ops) = true.
Proof. exact wcomm_ok_model. Qed.
Print Assumptions C09_wcomm_ok_model.

Theorem C09_wcomm_ok_sound_close : forall S cl rl live s ops xs obs,
  wcomm_ok S cl rl live (WClose s :: ops) (WClosed xs :: obs) = true ->
  (forall x, In x (live s) -> In x xs \/ In x cl \/ In x rl) /\
  (forall s' x, s' < S -> s' <> s -> In x (live s') -> ~ In x xs) /\
  wcomm_ok S (xs ++ cl) rl (upd live s []) ops obs = true.
Proof. exact wcomm_ok_sound_close. Qed.
Print Assumptions C09_wcomm_ok_sound_close.

Theorem C09_wcomm_ok_sound_send : forall S cl rl live s p f ops o w r obs,
  wcomm_ok S cl rl live (WSend s p f :: ops) (WSent o w r :: obs) = true ->
  (forall x, In x w \/ In x o -> ~ In x cl) /\
  wcomm_ok S cl (r ++ rl) (upd live s (o ++ w ++ live s)) ops obs = true.
Proof. exact wcomm_ok_sound_send. Qed.
Print Assumptions C09_wcomm_ok_sound_send.

(* Registering a fresh stream only after its first write succeeded is refuted: the stream whose
   first write fails is not released by CloseSession. *)
Theorem C09_wcomm_register_after_write_refuted :
  exists wf ops, wpeers_below 2 ops = true /\
    wcomm_ok 1 [] [] (fun _ => []) ops (model_wobs RegAfterWrite wf 2 (sm_empty, 0) ops) = false.
Proof. exact reg_after_write_refuted. Qed.
Print Assumptions C09_wcomm_register_after_write_refuted.

(* Registration CONCURRENT with release.  AddStream / Stream / ReleaseStreams each take effect
   atomically (under the manager's lock), so overlapping calls take effect in some order.  For EVERY
   order - every sequence of operations -, once every session has been released a last time: every
   stream that was ever registered (AddStream for a free slot) has been closed and the registry is
   empty.  A stream that a late sender registers while its session is being released is therefore
   either closed by that release or by the next one of the same session id - never lost. *)
Theorem C09_registered_streams_always_closed : forall S P ops, adds_below S P ops = true ->
  let st := sm_exec P sst0 (ops ++ release_all S) in
  (forall x, In x (accepted P sst0 ops) -> 1 <= snd st x) /\
  (forall s p, fst st s p = None).
Proof. exact srace_model. Qed.
Print Assumptions C09_registered_streams_always_closed.

(* the judge of the srace cases accepts what the model shows and means it *)
Theorem C09_srace_ok_model : forall S P X ops, adds_below S P ops = true -> all_accepted P X ops = true ->
  let st := sm_exec P sst0 (ops ++ release_all S) in
  srace_ok (cvec X (snd st)) (snap S P (fst st)) = true.
Proof. exact srace_ok_model. Qed.
Print Assumptions C09_srace_ok_model.

Theorem C09_srace_ok_sound : forall closed left, srace_ok closed left = true ->
  (forall c, In c closed -> 1 <= c) /\ (forall row o, In row left -> In o row -> o = None).
Proof. exact srace_ok_sound. Qed.
Print Assumptions C09_srace_ok_sound.

(* "Close a snapshot of the session's streams without holding the lock, forget the session
   afterwards" is refuted: a stream registered while the snapshot is being closed is never closed. *)
Theorem C09_release_late_forget_refuted :
  let st := sm_exec 3 sst0 [OAdd 0 1 0] in
  let st' := sm_release_late_forget 3 (fst st) 0 [OAdd 0 2 1] st in
  let fin := sm_exec 3 st' (release_all 1) in
  srace_ok (cvec 2 (snd fin)) (snap 1 3 (fst fin)) = false.
Proof. exact late_forget_refuted. Qed.
Print Assumptions C09_release_late_forget_refuted.

(* A live session keeps duplicates out HOWEVER LONG IT LIVES: the pending entry carries no time.
   Once call t runs, then after any further schedule in which t's session does not end (whatever the
   other calls do, however many steps pass - in particular a retry phase that outlives TssTimeout)
   t still runs and no other call for the same session id does. *)
Theorem C09_live_session_keeps_out_duplicates : forall (sid : nat -> nat) sched1 sched2 t u,
  pcs (exec New sid sched1 (init New)) t = PRun ->
  Forall (fun e => e <> Fin t) sched2 ->
  sid u = sid t -> u <> t ->
  let st := exec New sid (sched1 ++ sched2) (init New) in
  pcs st t = PRun /\ pcs st u <> PRun.
Proof. exact live_session_keeps_out_duplicates. Qed.
Print Assumptions C09_live_session_keeps_out_duplicates.

Theorem C09_long_ok_sound : forall fl da ml pa ru, long_ok fl da ml pa ru = true ->
  (fl = true -> da = false) /\ ml <= 1 /\ pa = false /\ ru = true.
Proof. exact long_ok_sound. Qed.
Print Assumptions C09_long_ok_sound.

(* Non-vacuity of the srace and long cases: a session with one stream; a second stream registered
   after (or, second line, before) its release is closed by the last release; the duplicate of the
   canonical long schedule is refused and the judge accepts that, and rejects an admitted duplicate. *)
Example C09_srace_long_nonvacuous :
  let ops := [OAdd 0 1 0; ORelease 0; OAdd 0 2 1] in
  let ops' := [OAdd 0 1 0; OAdd 0 2 1; ORelease 0] in
  adds_below 2 8 ops = true /\ all_accepted 8 2 ops = true /\
  cvec 2 (snd (sm_exec 8 sst0 (ops ++ release_all 2))) = [1; 1] /\
  cvec 2 (snd (sm_exec 8 sst0 (ops' ++ release_all 2))) = [1; 1] /\
  srace_ok [1; 0] [] = false /\ srace_ok [1; 1] [[None; Some 1]] = false /\
  long_dup_refused = true /\
  long_ok true false 1 false true = true /\ long_ok true true 2 false true = false /\
  long_ok true true 1 false true = false /\ long_ok true false 1 true true = false.
Proof. vm_compute. repeat split. Qed.

(* Non-vacuity of the tear and commw cases: two processes, the teardown parked inside CloseSession
   (the request is refused) and inside Stop of process 1 (admitted, session closed, process 0
   stopped); a session whose first stream fails to open, whose second gets a failing first write,
   closed, restarted on a fresh stream. *)
Example C09_tear_nonvacuous :
  model_dec 2 0 = TRefused /\ model_dec 2 2 = TAdmitted /\
  t_closed (arrive (code_teardown 2) (tear_pos 2)) = 1 /\
  stops_vec 2 (arrive (code_teardown 2) (tear_pos 2)) = [1; 0] /\
  closes_before_clear (code_teardown 2) = true /\ closes_before_clear (early_clear_teardown 2) = false /\
  let ops := [WSend 0 1 true; WSend 0 1 false; WSend 0 2 false; WClose 0; WSend 0 1 false; WClose 0] in
  wpeers_below 3 ops = true /\
  model_wobs RegOnOpen (fun x => Nat.eqb x 0) 3 (sm_empty, 0) ops =
    [WSent [] [] []; WSent [0] [0] []; WSent [1] [1] []; WClosed [0; 1]; WSent [2] [2] []; WClosed [2]].
Proof. vm_compute. repeat split. Qed.

(* Non-vacuity: three requests for one session id and one for another, a complete schedule: the
   hypotheses of C09_conc_ok_model hold, one request per id runs, two are refused; and a feasible
   session trace. *)
Example C09_nonvacuous :
  let sid := sid_of [0; 0; 1; 0] in
  let sched := [Step 0; Step 1; Step 0; Step 2; Step 0; Step 0; Step 1; Step 1; Step 1; Step 1;
                Step 2; Step 2; Step 2; Step 2; Step 3; Step 3; Step 3; Step 3] in
  let st := exec New sid sched (init New) in
  steps_below 4 sched = true /\ all_decided 4 st = true /\
  map (pcs st) [0; 1; 2; 3] = [PRun; PRefused; PRun; PRefused] /\
  feasible Peer CoordinatorSilent = true /\
  summary 2 (session_trace Peer CoordinatorSilent BeforeStart 2) = [1; 1; 1; 0; 1; 1; 1; 0; 1; 0; 0; 1; 1] /\
  session_trace Coord Cancelled BeforeEntry 1 =
    [EPend true; ESub MFail; ESub MReady; EUnsub MReady; EUnsub MFail; EClose; EPend false; EStop 0] /\
  cleanup_ok 1 [EPend true] = false /\ cleanup_ok 1 [EStop 0; EPend false] = true /\
  cleanup_ok 1 [ESub MFail; EUnsub MFail; EStop 0; EPend false] = false.
Proof. vm_compute. repeat split. Qed.

(* Non-vacuity of the contention rounds: eight requests for one id on the canonical complete
   schedule - the first runs, seven are refused. *)
Example C09_storm_nonvacuous :
  let st := exec New (fun _ => 0) (storm_sched 8) (init New) in
  steps_below 8 (storm_sched 8) = true /\ all_decided 8 st = true /\
  map (pcs st) (seq 0 8) = [PRun; PRefused; PRefused; PRefused; PRefused; PRefused; PRefused; PRefused].
Proof. vm_compute. repeat split. Qed.

(* Non-vacuity of the comm cases: a session sends to two peers, is closed, sends again (a fresh
   stream), and is closed again. *)
Example C09_comm_nonvacuous :
  let ops := [CSend 0 1; CSend 0 2; CSend 0 1; CClose 0; CSend 0 1; CClose 0] in
  peers_below 3 ops = true /\
  model_cobs 3 (sm_empty, 0) ops = [CWrote 0; CWrote 1; CWrote 0; CClosed [0; 1]; CWrote 2; CClosed [2]].
Proof. vm_compute. repeat split. Qed.

(* ------------------------------------------------------------------------------------------ *)
(* Sessions with a BATCH of processes (Execute is handed a list; the bitcoin executor passes one signing
   process per transaction input).  The loops of initiate / waitForStart hand every process of the
   list to the pool with a per-iteration copy, the cleanup and the refusal stop every process of the
   list.  For EVERY number of processes, role, outcome, phase, retried (the whole batch is run a second
   time) or not: subscriptions = unsubscriptions, CloseSession once, every process stopped exactly
   once, run once per round and never by two tasks at the same time, pending flag false: the judge
   of the batch cases accepts the model. *)
Theorem C09_batch_ok_model : forall r o ph retry np,
  batch_ok (negb retry) np (batch_trace PerIteration PerIteration r o ph retry np)
           (batch_maxsim PerIteration r o ph retry np) = true /\
  (* a batch that is refused (a session with its id is live): every process stopped once, none run *)
  refused_stops PerIteration np = repeat 1 np /\
  refused_ok true (repeat 0 np) (refused_stops PerIteration np) = true.
Proof. exact (fun r o ph retry np => conj (batch_ok_model r o ph retry np) (refused_ok_model np)). Qed.
Print Assumptions C09_batch_ok_model.

Theorem C09_batch_each_process_once : forall r o ph retry np p, p < np ->
  let tr := batch_trace PerIteration PerIteration r o ph retry np in
  (count_ev (is_run p) tr = batch_rounds r o ph retry /\
   count_ev (is_stop p) tr = 1 /\
   nth p (batch_maxsim PerIteration r o ph retry np) 0 = Nat.min 1 (batch_rounds r o ph retry)) /\
  (* a session that is not retried is the session of C09_cleanup_complete *)
  batch_trace PerIteration PerIteration r o ph false np = session_trace r o ph np.
Proof. exact (fun r o ph retry np p H => conj (batch_each_process r o ph retry np p H) (batch_is_session r o ph np)). Qed.
Print Assumptions C09_batch_each_process_once.

(* what the judge of the batch cases means *)
Theorem C09_batch_ok_sound : forall once np l ms, batch_ok once np l ms = true ->
  (forall m, count_ev (is_sub m) l = count_ev (is_unsub m) l) /\
  (forall p, p < np -> count_ev (is_stop p) l = 1 /\ (once = true -> count_ev (is_run p) l <= 1) /\
                       nth p ms 0 <= 1) /\
  last_pend l = Some false.
Proof. exact batch_ok_sound. Qed.
Print Assumptions C09_batch_ok_sound.

(* The closures of a loop that capture the range variable itself (go 1.21: one variable per loop) and
   are executed after the loop has moved on are refuted for every batch of two or more processes: in
   the launching loops one process is inside Run twice and another never; in the Stop loop of the
   cleanup one process is stopped np times and the others never (whatever else the session did). *)
Theorem C09_batch_shared_variable_refuted : forall np, 2 <= np ->
  (forall cs r o ph, runs r o ph = true ->
     batch_ok true np (batch_trace SharedVariable cs r o ph false np)
              (batch_maxsim SharedVariable r o ph false np) = false) /\
  (forall cl once r o ph retry ms,
     batch_ok once np (batch_trace cl SharedVariable r o ph retry np) ms = false).
Proof.
  exact (fun np H => conj (fun cs r o ph Hr => batch_shared_launch_refuted cs r o ph np H Hr)
                          (fun cl once r o ph retry ms => batch_shared_stop_refuted cl once r o ph retry np ms H)).
Qed.
Print Assumptions C09_batch_shared_variable_refuted.

(* ------------------------------------------------------------------------------------------ *)
(* LONG HISTORIES on one coordinator.  In the interleaving model of the repaired Execute: after ANY
   number k of sessions that ran to their end one after the other, with ANY session ids, a further
   request t0 - for an id the coordinator has never seen or for the id of an ended session ([sid] is
   arbitrary) - is admitted and gets as far as running its processes: admission does not depend on
   how many sessions the coordinator has seen. *)
Theorem C09_admission_independent_of_history : forall (sid : nat -> nat) (k t0 : nat), k <= t0 ->
  probe_admitted sid k t0 = true /\
  (* ... which is what the correspondence run compares the aggregated histories with ... *)
  probe_admitted sid k t0 = hist_admits (N.of_nat k) /\
  (* ... because after every whole session nothing is live: lock free, no flag set, later threads not started *)
  (let st := exec New sid (hist_sched k) (init New) in
   lock st = None /\ (forall s, pend st s = false) /\ (forall t, k <= t -> pcs st t = PLock)).
Proof.
  exact (fun sid k t0 H => conj (admission_independent_of_history sid k t0 H)
                                (conj (hist_admits_is_model sid k t0 H) (hist_quiet sid k))).
Qed.
Print Assumptions C09_admission_independent_of_history.

(* A capacity guard on the SIZE of the pending map, which keeps the entries of ended sessions (as
   false), is refuted: after 128 ended sessions nothing is live, yet a new id and an ended id are refused. *)
Theorem C09_size_guard_refuted :
  let m := fold_left (guarded_session 128) (seq 0 128) [] in
  forallb (fun s => negb (pm_get m s)) (seq 0 200) = true /\ guarded_admits 128 m 128 = false /\
  guarded_admits 128 m 0 = false.
Proof. exact size_guard_refuted. Qed.
Print Assumptions C09_size_guard_refuted.

(* Non-vacuity of the batch and history theorems: a batch of three as coordinator, retried; the
   shared-variable launch and stop; three ended sessions with ids 5, 5, 7, then a request for id 5. *)
Example C09_batch_hist_nonvacuous :
  batch_trace PerIteration PerIteration Coord ProcessError DuringRun true 3 =
    [EPend true; ESub MFail; ESub MReady; ERun 0; ERun 1; ERun 2; EUnsub MReady; EUnsub MFail;
     ESub MFail; ESub MInitiate; ESub MStart; ERun 0; ERun 1; ERun 2; EUnsub MStart; EUnsub MInitiate;
     EUnsub MFail; EClose; EPend false; EStop 0; EStop 1; EStop 2] /\
  batch_maxsim PerIteration Coord ProcessError DuringRun true 3 = [1; 1; 1] /\
  batch_maxsim SharedVariable Peer Success DuringRun false 3 = [0; 0; 3] /\
  launch_evs SharedVariable 3 = [ERun 2; ERun 2; ERun 2] /\
  batch_ok true 2 [EPend true; ERun 0; ERun 1; EClose; EPend false; EStop 0; EStop 1] [1; 2] = false /\
  batch_ok true 2 [EPend true; ERun 0; ERun 1; EClose; EPend false; EStop 0; EStop 1] [1; 1] = true /\
  dup_ok (Some (true, ([0; 1], [1; 1]))) = false /\ refused_ok true [0; 0] [1; 2] = false /\
  probe_admitted (fun t => nth t [5; 5; 7; 5] 0) 3 3 = true /\
  hist_ok 0 0 0 0 0 0 [(true, (true, (1, 1))); (false, (true, (1, 1)))] = true /\
  hist_ok 1 0 0 0 0 0 [(true, (true, (1, 1)))] = false /\
  hist_ok 0 0 0 0 0 0 [(false, (false, (0, 1)))] = false.
Proof. vm_compute. repeat split. Qed.

(* The order of the release against the sends of a session (Model Part 11): Execute closes the session
   in its deferred cleanup, after the sends of the first attempt AND of the retry phase - for ALL numbers
   of sends the ledger is accepted by the judge; a variant that closes when the first attempt is over
   leaves every send of the retry phase unreleased and is rejected as soon as the retry phase sends
   anything; the judge means: every send of the session is followed by a CloseSession of it. *)
Theorem C09_release_after_last_send : forall first retry,
  released_ok (exec_ledger first retry) = true /\
  open_sends (early_close_ledger first retry) = retry /\
  (1 <= retry -> released_ok (early_close_ledger first retry) = false).
Proof. exact (fun a b => conj (released_ok_model a b) (early_close_refuted a b)). Qed.
Print Assumptions C09_release_after_last_send.

Theorem C09_released_ok_sound : forall l, released_ok l = true ->
  forall pre post, l = pre ++ LSend :: post -> In LClose post.
Proof. exact released_ok_sound. Qed.
Print Assumptions C09_released_ok_sound.

Example C09_release_nonvacuous :
  exec_ledger 2 1 = [LSend; LSend; LSend; LClose] /\
  released_ok [LSend; LClose; LSend] = false /\ released_ok [LSend; LSend] = false /\
  released_ok [LClose; LSend; LClose] = true /\ released_ok [] = true.
Proof. vm_compute. repeat split. Qed.
