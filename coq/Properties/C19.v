(* C19 - Independent relayers derive identical identifiers for the same chain data.
   Only the property theorems (each closed by [exact]) and Print Assumptions.

   [run w c stored0 evs] (Model/C05.v) is the complete history of a relayer under ANY environment
   script - heads at any rhythm, faults, any number of crashes/restarts - for any configured start,
   stored cursor and flags; [aligned_setup w c] = Bitcoin (single-block ranges) or a wiring that
   aligns every start block (what app.go does for EVM and Substrate: theorems at the end). *)
From Coq Require Import List ZArith NArith Bool String Permutation.
Import ListNotations.
From SygmaV Require Import Model.C05 Proofs.C05 Model.C19 Proofs.C19 Gen.C05_Wiring.
Local Open Scope Z_scope.

(* Every range any handler is ever given is a cell [k*i, k*i + i - 1] of the partition determined by
   the block interval alone (Bitcoin: i = 1). *)
Theorem C19_ranges_are_cells : forall w c stored0 evs k s e ok,
  wf_cfg c = true -> aligned_setup w c ->
  In (OHandle k s e ok) (run w c stored0 evs) -> s mod stp c = 0 /\ e = s + stp c - 1.
Proof. exact ranges_are_cells. Qed.
Print Assumptions C19_ranges_are_cells.

(* Two relayers with arbitrary configurations (same interval) and arbitrary histories that both
   look at block b do so through the same range ... *)
Theorem C19_same_block_same_range : forall w1 w2 c1 c2 st1 st2 evs1 evs2 k1 s1 e1 ok1 k2 s2 e2 ok2 b,
  wf_cfg c1 = true -> wf_cfg c2 = true -> aligned_setup w1 c1 -> aligned_setup w2 c2 ->
  stp c1 = stp c2 ->
  In (OHandle k1 s1 e1 ok1) (run w1 c1 st1 evs1) -> In (OHandle k2 s2 e2 ok2) (run w2 c2 st2 evs2) ->
  s1 <= b <= e1 -> s2 <= b <= e2 ->
  s1 = s2 /\ e1 = e2.
Proof. exact same_block_same_range. Qed.
Print Assumptions C19_same_block_same_range.

(* ... hence derive the same message id, session ids (EVM batch index, Substrate, Bitcoin resource)
   and Bitcoin nonce (for any hash function H) for a deposit in that block. *)
Theorem C19_same_deposit_same_ids :
  forall w1 w2 c1 c2 st1 st2 evs1 evs2 k1 s1 e1 ok1 k2 s2 e2 ok2 b src dst batch rid H tx,
  wf_cfg c1 = true -> wf_cfg c2 = true -> aligned_setup w1 c1 -> aligned_setup w2 c2 ->
  stp c1 = stp c2 ->
  In (OHandle k1 s1 e1 ok1) (run w1 c1 st1 evs1) -> In (OHandle k2 s2 e2 ok2) (run w2 c2 st2 evs2) ->
  s1 <= b <= e1 -> s2 <= b <= e2 ->
  message_id src dst s1 e1 = message_id src dst s2 e2
  /\ session_id_evm (message_id src dst s1 e1) batch = session_id_evm (message_id src dst s2 e2) batch
  /\ session_id_sub (message_id src dst s1 e1) = session_id_sub (message_id src dst s2 e2)
  /\ btc_message_id src dst s1 = btc_message_id src dst s2
  /\ session_id_btc (btc_message_id src dst s1) rid = session_id_btc (btc_message_id src dst s2) rid
  /\ btc_nonce H s1 tx = btc_nonce H s2 tx.
Proof. exact same_deposit_same_ids. Qed.
Print Assumptions C19_same_deposit_same_ids.

(* btc_nonce_same: every Bitcoin relayer, whatever its wiring and history, feeds the block of the
   transaction itself into the nonce and the message id. *)
Theorem C19_btc_range_is_block : forall w c stored0 evs k s e ok,
  wf_cfg c = true -> kd c = Btc -> In (OHandle k s e ok) (run w c stored0 evs) -> e = s.
Proof. exact btc_range_is_block. Qed.
Print Assumptions C19_btc_range_is_block.

(* The group sent for destination d is exactly the deposits for d in chain (log) order: no trace of
   the map's iteration order. *)
Theorem C19_grouping_order_free : forall (M : Type) (dest : M -> N) d msgs,
  lookup d (group dest msgs) = for_dest dest d msgs.
Proof. exact (@grouping_order_free). Qed.
Print Assumptions C19_grouping_order_free.

(* Repaired ProcessDeposits: the credited resource is the same for every order in which the map
   may yield the resources (distinct resource ids), for any decoding function. *)
Theorem C19_credit_order_free : forall (R T : Type) (key : R -> N) (decode : T -> R -> outcome) o o' tx,
  NoDup (map key o) -> Permutation o o' ->
  credit_sorted key decode o tx = credit_sorted key decode o' tx.
Proof. exact (@credit_order_free). Qed.
Print Assumptions C19_credit_order_free.

(* The loop as it was (map order) is order-free only for transactions that concern one resource ... *)
Theorem C19_credit_single_payer : forall (R T : Type) (decode : T -> R -> outcome) o tx r,
  In r o -> NoDup o -> (forall x, In x o -> x <> r -> decode tx x = DNo) ->
  credit decode o tx = match decode tx r with DYes => Some r | _ => None end.
Proof. exact (@credit_single_payer). Qed.
Print Assumptions C19_credit_single_payer.

(* ... and order-dependent otherwise: a transaction paying resources 1 and 2. *)
Theorem C19_credit_order_free_refuted :
  exists (o o' : list N) (tx : list N),
    Permutation o o' /\ NoDup o /\ credit pays_decode o tx <> credit pays_decode o' tx.
Proof. exact credit_order_free_refuted. Qed.
Print Assumptions C19_credit_order_free_refuted.

(* the boolean cell test used by the judge is the statement of C19_ranges_are_cells *)
Theorem C19_is_cell_spec : forall i s e, is_cell i s e = true <-> (s mod i = 0 /\ e = s + i - 1).
Proof. exact is_cell_spec. Qed.
Print Assumptions C19_is_cell_spec.

Theorem C19_cell_of_is_cell : forall i b, 1 <= i ->
  is_cell i (fst (cell_of i b)) (snd (cell_of i b)) = true /\ fst (cell_of i b) <= b <= snd (cell_of i b).
Proof. exact cell_of_is_cell. Qed.
Print Assumptions C19_cell_of_is_cell.

(* Non-vacuity: two differently started relayers (one restarted, one with the `latest` flag) over
   interval 5; both see block 12 through [10, 14]; ids as the Go format strings print them. *)
Example C19_nonvacuous :
  let c1 := {| kd := Evm; ival := 5; conf := 1; nh := 1; cstart := 7; latest := false; fresh := false |} in
  let c2 := {| kd := Evm; ival := 5; conf := 1; nh := 1; cstart := 0; latest := true; fresh := false |} in
  wf_cfg c1 = true /\ aligned_setup wiring_evm c1 /\ aligned_setup wiring_evm c2 /\
  In (OHandle 0 10 14 true)
     (run wiring_evm c1 None [Head 40; Handler true; Store true; Crash; Head 40; Handler true]) /\
  In (OHandle 0 10 14 true) (run wiring_evm c2 (Some 3) [Head 13; Head 40; Handler true]) /\
  message_id 1 2 10 14 = "1-2-10-14"%string /\ btc_message_id 1 2 812345 = "1-2-812345"%string /\
  session_id_evm (message_id 1 2 10 14) 0 = "1-2-10-14-0"%string /\
  credit_run [3%N; 1%N; 2%N] [2%N; 1%N] = Some 1%N.
Proof.
  cbv zeta. split; [reflexivity|]. split; [right; reflexivity|]. split; [right; reflexivity|].
  split; [vm_compute; auto 20|]. split; [vm_compute; auto 20|]. vm_compute. repeat split.
Qed.

(* The wiring extracted from app/app.go aligns every start block of the interval chains. *)
Theorem C19_evm_wiring_aligned : wiring_aligned wiring_evm = true.
Proof. vm_compute. reflexivity. Qed.
Print Assumptions C19_evm_wiring_aligned.

Theorem C19_substrate_wiring_aligned : wiring_aligned wiring_substrate = true.
Proof. vm_compute. reflexivity. Qed.
Print Assumptions C19_substrate_wiring_aligned.
