(* C19 - Independent relayers derive identical identifiers for the same chain data.
   Only the property theorems (each closed by [exact]) and Print Assumptions.

   [run w c stored0 evs] (Model/C05.v) is the complete history of a relayer under ANY environment
   script - heads at any rhythm, faults, any number of crashes/restarts - for any configured start,
   stored cursor and flags; [aligned_setup w c] = Bitcoin (single-block ranges) or a wiring that
   aligns every start block (what app.go does for EVM and Substrate: theorems at the end). *)
From Coq Require Import List ZArith NArith Bool String Permutation.
Import ListNotations.
From SygmaV Require Import Model.C05 Proofs.C05 Model.C19 Proofs.C19 Gen.C05_Wiring.
Local Open Scope Z_scope.

(* Every range any handler is ever given is a cell [k*i, k*i + i - 1] of the partition determined by
   the block interval alone (Bitcoin: i = 1). *)
Theorem C19_ranges_are_cells : forall w c stored0 evs k s e ok,
  wf_cfg c = true -> aligned_setup w c ->
  In (OHandle k s e ok) (run w c stored0 evs) -> s mod stp c = 0 /\ e = s + stp c - 1.
Proof. exact ranges_are_cells. Qed.
Print Assumptions C19_ranges_are_cells.

(* Two relayers with arbitrary configurations (same interval) and arbitrary histories that both
   look at block b do so through the same range ... *)
Theorem C19_same_block_same_range : forall w1 w2 c1 c2 st1 st2 evs1 evs2 k1 s1 e1 ok1 k2 s2 e2 ok2 b,
  wf_cfg c1 = true -> wf_cfg c2 = true -> aligned_setup w1 c1 -> aligned_setup w2 c2 ->
  stp c1 = stp c2 ->
  In (OHandle k1 s1 e1 ok1) (run w1 c1 st1 evs1) -> In (OHandle k2 s2 e2 ok2) (run w2 c2 st2 evs2) ->
  s1 <= b <= e1 -> s2 <= b <= e2 ->
  s1 = s2 /\ e1 = e2.
Proof. exact same_block_same_range. Qed.
Print Assumptions C19_same_block_same_range.

(* ... hence derive the same message id, session ids (EVM batch index, Substrate, Bitcoin resource)
   and Bitcoin nonce (for any hash function H) for a deposit in that block. *)
Theorem C19_same_deposit_same_ids :
  forall w1 w2 c1 c2 st1 st2 evs1 evs2 k1 s1 e1 ok1 k2 s2 e2 ok2 b src dst batch rid H tx,
  wf_cfg c1 = true -> wf_cfg c2 = true -> aligned_setup w1 c1 -> aligned_setup w2 c2 ->
  stp c1 = stp c2 ->
  In (OHandle k1 s1 e1 ok1) (run w1 c1 st1 evs1) -> In (OHandle k2 s2 e2 ok2) (run w2 c2 st2 evs2) ->
  s1 <= b <= e1 -> s2 <= b <= e2 ->
  message_id src dst s1 e1 = message_id src dst s2 e2
  /\ session_id_evm (message_id src dst s1 e1) batch = session_id_evm (message_id src dst s2 e2) batch
  /\ session_id_sub (message_id src dst s1 e1) = session_id_sub (message_id src dst s2 e2)
  /\ btc_message_id src dst s1 = btc_message_id src dst s2
  /\ session_id_btc (btc_message_id src dst s1) rid = session_id_btc (btc_message_id src dst s2) rid
  /\ btc_nonce H s1 tx = btc_nonce H s2 tx.
Proof. exact same_deposit_same_ids. Qed.
Print Assumptions C19_same_deposit_same_ids.

(* btc_nonce_same: every Bitcoin relayer, whatever its wiring and history, feeds the block of the
   transaction itself into the nonce and the message id. *)
Theorem C19_btc_range_is_block : forall w c stored0 evs k s e ok,
  wf_cfg c = true -> kd c = Btc -> In (OHandle k s e ok) (run w c stored0 evs) -> e = s.
Proof. exact btc_range_is_block. Qed.
Print Assumptions C19_btc_range_is_block.

(* The group sent for destination d is exactly the deposits for d in chain (log) order: no trace of
   the map's iteration order. *)
Theorem C19_grouping_order_free : forall (M : Type) (dest : M -> N) d msgs,
  lookup d (group dest msgs) = for_dest dest d msgs.
Proof. exact (@grouping_order_free). Qed.
Print Assumptions C19_grouping_order_free.

(* Repaired ProcessDeposits: the credited resource is the same for every order in which the map
   may yield the resources (distinct resource ids), for any decoding function. *)
Theorem C19_credit_order_free : forall (R T : Type) (key : R -> N) (decode : T -> R -> outcome) o o' tx,
  NoDup (map key o) -> Permutation o o' ->
  credit_sorted key decode o tx = credit_sorted key decode o' tx.
Proof. exact (@credit_order_free). Qed.
Print Assumptions C19_credit_order_free.

(* The loop as it was (map order) is order-free only for transactions that concern one resource ... *)
Theorem C19_credit_single_payer : forall (R T : Type) (decode : T -> R -> outcome) o tx r,
  In r o -> NoDup o -> (forall x, In x o -> x <> r -> decode tx x = DNo) ->
  credit decode o tx = match decode tx r with DYes => Some r | _ => None end.
Proof. exact (@credit_single_payer). Qed.
Print Assumptions C19_credit_single_payer.

(* ... and order-dependent otherwise: a transaction paying resources 1 and 2. *)
Theorem C19_credit_order_free_refuted :
  exists (o o' : list N) (tx : list N),
    Permutation o o' /\ NoDup o /\ credit pays_decode o tx <> credit pays_decode o' tx.
Proof. exact credit_order_free_refuted. Qed.
Print Assumptions C19_credit_order_free_refuted.

(* EVM signing sessions (Executor.Execute).  [evm_sessions mid bs] = the sessions the model starts for
   the batch list bs (members per position): a batch's session is determined by the message id and
   the batch's position alone - nothing else (no schedule, no other batch) enters. *)
Theorem C19_evm_session_is_position_only : forall mid bs ms sids,
  In (ms, sids) (evm_sessions mid bs) <->
  exists k, nth_error bs k = Some ms /\ ms <> [] /\ sids = [evm_sid mid (N.of_nat k)].
Proof. exact evm_sessions_position. Qed.
Print Assumptions C19_evm_session_is_position_only.

(* ... it is the session id of C19_same_deposit_same_ids (message id + batch index) ... *)
Theorem C19_evm_sid_is_session_id : forall mid k, evm_sid mid k = session_id_evm mid (Z.of_N k).
Proof. exact evm_sid_is_session_id. Qed.
Print Assumptions C19_evm_sid_is_session_id.

(* ... and different batches of one message never share a session id. *)
Theorem C19_evm_sid_injective : forall mid i j, evm_sid mid i = evm_sid mid j -> i = j.
Proof. exact evm_sid_inj. Qed.
Print Assumptions C19_evm_sid_injective.

Theorem C19_evm_hashed_spec : forall bs ms, In ms (evm_hashed bs) <-> In ms bs /\ ms <> [].
Proof. exact evm_hashed_in. Qed.
Print Assumptions C19_evm_hashed_spec.

(* The judge of the session cases accepts the model under any number of repetitions, and whatever it
   accepts - the implementation's observations under several goroutine schedules - equals the
   specification; in particular any two observed schedules show the same (members -> session id). *)
Theorem C19_session_judge_accepts_model : forall mid bs n m,
  sess_ok mid bs (repeat (evm_sessions mid bs) n) (repeat (evm_hashed bs) m) = true.
Proof. exact sess_ok_model. Qed.
Print Assumptions C19_session_judge_accepts_model.

Theorem C19_session_judge_sound : forall mid bs runs hashed,
  sess_ok mid bs runs hashed = true ->
  (forall r, In r runs -> r = evm_sessions mid bs) /\ (forall h, In h hashed -> h = evm_hashed bs).
Proof. exact sess_ok_sound. Qed.
Print Assumptions C19_session_judge_sound.

Theorem C19_sessions_schedule_free : forall mid bs runs hashed r1 r2,
  sess_ok mid bs runs hashed = true -> In r1 runs -> In r2 runs -> r1 = r2.
Proof. exact sess_ok_schedule_free. Qed.
Print Assumptions C19_sessions_schedule_free.

(* Bitcoin executor (Executor.Execute): [bexec_spec props] = what the goroutines of the model work on
   for a delivery of proposals (deposit nonce, resource id): each a resource together with exactly
   that resource's proposals in delivery order (so the session <message id>-<resource id> signs the
   transaction of that resource), every resource once. *)
Theorem C19_btc_exec_group_is_resource_only : forall props ms r,
  In (ms, r) (bexec_spec props) ->
  exists rid, r = Some rid /\ ms = map fst (for_dest (@snd N N) rid props) /\ ms <> [].
Proof. exact bexec_spec_in. Qed.
Print Assumptions C19_btc_exec_group_is_resource_only.

Theorem C19_btc_exec_resources_distinct : forall props, NoDup (map snd (bexec_spec props)).
Proof. exact bexec_spec_resources_distinct. Qed.
Print Assumptions C19_btc_exec_resources_distinct.

Theorem C19_btc_exec_judge_accepts_model : forall props n,
  bexec_ok props (repeat (bexec_spec props) n) = true.
Proof. exact bexec_ok_model. Qed.
Print Assumptions C19_btc_exec_judge_accepts_model.

Theorem C19_btc_exec_judge_sound : forall props runs,
  bexec_ok props runs = true -> forall r, In r runs -> r = bexec_spec props.
Proof. exact bexec_ok_sound. Qed.
Print Assumptions C19_btc_exec_judge_sound.

(* the boolean cell test used by the judge is the statement of C19_ranges_are_cells *)
Theorem C19_is_cell_spec : forall i s e, is_cell i s e = true <-> (s mod i = 0 /\ e = s + i - 1).
Proof. exact is_cell_spec. Qed.
Print Assumptions C19_is_cell_spec.

Theorem C19_cell_of_is_cell : forall i b, 1 <= i ->
  is_cell i (fst (cell_of i b)) (snd (cell_of i b)) = true /\ fst (cell_of i b) <= b <= snd (cell_of i b).
Proof. exact cell_of_is_cell. Qed.
Print Assumptions C19_cell_of_is_cell.

(* Non-vacuity: two differently started relayers (one restarted, one with the `latest` flag) over
   interval 5; both see block 12 through [10, 14]; ids as the Go format strings print them. *)
Example C19_nonvacuous :
  let c1 := {| kd := Evm; ival := 5; conf := 1; nh := 1; cstart := 7; latest := false; fresh := false |} in
  let c2 := {| kd := Evm; ival := 5; conf := 1; nh := 1; cstart := 0; latest := true; fresh := false |} in
  wf_cfg c1 = true /\ aligned_setup wiring_evm c1 /\ aligned_setup wiring_evm c2 /\
  In (OHandle 0 10 14 true)
     (run wiring_evm c1 None [Head 40; Handler true; Store true; Crash; Head 40; Handler true]) /\
  In (OHandle 0 10 14 true) (run wiring_evm c2 (Some 3) [Head 13; Head 40; Handler true]) /\
  message_id 1 2 10 14 = "1-2-10-14"%string /\ btc_message_id 1 2 812345 = "1-2-812345"%string /\
  session_id_evm (message_id 1 2 10 14) 0 = "1-2-10-14-0"%string /\
  credit_run [3%N; 1%N; 2%N] [2%N; 1%N] = Some 1%N /\
  (* left-padded resource ids 0x00..0400 and 0x00..0300: the smaller one is credited *)
  credit_run [1024%N; 768%N] [1024%N; 768%N] = Some 768%N /\
  (* a delivery whose first batch is empty and whose 2nd and 3rd batches hold deposits 0,1 and 2 *)
  evm_sessions "1-2-10-14" [[]; [0%N; 1%N]; [2%N]] =
    [([0%N; 1%N], ["1-2-10-14-1"%string]); ([2%N], ["1-2-10-14-2"%string])] /\
  sess_ok "1-2-10-14" [[]; [0%N; 1%N]; [2%N]]
          [[([0%N; 1%N], ["1-2-10-14-1"%string]); ([2%N], ["1-2-10-14-2"%string])]]
          [[[0%N; 1%N]; [2%N]]] = true /\
  (* what the shared-loop-variable defect shows: every goroutine sees the last position / batch *)
  sess_ok "1-2-10-14" [[]; [0%N; 1%N]; [2%N]]
          [[([2%N], ["1-2-10-14-2"%string]); ([2%N], ["1-2-10-14-2"%string])]] [] = false /\
  (* Bitcoin delivery: deposits 0 and 2 of resource 768, deposit 1 of resource 1024 *)
  bexec_spec [(0%N, 768%N); (1%N, 1024%N); (2%N, 768%N)] =
    [([0%N; 2%N], Some 768%N); ([1%N], Some 1024%N)] /\
  bexec_ok [(0%N, 768%N); (1%N, 1024%N); (2%N, 768%N)]
           [[([0%N; 2%N], Some 768%N); ([1%N], Some 1024%N)]] = true /\
  bexec_ok [(0%N, 768%N); (1%N, 1024%N); (2%N, 768%N)]
           [[([1%N], Some 1024%N); ([1%N], Some 1024%N)]] = false.
Proof.
  cbv zeta. split; [reflexivity|]. split; [right; reflexivity|]. split; [right; reflexivity|].
  split; [vm_compute; auto 20|]. split; [vm_compute; auto 20|]. vm_compute. repeat split.
Qed.

(* The wiring extracted from app/app.go aligns every start block of the interval chains. *)
Theorem C19_evm_wiring_aligned : wiring_aligned wiring_evm = true.
Proof. vm_compute. reflexivity. Qed.
Print Assumptions C19_evm_wiring_aligned.

Theorem C19_substrate_wiring_aligned : wiring_aligned wiring_substrate = true.
Proof. vm_compute. reflexivity. Qed.
Print Assumptions C19_substrate_wiring_aligned.
