(* C19 - Independent relayers derive identical identifiers for the same chain data.
   Only the property theorems (each closed by [exact]) and Print Assumptions.

   [run w c stored0 evs] (Model/C05.v) is the complete history of a relayer under ANY environment
   script - heads at any rhythm, faults, any number of crashes/restarts - for any configured start,
   stored cursor and flags; [aligned_setup w c] = Bitcoin (single-block ranges) or a wiring that
   aligns every start block - stored, configured or head - to the block interval, hands the result to
   the chain object and builds the listener over the same interval (C19_wiring_aligned_spec; what
   app.go does for EVM and Substrate: theorems at the end, by computation on the record regenerated from
   app.go; a wiring that aligns to the confirmation depth, or not every start value, is refuted:
   C19_conf_aligned_refuted, C19_known_only_refuted). *)
From Coq Require Import List ZArith NArith Bool String Permutation.
Import ListNotations.
From SygmaV Require Import Model.C05 Proofs.C05 Model.C19 Proofs.C19 Proofs.C19_Hist Gen.C05_Wiring.
Local Open Scope Z_scope.

(* Every range any handler is ever given is a cell [k*i, k*i + i - 1] of the partition determined by
   the block interval alone (Bitcoin: i = 1). *)
Theorem C19_ranges_are_cells : forall w c stored0 evs k s e ok,
  wf_cfg c = true -> aligned_setup w c ->
  In (OHandle k s e ok) (run w c stored0 evs) -> s mod stp c = 0 /\ e = s + stp c - 1.
Proof. exact ranges_are_cells. Qed.
Print Assumptions C19_ranges_are_cells.

Theorem C19_wiring_aligned_spec : forall w, wiring_aligned w = true <->
  (reads_store w = true /\ head_if_nil w = true /\ align_arg w = AlignInterval /\ aligns_known w = true
   /\ aligns_head w = true /\ chain_arg w = ChainStart /\ steps_by_interval w = true).
Proof. exact wiring_aligned_spec. Qed.
Print Assumptions C19_wiring_aligned_spec.

(* The start block aligned to the confirmation depth instead (listener stepping by the interval): some
   scanned range is no cell. *)
Theorem C19_conf_aligned_refuted :
  exists c stored0 evs k s e ok,
    wf_cfg c = true /\ In (OHandle k s e ok) (run conf_aligned_wiring c stored0 evs) /\ s mod stp c <> 0.
Proof. exact conf_aligned_refuted. Qed.
Print Assumptions C19_conf_aligned_refuted.

(* Only a start block known beforehand aligned, the head substituted for nil not: the same. *)
Theorem C19_known_only_refuted :
  exists c stored0 evs k s e ok,
    wf_cfg c = true /\ In (OHandle k s e ok) (run known_only_wiring c stored0 evs) /\ s mod stp c <> 0.
Proof. exact known_only_refuted. Qed.
Print Assumptions C19_known_only_refuted.

(* Two relayers with arbitrary configurations (same interval) and arbitrary histories that both
   look at block b do so through the same range ... *)
Theorem C19_same_block_same_range : forall w1 w2 c1 c2 st1 st2 evs1 evs2 k1 s1 e1 ok1 k2 s2 e2 ok2 b,
  wf_cfg c1 = true -> wf_cfg c2 = true -> aligned_setup w1 c1 -> aligned_setup w2 c2 ->
  stp c1 = stp c2 ->
  In (OHandle k1 s1 e1 ok1) (run w1 c1 st1 evs1) -> In (OHandle k2 s2 e2 ok2) (run w2 c2 st2 evs2) ->
  s1 <= b <= e1 -> s2 <= b <= e2 ->
  s1 = s2 /\ e1 = e2.
Proof. exact same_block_same_range. Qed.
Print Assumptions C19_same_block_same_range.

(* ... hence derive the same message id, session ids (EVM batch index, Substrate, Bitcoin resource)
   and Bitcoin nonce (for any hash function H) for a deposit in that block. *)
Theorem C19_same_deposit_same_ids :
  forall w1 w2 c1 c2 st1 st2 evs1 evs2 k1 s1 e1 ok1 k2 s2 e2 ok2 b src dst batch rid H tx,
  wf_cfg c1 = true -> wf_cfg c2 = true -> aligned_setup w1 c1 -> aligned_setup w2 c2 ->
  stp c1 = stp c2 ->
  In (OHandle k1 s1 e1 ok1) (run w1 c1 st1 evs1) -> In (OHandle k2 s2 e2 ok2) (run w2 c2 st2 evs2) ->
  s1 <= b <= e1 -> s2 <= b <= e2 ->
  message_id src dst s1 e1 = message_id src dst s2 e2
  /\ session_id_evm (message_id src dst s1 e1) batch = session_id_evm (message_id src dst s2 e2) batch
  /\ session_id_sub (message_id src dst s1 e1) = session_id_sub (message_id src dst s2 e2)
  /\ btc_message_id src dst s1 = btc_message_id src dst s2
  /\ session_id_btc (btc_message_id src dst s1) rid = session_id_btc (btc_message_id src dst s2) rid
  /\ btc_nonce H s1 tx = btc_nonce H s2 tx.
Proof. exact same_deposit_same_ids. Qed.
Print Assumptions C19_same_deposit_same_ids.

(* btc_nonce_same: every Bitcoin relayer, whatever its wiring and history, feeds the block of the
   transaction itself into the nonce and the message id. *)
Theorem C19_btc_range_is_block : forall w c stored0 evs k s e ok,
  wf_cfg c = true -> kd c = Btc -> In (OHandle k s e ok) (run w c stored0 evs) -> e = s.
Proof. exact btc_range_is_block. Qed.
Print Assumptions C19_btc_range_is_block.

(* The group sent for destination d is exactly the deposits for d in chain (log) order: no trace of
   the map's iteration order. *)
Theorem C19_grouping_order_free : forall (M : Type) (dest : M -> N) d msgs,
  lookup d (group dest msgs) = for_dest dest d msgs.
Proof. exact (@grouping_order_free). Qed.
Print Assumptions C19_grouping_order_free.

(* Repaired ProcessDeposits: the credited resource is the same for every order in which the map
   may yield the resources (distinct resource ids), for any decoding function. *)
Theorem C19_credit_order_free : forall (R T : Type) (key : R -> N) (decode : T -> R -> outcome) o o' tx,
  NoDup (map key o) -> Permutation o o' ->
  credit_sorted key decode o tx = credit_sorted key decode o' tx.
Proof. exact (@credit_order_free). Qed.
Print Assumptions C19_credit_order_free.

(* The loop as it was (map order) is order-free only for transactions that concern one resource ... *)
Theorem C19_credit_single_payer : forall (R T : Type) (decode : T -> R -> outcome) o tx r,
  In r o -> NoDup o -> (forall x, In x o -> x <> r -> decode tx x = DNo) ->
  credit decode o tx = match decode tx r with DYes => Some r | _ => None end.
Proof. exact (@credit_single_payer). Qed.
Print Assumptions C19_credit_single_payer.

(* ... and order-dependent otherwise: a transaction paying resources 1 and 2. *)
Theorem C19_credit_order_free_refuted :
  exists (o o' : list N) (tx : list N),
    Permutation o o' /\ NoDup o /\ credit pays_decode o tx <> credit pays_decode o' tx.
Proof. exact credit_order_free_refuted. Qed.
Print Assumptions C19_credit_order_free_refuted.

(* EVM signing sessions (Executor.Execute).  [evm_sessions mid bs] = the sessions the model starts for
   the batch list bs (members per position): a batch's session is determined by the message id and
   the batch's position alone - nothing else (no schedule, no other batch) enters. *)
Theorem C19_evm_session_is_position_only : forall mid bs ms sids,
  In (ms, sids) (evm_sessions mid bs) <->
  exists k, nth_error bs k = Some ms /\ ms <> [] /\ sids = [evm_sid mid (N.of_nat k)].
Proof. exact evm_sessions_position. Qed.
Print Assumptions C19_evm_session_is_position_only.

(* ... it is the session id of C19_same_deposit_same_ids (message id + batch index) ... *)
Theorem C19_evm_sid_is_session_id : forall mid k, evm_sid mid k = session_id_evm mid (Z.of_N k).
Proof. exact evm_sid_is_session_id. Qed.
Print Assumptions C19_evm_sid_is_session_id.

(* ... and different batches of one message never share a session id. *)
Theorem C19_evm_sid_injective : forall mid i j, evm_sid mid i = evm_sid mid j -> i = j.
Proof. exact evm_sid_inj. Qed.
Print Assumptions C19_evm_sid_injective.

Theorem C19_evm_hashed_spec : forall bs ms, In ms (evm_hashed bs) <-> In ms bs /\ ms <> [].
Proof. exact evm_hashed_in. Qed.
Print Assumptions C19_evm_hashed_spec.

(* The judge of the session cases accepts the model under any number of repetitions, and whatever it
   accepts - the implementation's observations under several goroutine schedules - equals the
   specification; in particular any two observed schedules show the same (members -> session id). *)
Theorem C19_session_judge_accepts_model : forall mid bs n m,
  sess_ok mid bs (repeat (evm_sessions mid bs) n) (repeat (evm_hashed bs) m) = true.
Proof. exact sess_ok_model. Qed.
Print Assumptions C19_session_judge_accepts_model.

Theorem C19_session_judge_sound : forall mid bs runs hashed,
  sess_ok mid bs runs hashed = true ->
  (forall r, In r runs -> r = evm_sessions mid bs) /\ (forall h, In h hashed -> h = evm_hashed bs).
Proof. exact sess_ok_sound. Qed.
Print Assumptions C19_session_judge_sound.

Theorem C19_sessions_schedule_free : forall mid bs runs hashed r1 r2,
  sess_ok mid bs runs hashed = true -> In r1 runs -> In r2 runs -> r1 = r2.
Proof. exact sess_ok_schedule_free. Qed.
Print Assumptions C19_sessions_schedule_free.

(* Bitcoin executor (Executor.Execute): [bexec_spec props] = what the goroutines of the model work on
   for a delivery of proposals (deposit nonce, resource id): each a resource together with exactly
   that resource's proposals in delivery order (so the session <message id>-<resource id> signs the
   transaction of that resource), every resource once. *)
Theorem C19_btc_exec_group_is_resource_only : forall props ms r,
  In (ms, r) (bexec_spec props) ->
  exists rid, r = Some rid /\ ms = map fst (for_dest (@snd N N) rid props) /\ ms <> [].
Proof. exact bexec_spec_in. Qed.
Print Assumptions C19_btc_exec_group_is_resource_only.

Theorem C19_btc_exec_resources_distinct : forall props, NoDup (map snd (bexec_spec props)).
Proof. exact bexec_spec_resources_distinct. Qed.
Print Assumptions C19_btc_exec_resources_distinct.

Theorem C19_btc_exec_judge_accepts_model : forall props n,
  bexec_ok props (repeat (bexec_spec props) n) = true.
Proof. exact bexec_ok_model. Qed.
Print Assumptions C19_btc_exec_judge_accepts_model.

Theorem C19_btc_exec_judge_sound : forall props runs,
  bexec_ok props runs = true -> forall r, In r runs -> r = bexec_spec props.
Proof. exact bexec_ok_sound. Qed.
Print Assumptions C19_btc_exec_judge_sound.

(* Identifiers do not depend on one relayer's transient faults.  A delivery is chain data: the proposals
   and which of them the destination reports executed; [mark d mask] is that delivery on a relayer whose
   executed-status look-ups fail at the positions marked in [mask].  [evm_exec] / [sub_exec] / [btc_exec]
   = the sessions (members -> session id; Bitcoin: members -> resource, whose id names the session)
   Execute starts.  Whatever look-ups fail, a relayer starts the sessions of its fault-free peers or none
   ... *)
Theorem C19_evm_fault_all_or_nothing : forall mid cap tg d mask,
  evm_exec mid cap tg (mark d mask) = [] \/ evm_exec mid cap tg (mark d mask) = evm_exec mid cap tg (mark d []).
Proof. exact evm_exec_all_or_nothing. Qed.
Print Assumptions C19_evm_fault_all_or_nothing.

Theorem C19_substrate_fault_all_or_nothing : forall mid d mask,
  sub_exec mid (mark d mask) = [] \/ sub_exec mid (mark d mask) = sub_exec mid (mark d []).
Proof. exact sub_exec_all_or_nothing. Qed.
Print Assumptions C19_substrate_fault_all_or_nothing.

Theorem C19_btc_fault_all_or_nothing : forall d mask,
  btc_exec (mark d mask) = [] \/ btc_exec (mark d mask) = btc_exec (mark d []).
Proof. exact btc_exec_all_or_nothing. Qed.
Print Assumptions C19_btc_fault_all_or_nothing.

(* ... so two relayers with ANY faults that both sign deposit n (distinct deposit nonces) sign it with
   the same co-members under the same session id. *)
Theorem C19_evm_fault_same_session : forall mid cap tg d m1 m2 s1 s2 n,
  NoDup (map (fun x => fst (fst x)) d) ->
  In s1 (evm_exec mid cap tg (mark d m1)) -> In s2 (evm_exec mid cap tg (mark d m2)) ->
  In n (fst s1) -> In n (fst s2) -> s1 = s2.
Proof. exact evm_exec_same_session. Qed.
Print Assumptions C19_evm_fault_same_session.

Theorem C19_substrate_fault_same_session : forall mid d m1 m2 s1 s2,
  In s1 (sub_exec mid (mark d m1)) -> In s2 (sub_exec mid (mark d m2)) -> s1 = s2.
Proof. exact sub_exec_same_session. Qed.
Print Assumptions C19_substrate_fault_same_session.

Theorem C19_btc_fault_same_group : forall d m1 m2 g1 g2 n,
  NoDup (map (fun x => fst (fst x)) d) ->
  In g1 (btc_exec (mark d m1)) -> In g2 (btc_exec (mark d m2)) ->
  In n (fst g1) -> In n (fst g2) -> g1 = g2.
Proof. exact btc_exec_same_group. Qed.
Print Assumptions C19_btc_fault_same_group.

(* The judge of the faulty-relayer cases (every session a relayer with failing look-ups starts is one of
   its fault-free peer's) accepts the model for any number of relayers and any faults, and says what it
   reads. *)
Theorem C19_fault_judge_accepts_model_evm : forall mid cap tg d masks,
  faulty_ok sess1_eqb (evm_exec mid cap tg (mark d [])) (map (fun m => evm_exec mid cap tg (mark d m)) masks) = true.
Proof. exact faulty_ok_evm_model. Qed.
Print Assumptions C19_fault_judge_accepts_model_evm.

Theorem C19_fault_judge_accepts_model_substrate : forall mid d masks,
  faulty_ok sess1_eqb (sub_exec mid (mark d [])) (map (fun m => sub_exec mid (mark d m)) masks) = true.
Proof. exact faulty_ok_sub_model. Qed.
Print Assumptions C19_fault_judge_accepts_model_substrate.

Theorem C19_fault_judge_accepts_model_btc : forall d masks,
  faulty_ok bgroup1_eqb (btc_exec (mark d [])) (map (fun m => btc_exec (mark d m)) masks) = true.
Proof. exact faulty_ok_btc_model. Qed.
Print Assumptions C19_fault_judge_accepts_model_btc.

Theorem C19_fault_judge_sound_sessions : forall ref runs,
  faulty_ok sess1_eqb ref runs = true -> forall run s, In run runs -> In s run -> In s ref.
Proof. exact (fun ref runs => faulty_ok_sound sess1_eqb ref runs (fun a b H => proj1 (sess1_eqb_eq a b) H)). Qed.
Print Assumptions C19_fault_judge_sound_sessions.

Theorem C19_fault_judge_sound_groups : forall ref runs,
  faulty_ok bgroup1_eqb ref runs = true -> forall run g, In run runs -> In g run -> In g ref.
Proof. exact (fun ref runs => faulty_ok_sound bgroup1_eqb ref runs (fun a b H => proj1 (bgroup1_eqb_eq a b) H)). Qed.
Print Assumptions C19_fault_judge_sound_groups.

(* Skipping the proposal whose look-up failed instead of failing Execute (NOT the code) shifts the later
   deposits into other batches: a session no fault-free peer has. *)
Theorem C19_evm_skip_failed_lookup_refuted :
  exists mid cap tg d mask,
    NoDup (map (fun x => fst (fst x)) d) /\
    faulty_ok sess1_eqb (evm_exec mid cap tg (mark d [])) [skip_evm_exec mid cap tg (mark d mask)] = false.
Proof. exact skip_evm_exec_refuted. Qed.
Print Assumptions C19_evm_skip_failed_lookup_refuted.

(* ---- long-lived executor objects and node latency ----------------------------------------------------------- *)

(* Identifiers do not depend on what the long-lived objects did before.  A relayer that has been running
   for a long time executes every delivery - and, after retries, the same delivery again - on ONE executor
   object; a relayer restarted in between on a new one.  The judge of the history cases ([fresh] = per
   delivery what the restarted relayer started, [steps] = per step of the long-running relayer's history the
   delivery and what it started): whatever the long-running relayer starts at any step, the restarted relayer
   starts for that delivery - same members, same order, same identifier. *)
Theorem C19_history_judge_sound_sessions : forall fresh steps,
  hist_ok sess1_eqb fresh steps = true ->
  forall i obs s, In (i, obs) steps -> In s obs -> exists f, nth_error fresh i = Some f /\ In s f.
Proof. exact (fun fresh steps => hist_ok_sound sess1_eqb fresh steps (fun a b H => proj1 (sess1_eqb_eq a b) H)). Qed.
Print Assumptions C19_history_judge_sound_sessions.

Theorem C19_history_judge_sound_groups : forall fresh steps,
  hist_ok bgroup1_eqb fresh steps = true ->
  forall i obs g, In (i, obs) steps -> In g obs -> exists f, nth_error fresh i = Some f /\ In g f.
Proof. exact (fun fresh steps => hist_ok_sound bgroup1_eqb fresh steps (fun a b H => proj1 (bgroup1_eqb_eq a b) H)). Qed.
Print Assumptions C19_history_judge_sound_groups.

(* ... so at any two steps that concern the same delivery a member list is signed under the same session id
   (whenever the restarted relayer signs no member list under two ids) *)
Theorem C19_history_same_delivery_same_id : forall fresh steps i o1 o2 m s1 s2 f,
  hist_ok sess1_eqb fresh steps = true ->
  In (i, o1) steps -> In (i, o2) steps -> In (m, s1) o1 -> In (m, s2) o2 ->
  nth_error fresh i = Some f ->
  (forall a b, In a f -> In b f -> fst a = fst b -> a = b) ->
  s1 = s2.
Proof. exact hist_ok_same_id. Qed.
Print Assumptions C19_history_same_delivery_same_id.

(* the judge accepts every executor whose Execute is a function of the delivery (the three executors as
   modelled: [evm_exec], [sub_exec], [btc_exec]), for ANY deliveries and ANY history *)
Theorem C19_history_judge_accepts_model_evm : forall cap tg (dels : list (string * list (N * option N * bool))) seq,
  let f := fun d : string * list (N * option N * bool) => evm_exec (fst d) cap tg (mark (snd d) []) in
  hist_ok sess1_eqb (map f dels) (run_history f dels seq) = true.
Proof. exact (fun cap tg dels seq => hist_ok_model sess1_eqb _ dels seq (fun a => proj2 (sess1_eqb_eq a a) eq_refl)). Qed.
Print Assumptions C19_history_judge_accepts_model_evm.

Theorem C19_history_judge_accepts_model_substrate : forall (dels : list (string * list (N * bool))) seq,
  let f := fun d : string * list (N * bool) => sub_exec (fst d) (mark (snd d) []) in
  hist_ok sess1_eqb (map f dels) (run_history f dels seq) = true.
Proof. exact (fun dels seq => hist_ok_model sess1_eqb _ dels seq (fun a => proj2 (sess1_eqb_eq a a) eq_refl)). Qed.
Print Assumptions C19_history_judge_accepts_model_substrate.

Theorem C19_history_judge_accepts_model_btc : forall (dels : list (list (N * N * bool))) seq,
  let f := fun d : list (N * N * bool) => btc_exec (mark d []) in
  hist_ok bgroup1_eqb (map f dels) (run_history f dels seq) = true.
Proof. exact (fun dels seq => hist_ok_model bgroup1_eqb _ dels seq (fun a => proj2 (bgroup1_eqb_eq a a) eq_refl)). Qed.
Print Assumptions C19_history_judge_accepts_model_btc.

(* An executor that counts the starts of a session id per object and appends -<n> from the second start on
   (NOT the code): the second time a long-running relayer is handed the retried delivery it signs under
   another id than its restarted peer. *)
Theorem C19_counted_sessions_refuted :
  exists mid cap tg (d : list (N * option N * bool)) seq,
    let f := fun d => evm_exec mid cap tg (mark d []) in
    hist_ok sess1_eqb (map f [d]) (run_history f [d] seq) = true /\
    hist_ok sess1_eqb (map f [d]) (counted_history f [d] [] seq) = false.
Proof. exact counted_sessions_refuted. Qed.
Print Assumptions C19_counted_sessions_refuted.

(* The order of what is signed does not depend on the latency of the node: the executors ask one look-up
   after the other and append in delivery order ([pending_of] has no latency parameter), so any number of
   relayers with any latencies do what the latency-free relayer does and the judge of the latency cases (the
   faulty-relayer judge: ordered member list -> session id) accepts them; *)
Theorem C19_latency_judge_accepts_model : forall ref n, faulty_ok sess1_eqb ref (repeat ref n) = true.
Proof. exact (fun ref n => faulty_ok_repeat sess1_eqb ref n (fun a => proj2 (sess1_eqb_eq a a) eq_refl)). Qed.
Print Assumptions C19_latency_judge_accepts_model.

(* look-ups asked side by side whose pending proposals are appended as the answers arrive (NOT the code) are
   the code exactly when the answers arrive in delivery order ... *)
Theorem C19_completion_in_delivery_order_is_code : forall (ps : list (@looked N)),
  completion_pending ps (seq 0 (List.length ps)) = pending_of ps.
Proof. exact completion_pending_delivery_order. Qed.
Print Assumptions C19_completion_in_delivery_order_is_code.

(* ... and sign another list under the same session id otherwise *)
Theorem C19_completion_order_refuted :
  exists mid (d : list (N * bool)) order,
    Permutation order (seq 0 (List.length d)) /\
    faulty_ok sess1_eqb (sub_exec mid (mark d [])) [sub_exec_completion mid (mark d []) order] = false.
Proof. exact completion_order_refuted. Qed.
Print Assumptions C19_completion_order_refuted.

(* Retry paths (EVM RetryV1EventHandler, Substrate RetryEventHandler): the group sent for destination d is
   the not yet executed deposits for d of the first retry event of the range, then those of the second, ...:
   chain (log) order of the events and, inside an event, of its deposits - no trace of a map's iteration
   order (for any message type, destination function and liveness test) ... *)
Theorem C19_retry_grouping_event_order : forall (M : Type) (dest : M -> N) (live : M -> bool) d (evs : list (list M)),
  lookup d (group dest (filter live (List.concat evs))) =
  List.concat (map (fun ev => for_dest dest d (filter live ev)) evs).
Proof. exact (@retry_grouping_event_order). Qed.
Print Assumptions C19_retry_grouping_event_order.

(* ... so every group the model of the retry handlers sends is named retry-<source>-<destination>-<start>-<end>
   and holds exactly those deposits in that order. *)
Theorem C19_retry_model_group : forall src s e evs id d ns,
  In (id, d, ns) (retry_model src s e evs) ->
  id = retry_message_id src (Z.of_N d) s e /\
  ns = map rd_nonce (List.concat (map (fun ev => for_dest rd_dest d (filter rd_live ev)) evs)).
Proof. exact retry_model_in. Qed.
Print Assumptions C19_retry_model_group.

(* The judge of the repeated runs of a handler on one range (Go randomises map iteration) accepts only
   observations in which any two repetitions sent the same groups - same deposits, same order, same ids -
   and accepts a function of the chain data repeated any number of times. *)
Theorem C19_reps_judge_sound : forall runs r1 r2, reps_ok runs = true -> In r1 runs -> In r2 runs -> r1 = r2.
Proof. exact reps_ok_sound. Qed.
Print Assumptions C19_reps_judge_sound.

Theorem C19_reps_judge_accepts_model : forall m n, reps_ok (repeat m n) = true.
Proof. exact reps_ok_model. Qed.
Print Assumptions C19_reps_judge_accepts_model.

(* The judge of the concurrent cases (one long-lived handler object serving the listener's scan and retries
   of other blocks at the same time): under every observed schedule every call sent what it sent when the
   calls were made one after the other; a function of the chain data passes for any number of schedules. *)
Theorem C19_conc_judge_sound : forall seq runs, conc_ok seq runs = true -> forall r, In r runs -> r = seq.
Proof. exact conc_ok_sound. Qed.
Print Assumptions C19_conc_judge_sound.

Theorem C19_conc_judge_accepts_model : forall m n, conc_ok m (repeat m n) = true.
Proof. exact conc_ok_model. Qed.
Print Assumptions C19_conc_judge_accepts_model.

(* the boolean cell test used by the judge is the statement of C19_ranges_are_cells *)
Theorem C19_is_cell_spec : forall i s e, is_cell i s e = true <-> (s mod i = 0 /\ e = s + i - 1).
Proof. exact is_cell_spec. Qed.
Print Assumptions C19_is_cell_spec.

Theorem C19_cell_of_is_cell : forall i b, 1 <= i ->
  is_cell i (fst (cell_of i b)) (snd (cell_of i b)) = true /\ fst (cell_of i b) <= b <= snd (cell_of i b).
Proof. exact cell_of_is_cell. Qed.
Print Assumptions C19_cell_of_is_cell.

(* Non-vacuity: two differently started relayers (one restarted, one with the `latest` flag) over
   interval 5; both see block 12 through [10, 14]; ids as the Go format strings print them. *)
Example C19_nonvacuous :
  let c1 := {| kd := Evm; ival := 5; conf := 1; nh := 1; cstart := 7; latest := false; fresh := false |} in
  let c2 := {| kd := Evm; ival := 5; conf := 1; nh := 1; cstart := 0; latest := true; fresh := false |} in
  wf_cfg c1 = true /\ aligned_setup wiring_evm c1 /\ aligned_setup wiring_evm c2 /\
  In (OHandle 0 10 14 true)
     (run wiring_evm c1 None [Head 40; Handler true; Store true; Crash; Head 40; Handler true]) /\
  In (OHandle 0 10 14 true) (run wiring_evm c2 (Some 3) [Head 13; Head 40; Handler true]) /\
  message_id 1 2 10 14 = "1-2-10-14"%string /\ btc_message_id 1 2 812345 = "1-2-812345"%string /\
  session_id_evm (message_id 1 2 10 14) 0 = "1-2-10-14-0"%string /\
  credit_run [3%N; 1%N; 2%N] [2%N; 1%N] = Some 1%N /\
  (* left-padded resource ids 0x00..0400 and 0x00..0300: the smaller one is credited *)
  credit_run [1024%N; 768%N] [1024%N; 768%N] = Some 768%N /\
  (* a delivery whose first batch is empty and whose 2nd and 3rd batches hold deposits 0,1 and 2 *)
  evm_sessions "1-2-10-14" [[]; [0%N; 1%N]; [2%N]] =
    [([0%N; 1%N], ["1-2-10-14-1"%string]); ([2%N], ["1-2-10-14-2"%string])] /\
  sess_ok "1-2-10-14" [[]; [0%N; 1%N]; [2%N]]
          [[([0%N; 1%N], ["1-2-10-14-1"%string]); ([2%N], ["1-2-10-14-2"%string])]]
          [[[0%N; 1%N]; [2%N]]] = true /\
  (* what the shared-loop-variable defect shows: every goroutine sees the last position / batch *)
  sess_ok "1-2-10-14" [[]; [0%N; 1%N]; [2%N]]
          [[([2%N], ["1-2-10-14-2"%string]); ([2%N], ["1-2-10-14-2"%string])]] [] = false /\
  (* Bitcoin delivery: deposits 0 and 2 of resource 768, deposit 1 of resource 1024 *)
  bexec_spec [(0%N, 768%N); (1%N, 1024%N); (2%N, 768%N)] =
    [([0%N; 2%N], Some 768%N); ([1%N], Some 1024%N)] /\
  bexec_ok [(0%N, 768%N); (1%N, 1024%N); (2%N, 768%N)]
           [[([0%N; 2%N], Some 768%N); ([1%N], Some 1024%N)]] = true /\
  bexec_ok [(0%N, 768%N); (1%N, 1024%N); (2%N, 768%N)]
           [[([1%N], Some 1024%N); ([1%N], Some 1024%N)]] = false /\
  (* four deposits of gas 100 under a cap of 250, deposit 2 already executed; the second look-up of one
     relayer fails: that relayer starts nothing, its peer two sessions *)
  (let d := [((1%N, None), false); ((2%N, None), true); ((3%N, None), false); ((4%N, None), false)] in
   NoDup (map (fun x => fst (fst x)) d) /\
   evm_exec "1-2-10-14" 250 100 (mark d []) =
     [([1%N; 3%N], ["1-2-10-14-0"%string]); ([4%N], ["1-2-10-14-1"%string])] /\
   evm_exec "1-2-10-14" 250 100 (mark d [false; true]) = [] /\
   faulty_ok sess1_eqb (evm_exec "1-2-10-14" 250 100 (mark d [])) [[]; [([4%N], ["1-2-10-14-1"%string])]] = true /\
   faulty_ok sess1_eqb (evm_exec "1-2-10-14" 250 100 (mark d [])) [[([3%N; 4%N], ["1-2-10-14-1"%string])]] = false) /\
  (* two retried transactions in the range [100, 104]: deposits 7 (to 2) and 8 (to 3), then 5 (to 2, already
     executed) and 6 (to 2): destination 2 gets 7 then 6; the other order in one repetition is rejected *)
  retry_model 1 100 104 [[(2%N, 7%N, false); (3%N, 8%N, false)]; [(2%N, 5%N, true); (2%N, 6%N, false)]] =
    [("retry-1-2-100-104"%string, 2%N, [7%N; 6%N]); ("retry-1-3-100-104"%string, 3%N, [8%N])] /\
  reps_ok [[("retry-1-2-100-104"%string, 2%N, [7%N; 6%N])]; [("retry-1-2-100-104"%string, 2%N, [7%N; 6%N])]] = true /\
  reps_ok [[("retry-1-2-100-104"%string, 2%N, [7%N; 6%N])]; [("retry-1-2-100-104"%string, 2%N, [6%N; 7%N])]] = false /\
  conc_ok [[("1-2-840000"%string, 2%N, [1%N; 2%N])]] [[[("1-2-840000"%string, 2%N, [1%N; 2%N])]]] = true /\
  (* a nonce derived from an interleaved hasher (unknown: 0), or a dropped deposit *)
  conc_ok [[("1-2-840000"%string, 2%N, [1%N; 2%N])]] [[[("1-2-840000"%string, 2%N, [1%N; 0%N])]]] = false /\
  conc_ok [[("1-2-840000"%string, 2%N, [1%N; 2%N])]] [[[("1-2-840000"%string, 2%N, [1%N])]]] = false /\
  (* a block retried twice: the long-running relayer executes the delivery a second time *)
  hist_ok sess1_eqb [[([1%N; 2%N], ["1-2-101-101-0"%string])]]
          [(0%nat, [([1%N; 2%N], ["1-2-101-101-0"%string])]); (0%nat, [([1%N; 2%N], ["1-2-101-101-0"%string])])] = true /\
  hist_ok sess1_eqb [[([1%N; 2%N], ["1-2-101-101-0"%string])]]
          [(0%nat, [([1%N; 2%N], ["1-2-101-101-0"%string])]); (0%nat, [([1%N; 2%N], ["1-2-101-101-0-1"%string])])] = false /\
  (* a relayer whose node answers late signs the pending proposals in delivery order, not in answer order *)
  faulty_ok sess1_eqb [([10%N; 11%N; 13%N], ["1-3-100-104"%string])] [[([13%N; 11%N; 10%N], ["1-3-100-104"%string])]] = false.
Proof.
  cbv zeta. split; [reflexivity|]. split; [right; reflexivity|]. split; [right; reflexivity|].
  split; [vm_compute; auto 20|]. split; [vm_compute; auto 20|].
  repeat (split; [vm_compute; reflexivity|]).
  split; [|vm_compute; repeat split].
  split; [|vm_compute; repeat split].
  cbn. repeat constructor; cbn; intuition discriminate.
Qed.

(* The wiring extracted from app/app.go aligns every start block of the interval chains. *)
Theorem C19_evm_wiring_aligned : wiring_aligned wiring_evm = true.
Proof. vm_compute. reflexivity. Qed.
Print Assumptions C19_evm_wiring_aligned.

Theorem C19_substrate_wiring_aligned : wiring_aligned wiring_substrate = true.
Proof. vm_compute. reflexivity. Qed.
Print Assumptions C19_substrate_wiring_aligned.
