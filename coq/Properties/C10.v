(* C10 - Key-share access is serialised and the lock is always given back.
   Only the property theorems (each closed by [exact]) and Print Assumptions.

   The theorems are about the REPAIRED code (variant [New]: ECDSA keygen remembers whether it took
   the lock; Execute stops the processes of a refused request); the code as found (variant [Old])
   is refuted by C10_old_*_refuted. *)
From Coq Require Import List Arith NArith Bool.
Import ListNotations.
From SygmaV Require Import Model.C10 Proofs.C10 Proofs.C10_Conc Proofs.C10_Stress Proofs.C10_Batch.

(* no_fatal_unlock + free_at_end (+ never blocks on itself): every process kind x every outcome *)
Theorem C10_no_fatal_unlock_free_at_end : forall k o, feasible k o = true ->
  mrun false (session_events New k o) = MOk false.
Proof. exact session_safe. Qed.
Print Assumptions C10_no_fatal_unlock_free_at_end.

Theorem C10_balanced : forall k o, feasible k o = true ->
  count is_L (session_events New k o) = count is_U (session_events New k o).
Proof. exact session_balanced. Qed.
Print Assumptions C10_balanced.

(* lifted to arbitrary sequences of sessions on one store: leaks cannot accumulate, no session
   ever aborts the relayer or finds the lock taken by a predecessor *)
Theorem C10_sequence_safe : forall ss, all_feasible ss = true ->
  mrun false (sessions_events New ss) = MOk false.
Proof. exact sequence_safe. Qed.
Print Assumptions C10_sequence_safe.

Theorem C10_sequence_balanced : forall ss, all_feasible ss = true ->
  count is_L (sessions_events New ss) = count is_U (sessions_events New ss).
Proof. exact sequence_balanced. Qed.
Print Assumptions C10_sequence_balanced.

(* The constructor fails (only the signing constructors can: the share is missing, corrupt or
   unreadable, or the FROST tweak is malformed): the lock it took to read the share is free again,
   locks = unlocks, the read happened under the lock ... *)
Theorem C10_constructor_fails_gives_lock_back : forall k, feasible k ConstructorFails = true ->
  mrun false (session_events New k ConstructorFails) = MOk false /\
  count is_L (session_events New k ConstructorFails) = count is_U (session_events New k ConstructorFails) /\
  guarded k false false (session_events New k ConstructorFails) = true.
Proof. exact constructor_fails_safe. Qed.
Print Assumptions C10_constructor_fails_gives_lock_back.

(* ... a signing request on a store without a readable share can end in no other way ... *)
Theorem C10_unreadable_signing_fails : forall sh k o, sh <> Readable -> is_signing k = true ->
  feasible_in sh k o = true -> o = ConstructorFails.
Proof. exact unreadable_signing_fails. Qed.
Print Assumptions C10_unreadable_signing_fails.

(* ... and for ARBITRARY sequences of sessions, each finding the share file in an arbitrary state
   (readable, missing, corrupt, unreadable): no fatal unlock, no session finds the lock taken by a
   predecessor, the lock is free at the end, locks = unlocks. *)
Theorem C10_sequence_any_store_state_safe : forall (ss : list (share * (kind * outcome))),
  all_feasible_in ss = true ->
  mrun false (sessions_events New (map snd ss)) = MOk false /\
  count is_L (sessions_events New (map snd ss)) = count is_U (sessions_events New (map snd ss)).
Proof. exact sequence_in_safe. Qed.
Print Assumptions C10_sequence_any_store_state_safe.

(* exclusive_while_running + signing_reads_under_lock: the per-session ledger is guarded ... *)
Theorem C10_guarded : forall k o, feasible k o = true ->
  guarded k false false (session_events New k o) = true.
Proof. exact session_guarded. Qed.
Print Assumptions C10_guarded.

(* ... which means: every read / write of the share happens while the lock is held, and a keygen or
   resharing still holds the lock when its Run returns (it neither starts work without it nor
   gives it up inside Run - see [guarded]). *)
Theorem C10_access_under_lock : forall k l h ir l1 e l2,
  guarded k h ir l = true -> l = l1 ++ e :: l2 -> (e = Get \/ e = Store) -> held_after h l1 = true.
Proof. exact guarded_access_under_lock. Qed.
Print Assumptions C10_access_under_lock.

Theorem C10_exclusive_while_running : forall k l h ir l1 l2,
  exclusive k = true -> guarded k h ir l = true -> l = l1 ++ RunEnd :: l2 -> held_after h l1 = true.
Proof. exact guarded_held_at_run_end. Qed.
Print Assumptions C10_exclusive_while_running.

(* Serialised: any number of threads, each running any sequence of sessions, under any schedule
   over one Go mutex: no fatal unlock, no access to the share without owning the mutex, and at
   most one thread is between a Lock and its Unlock. *)
Theorem C10_serialised : forall (plan : nat -> list (kind * outcome)) (sched : list nat),
  (forall t, all_feasible (plan t) = true) ->
  let st := cexec sched (cinit (fun t => sessions_events New (plan t))) in
  fatal st = false /\ bad st = false /\
  (forall t1 t2, inside st t1 -> inside st t2 -> t1 = t2).
Proof. exact serialised_sessions. Qed.
Print Assumptions C10_serialised.

(* the judges accept the model and mean the property *)
Theorem C10_session_ok_model : forall k o, feasible k o = true ->
  session_ok k (session_events New k o) = true.
Proof. exact session_ok_model. Qed.
Print Assumptions C10_session_ok_model.

Theorem C10_sequence_ok_model : forall ss, all_feasible ss = true ->
  sequence_ok (sessions_events New ss) = true.
Proof. exact sequence_ok_model. Qed.
Print Assumptions C10_sequence_ok_model.

Theorem C10_session_ok_sound : forall k l, session_ok k l = true ->
  mrun false l = MOk false /\ count is_L l = count is_U l /\ guarded k false false l = true.
Proof. exact session_ok_sound. Qed.
Print Assumptions C10_session_ok_sound.

(* the judge of sequences also demands every share access under the lock, and means it *)
Theorem C10_sequence_access_under_lock : forall ss, all_feasible ss = true ->
  locked_access false (sessions_events New ss) = true.
Proof. exact sequence_access. Qed.
Print Assumptions C10_sequence_access_under_lock.

Theorem C10_sequence_ok_sound : forall l, sequence_ok l = true ->
  mrun false l = MOk false /\ count is_L l = count is_U l /\
  (forall l1 e l2, l = l1 ++ e :: l2 -> (e = Get \/ e = Store) -> held_after false l1 = true).
Proof. exact sequence_ok_sound. Qed.
Print Assumptions C10_sequence_ok_sound.

(* Retried attempts: tss.Coordinator runs a retryable process (the signing kinds, and only them) a
   second time on the same object after a retryable failure.  The share is read once, in the
   constructor, under the lock; the second Run neither locks nor reads. *)
Theorem C10_rerun_ledger : forall k, feasible k Rerun = true ->
  session_events New k Rerun = [L; Get; U; RunBegin; RunEnd; RunBegin; RunEnd].
Proof. exact rerun_events. Qed.
Print Assumptions C10_rerun_ledger.

Theorem C10_rerun_reads_under_lock_once : forall k, feasible k Rerun = true ->
  session_ok k (session_events New k Rerun) = true /\
  locked_access false (session_events New k Rerun) = true /\
  count (fun e => match e with Get => true | _ => false end) (session_events New k Rerun) = 1.
Proof. exact rerun_safe. Qed.
Print Assumptions C10_rerun_reads_under_lock_once.

Theorem C10_rerun_only_signing : forall k, feasible k Rerun = true -> is_signing k = true.
Proof. exact rerun_only_signing. Qed.
Print Assumptions C10_rerun_only_signing.

(* Contention: sessions that OVERLAP on one store (threads = sessions of C10_serialised), under ANY
   schedule that lets all of them come to their end - whoever had to wait for the lock, in whatever
   order they got it: the merged ledger passes the judge (a Lock succeeds only on the free mutex,
   Unlock / Get / Store only by the thread that holds it, the mutex is free at the end, locks =
   unlocks, every thread's own events are guarded for its kind), and every thread's part of the
   ledger is exactly the ledger of its session. *)
Theorem C10_contention_ok_model : forall (ss : list (kind * outcome)) (sched : list nat),
  all_feasible ss = true ->
  let st0 := cinit (fun t => sessions_events New (plan_of ss t)) in
  (forall t, rest (cexec sched st0) t = []) ->
  contention_ok ss (ctrace sched st0) = true /\
  (forall t k o, nth_error ss t = Some (k, o) -> proj t (ctrace sched st0) = session_events New k o).
Proof. exact contention_ok_model. Qed.
Print Assumptions C10_contention_ok_model.

(* the same for the threads of C10_serialised in general: any plan, any schedule *)
Theorem C10_merged_ledger_ok : forall (plan : nat -> list (kind * outcome)) (sched : list nat),
  (forall t, all_feasible (plan t) = true) ->
  let st0 := cinit (fun t => sessions_events New (plan t)) in
  (forall t, rest (cexec sched st0) t = []) ->
  merged_ok (ctrace sched st0) = true /\
  (forall t, proj t (ctrace sched st0) = sessions_events New (plan t)).
Proof. exact merged_ok_any_plan. Qed.
Print Assumptions C10_merged_ledger_ok.

(* what the merged judge means: free at the end, balanced, a Lock is taken only from the free
   mutex, and every Unlock / read / write is done by the thread that holds the lock *)
Theorem C10_merged_ok_sound : forall tr, merged_ok tr = true ->
  owner_after None tr = None /\
  count is_L (map snd tr) = count is_U (map snd tr) /\
  (forall l1 t l2, tr = l1 ++ (t, L) :: l2 -> owner_after None l1 = None) /\
  (forall l1 t e l2, tr = l1 ++ (t, e) :: l2 -> (e = Get \/ e = Store \/ e = U) ->
     owner_after None l1 = Some t).
Proof. exact merged_ok_sound. Qed.
Print Assumptions C10_merged_ok_sound.

(* The state in which Execute is ENTERED: a context that is already cancelled / past its deadline
   when Coordinator.Execute is called (outcome CancelledBeforeEntry; covered, like every outcome, by
   the theorems above: C10_no_fatal_unlock_free_at_end, C10_balanced, C10_guarded, the sequence and
   contention theorems).  For every kind it exists, its ledger is the one of a session cancelled
   before start - what the constructor did, no Run, the deferred Stop - and the judge accepts it. *)
Theorem C10_cancelled_before_entry : forall k,
  feasible k CancelledBeforeEntry = true /\
  session_events New k CancelledBeforeEntry = session_events New k NeverCancelled /\
  session_events New k CancelledBeforeEntry = ctor_events k ++ stop_events New k false /\
  session_ok k (session_events New k CancelledBeforeEntry) = true.
Proof. exact cancelled_before_entry. Qed.
Print Assumptions C10_cancelled_before_entry.

(* The stores' own LockKeyshare / UnlockKeyshare must BE the mutex of C10_serialised (one held bit).
   Stress program: [workers] threads, each [pairs] times  Lock; read the shared counter; write it
   back incremented; Unlock.  Under ANY schedule of that mutex that lets every worker finish: no
   fatal unlock, the merged ledger passes the judge of merged ledgers, the mutex is free at the
   end, every worker's part of the ledger is its program, and NO INCREMENT IS LOST: the counter is
   workers * pairs. *)
Theorem C10_store_stress : forall (workers pairs : nat) (sched : list nat),
  let st0 := cinit (stress_prog workers pairs) in
  (forall t, rest (cexec sched st0) t = []) ->
  fatal (cexec sched st0) = false /\
  merged_ok (ctrace sched st0) = true /\
  owner_after None (ctrace sched st0) = None /\
  (forall t, proj t (ctrace sched st0) = stress_prog workers pairs t) /\
  counter_run 0 (fun _ => 0) (ctrace sched st0) = workers * pairs.
Proof. exact stress_model. Qed.
Print Assumptions C10_store_stress.

(* ... more generally: ANY merged ledger the judge of merged ledgers accepts (tguard) whose threads
   are read-modify-write programs keeps every increment *)
Theorem C10_guarded_counter_exact : forall tr reg, tguard None tr = true ->
  (forall u, rmwb false false (proj u tr) = true) ->
  counter_run 0 reg tr = count is_Store (map snd tr).
Proof. exact guarded_counter_exact. Qed.
Print Assumptions C10_guarded_counter_exact.

(* the judge of an observed stress run accepts what the model shows and means: every worker
   completed all its pairs, the counter is exact, a final Lock succeeded *)
Theorem C10_stress_ok_model : forall workers pairs : nat,
  stress_ok (N.of_nat workers) (N.of_nat pairs) (repeat (N.of_nat pairs) workers)
            (N.of_nat (workers * pairs)) 1 = true.
Proof. exact stress_ok_model. Qed.
Print Assumptions C10_stress_ok_model.

Theorem C10_stress_ok_sound : forall workers pairs dones counter free,
  stress_ok workers pairs dones counter free = true ->
  N.of_nat (length dones) = workers /\ (forall d, In d dones -> d = pairs) /\
  counter = (workers * pairs)%N /\ free = 1.
Proof. exact stress_ok_sound. Qed.
Print Assumptions C10_stress_ok_sound.

(* A STARTED Run that fails, whatever the class of its error (plain, *comm.CommunicationError,
   tss.Error, SubsetError, CoordinatorError) and whether or not the peers answer a retry: the outcome
   is one of the feasible ones (covered by every theorem above), the ledger passes the judge; a
   process that is not Retryable - every keygen and resharing - is run exactly once. *)
Theorem C10_started_run_fails_safe : forall k f a,
  feasible k (failed_outcome k f a) = true /\
  session_ok k (session_events New k (failed_outcome k f a)) = true.
Proof. exact (fun k f a => conj (failed_outcome_feasible k f a) (failed_safe k f a)). Qed.
Print Assumptions C10_started_run_fails_safe.

Theorem C10_not_retryable_run_once : forall k f a, is_signing k = false ->
  failed_outcome k f a = RanFailed /\
  count (fun e => match e with RunBegin => true | _ => false end)
        (session_events New k (failed_outcome k f a)) = 1.
Proof. exact failed_run_once. Qed.
Print Assumptions C10_not_retryable_run_once.

(* Re-running the ECDSA keygen after a started Run failed (Retryable() = true) is refuted: the second
   Run asks for the lock the first one still holds - the ledger blocks and the judge rejects it. *)
Theorem C10_retried_keygen_refuted :
  mrun false (retried_anyway_events EcdsaKeygen) = MBlocked /\
  session_ok EcdsaKeygen (retried_anyway_events EcdsaKeygen) = false.
Proof. exact retried_keygen_blocks. Qed.
Print Assumptions C10_retried_keygen_refuted.

(* ABNORMAL TERMINATION: a method of the process panics while Execute is using it (before Run, inside
   Run after the process began, in Retryable() after Run failed).  The deferred cleanup runs before the
   panic leaves Execute: every kind, every such outcome - feasible, the ledger passes the judge, the
   lock is free at the end (so are sequences and overlapping sessions containing them, by the general
   theorems above, which quantify over all outcomes). *)
Theorem C10_panics_give_lock_back : forall k o,
  (o = PanicBeforeStart \/ o = PanicInRunLate \/ o = PanicAfterRun) ->
  feasible k o = true /\ session_ok k (session_events New k o) = true /\
  mrun false (session_events New k o) = MOk false.
Proof. exact panic_outcomes_safe. Qed.
Print Assumptions C10_panics_give_lock_back.

Theorem C10_panic_ledgers : forall k,
  session_events New k PanicBeforeStart = ctor_events k ++ stop_events New k false /\
  session_events New k PanicInRunLate = session_events New k RanFailed /\
  session_events New k PanicAfterRun = session_events New k RanFailed.
Proof. exact panic_ledgers. Qed.
Print Assumptions C10_panic_ledgers.

(* A cleanup that is skipped when a process panics (the panic recovered, Execute returning before
   Stop) is refuted for every kind that holds the lock across Run: the lock stays taken. *)
Theorem C10_skipped_cleanup_refuted : forall k, exclusive k = true ->
  mrun false (no_stop_events k) = MOk true /\ session_ok k (no_stop_events k) = false.
Proof. exact skipped_cleanup_leaks. Qed.
Print Assumptions C10_skipped_cleanup_refuted.

(* Non-vacuity of the failure / panic theorems. *)
Example C10_failed_panic_nonvacuous :
  failed_outcome EcdsaKeygen FComm true = RanFailed /\ failed_outcome EcdsaSigning FComm true = Rerun /\
  failed_outcome EcdsaSigning FPlain true = RanFailed /\ failed_outcome FrostSigning FSubset false = RanFailed /\
  session_events New EcdsaKeygen (failed_outcome EcdsaKeygen FTss true) = [RunBegin; L; RunEnd; U] /\
  retried_anyway_events EcdsaKeygen = [RunBegin; L; RunEnd; RunBegin; L; RunEnd; U] /\
  session_events New EcdsaKeygen PanicBeforeStart = [] /\
  session_events New EcdsaKeygen PanicInRunLate = [RunBegin; L; RunEnd; U] /\
  session_events New FrostResharing PanicInRunLate = [L; Get; RunBegin; RunEnd; U] /\
  session_events New FrostKeygen PanicBeforeStart = [L; U] /\
  no_stop_events FrostResharing = [L; Get; RunBegin; RunEnd] /\
  all_feasible [(FrostResharing, PanicInRunLate); (FrostKeygen, RanFailed)] = true.
Proof. vm_compute. repeat split. Qed.

(* The code as found: an ECDSA keygen whose coordinator stays silent unlocks an unlocked mutex
   (fatal), and a refused constructor-locking process leaks the lock so that the next session on
   that store blocks. *)
Theorem C10_old_no_fatal_unlock_refuted :
  exists k o, feasible k o = true /\ mrun false (session_events Old k o) = MFatal.
Proof. exists EcdsaKeygen, NeverSilent. split; [reflexivity | exact old_fatal]. Qed.
Print Assumptions C10_old_no_fatal_unlock_refuted.

Theorem C10_old_free_at_end_refuted :
  exists k o k' o', feasible k o = true /\ feasible k' o' = true /\
    mrun false (session_events Old k o) = MOk true /\
    mrun false (sessions_events Old [(k, o); (k', o')]) = MBlocked.
Proof.
  exists FrostKeygen, Refused, FrostKeygen, RanSucceeded.
  destruct old_leak as [H1 H2]. repeat split; assumption.
Qed.
Print Assumptions C10_old_free_at_end_refuted.

(* Non-vacuity: the ledgers of an ECDSA keygen that ran and of a refused FROST resharing. *)
Example C10_nonvacuous :
  feasible EcdsaKeygen RanSucceeded = true /\
  session_events New EcdsaKeygen RanSucceeded = [RunBegin; L; Store; RunEnd; U] /\
  session_events New EcdsaKeygen NeverSilent = [] /\
  session_events New FrostResharing Refused = [L; Get; U] /\
  session_events New EcdsaSigning RanFailed = [L; Get; U; RunBegin; RunEnd] /\
  all_feasible [(FrostKeygen, NeverTimeout); (EcdsaSigning, ParamsRejected)] = true /\
  session_events New FrostSigning ConstructorFails = [L; Get; U] /\
  all_feasible_in [(Missing, (FrostSigning, ConstructorFails)); (Missing, (FrostKeygen, NeverTimeout));
                   (Corrupt, (EcdsaResharing, Refused)); (Readable, (EcdsaSigning, RanFailed))] = true /\
  feasible_in Missing EcdsaSigning RanFailed = false /\ feasible EcdsaResharing ConstructorFails = false /\
  feasible FrostSigning Rerun = true /\ feasible FrostKeygen Rerun = false.
Proof. vm_compute. repeat split. Qed.

(* Non-vacuity of the contention theorems: a FROST resharing holds the lock while a FROST signing
   constructor and a FROST keygen constructor ask for it; the waiting threads stay
   blocked (their steps leave no entry) until the holder's Stop, all threads finish, the ledger is
   accepted; and a ledger in which the waiting thread reads the share without the lock is rejected. *)
Example C10_contention_nonvacuous :
  let ss := [(FrostResharing, NeverCancelled); (FrostSigning, RanFailed); (FrostKeygen, NeverTimeout)] in
  let st0 := cinit (fun t => sessions_events New (plan_of ss t)) in
  let sched := [0; 1; 2; 1; 0; 2; 0; 2; 1; 1; 2; 1; 1; 1; 1; 1] in
  all_feasible ss = true /\
  ctrace sched st0 = [(0, L); (0, Get); (0, U); (2, L); (2, U); (1, L); (1, Get); (1, U); (1, RunBegin); (1, RunEnd)] /\
  rest (cexec sched st0) 0 = [] /\ rest (cexec sched st0) 1 = [] /\ rest (cexec sched st0) 2 = [] /\
  contention_ok ss (ctrace sched st0) = true /\
  contention_ok ss [(0, L); (0, Get); (1, Get); (0, U); (1, RunBegin); (1, RunEnd); (2, L); (2, U)] = false /\
  merged_ok [(0, L); (0, U); (1, RunBegin); (1, RunEnd); (1, L)] = false.
Proof. vm_compute. repeat split. Qed.

(* Non-vacuity of the stress theorems: two workers x two pairs under a schedule that lets both
   finish (worker 1 asks for the lock while worker 0 holds it and stays blocked); and a ledger in
   which two workers are inside their sections at once loses an increment and is rejected. *)
Example C10_stress_nonvacuous :
  let st0 := cinit (stress_prog 2 2) in
  let sched := [0; 1; 0; 1; 0; 0; 1; 1; 1; 0; 1; 0; 0; 0; 0; 1; 1; 1; 1; 1] in
  rest (cexec sched st0) 0 = [] /\ rest (cexec sched st0) 1 = [] /\
  counter_run 0 (fun _ => 0) (ctrace sched st0) = 4 /\
  merged_ok (ctrace sched st0) = true /\
  counter_run 0 (fun _ => 0) [(0, L); (0, Get); (1, L); (1, Get); (0, Store); (0, U); (1, Store); (1, U)] = 1 /\
  tguard None [(0, L); (0, Get); (1, L); (1, Get); (0, Store); (0, U); (1, Store); (1, U)] = false /\
  stress_ok 2 2 [2; 2]%N 4 1 = true /\ stress_ok 2 2 [2; 2]%N 3 1 = false /\ stress_ok 2 2 [2; 1]%N 3 3 = false /\
  session_events New FrostKeygen CancelledBeforeEntry = [L; U] /\
  session_events New EcdsaKeygen CancelledBeforeEntry = [].
Proof. vm_compute. repeat split. Qed.

(* ------------------------------------------------------------------------------------------ *)
(* Sessions with a BATCH of processes (Execute is handed a list: one signing process per transaction
   input; a key refresh that reshares the ECDSA and the FROST key in one session), each process on its
   own store.  For ANY number of processes of ANY kinds and every outcome that is feasible for all of
   them: Execute's cleanup (and its refusal of a duplicate) stops every process of the list exactly once,
   so every process's ledger is the ledger of a lone session of its kind - covered by every theorem
   above - and the judge of the batch cases accepts the model. *)
Theorem C10_batch_ok_model : forall ks o, batch_feasible ks o = true ->
  batch_ledgers PerIteration ks o = map (fun k => session_events New k o) ks /\
  batch_ledgers_ok ks (batch_ledgers PerIteration ks o) = true.
Proof. exact (fun ks o H => conj (batch_ledgers_per_iteration ks o) (batch_ok_model ks o H)). Qed.
Print Assumptions C10_batch_ok_model.

(* what the judge of the batch cases means: one ledger per process, each one free at the end, without a
   fatal unlock, balanced and guarded (C10_session_ok_sound) *)
Theorem C10_batch_ok_sound : forall ks ls, batch_ledgers_ok ks ls = true ->
  length ls = length ks /\
  forall i, i < length ks ->
    mrun false (nth i ls []) = MOk false /\ count is_L (nth i ls []) = count is_U (nth i ls []) /\
    guarded (nth i ks EcdsaSigning) false false (nth i ls []) = true.
Proof.
  exact (fun ks ls H => conj (proj1 (batch_ok_sound ks ls H))
           (fun i Hi => session_ok_sound _ _ (proj2 (batch_ok_sound ks ls H) i Hi))).
Qed.
Print Assumptions C10_batch_ok_sound.

(* A cleanup that defers one closure per process capturing the range variable (go 1.21: one variable
   for the whole loop) stops the LAST process once per process and the others never - refuted for every
   batch of two or more: a constructor-locking process (FROST keygen, ECDSA / FROST resharing) that is
   not the last one keeps its lock; a constructor-locking last process unlocks an unlocked mutex. *)
Theorem C10_batch_shared_stop_refuted : forall ks o, batch_feasible ks o = true ->
  (forall i, i < length ks - 1 -> constructor_locks (nth i ks EcdsaSigning) = true ->
     batch_ledgers_ok ks (batch_ledgers SharedVariable ks o) = false) /\
  (2 <= length ks -> constructor_locks (nth (length ks - 1) ks EcdsaSigning) = true ->
     batch_ledgers_ok ks (batch_ledgers SharedVariable ks o) = false /\
     mrun false (nth (length ks - 1) (batch_ledgers SharedVariable ks o) []) = MFatal).
Proof.
  exact (fun ks o H => conj (fun i Hi Hc => shared_stop_leaks ks o i H Hi Hc)
                            (fun Hn Hc => shared_stop_fatal ks o H Hn Hc)).
Qed.
Print Assumptions C10_batch_shared_stop_refuted.

(* Non-vacuity: an ECDSA and a FROST resharing in one session whose coordinator stays silent. *)
Example C10_batch_nonvacuous :
  batch_feasible [EcdsaResharing; FrostResharing] NeverSilent = true /\
  batch_ledgers PerIteration [EcdsaResharing; FrostResharing] NeverSilent = [[L; Get; U]; [L; Get; U]] /\
  batch_ledgers SharedVariable [EcdsaResharing; FrostResharing] NeverSilent = [[L; Get]; [L; Get; U; U]] /\
  batch_ledgers_ok [EcdsaResharing; FrostResharing] [[L; Get]; [L; Get; U; U]] = false /\
  batch_ledgers SharedVariable [FrostKeygen; FrostSigning; EcdsaSigning] Refused = [[L]; [L; Get; U]; [L; Get; U]] /\
  batch_ledgers PerIteration [FrostSigning; FrostSigning] Rerun =
    [[L; Get; U; RunBegin; RunEnd; RunBegin; RunEnd]; [L; Get; U; RunBegin; RunEnd; RunBegin; RunEnd]] /\
  batch_ledgers_ok [EcdsaKeygen; FrostKeygen] [[]; [L; U]] = true /\
  batch_ledgers_ok [EcdsaKeygen; FrostKeygen] [[]] = false.
Proof. vm_compute. repeat split. Qed.
