(* C05 - Every finalized source block is scanned despite faults and restarts.
   Only the property theorems (each closed by [exact]) and Print Assumptions.

   Vocabulary (Model/C05.v): [run w c stored0 evs] is the complete observable history of a relayer
   whose app.Run wiring is [w], configuration [c], initial block-store contents [stored0], under the
   environment script [evs] (RPC failures, heads, handler results, store results and crashes in any
   order and number); [full n tr b] = block b was handed to every one of the n handlers and each
   returned nil, within the trace tr; [cur_life tr] = the part of tr that belongs to the lifetime
   in progress; [trace_ok] = the specification predicate used as judge on the implementation. *)
From Coq Require Import List ZArith NArith Bool.
Import ListNotations.
From SygmaV Require Import Model.C05 Proofs.C05 Proofs.C05_Start Gen.C05_Wiring.
Local Open Scope Z_scope.

(* For every wiring that reads the stored cursor and passes it on, every configuration
   (interval >= 1, any confirmation depth, any start, stored cursor absent/behind/ahead) and EVERY
   event list, the model's history satisfies the specification. *)
Theorem C05_model_trace_ok : forall w c stored0 evs,
  wiring_ok w = true -> wf_cfg c = true -> latest c = false ->
  trace_ok c stored0 (run w c stored0 evs) = true.
Proof. exact model_trace_ok. Qed.
Print Assumptions C05_model_trace_ok.

(* With the `latest` flag every (re)start is at the head by the operator's choice and the
   specification speaks about each lifetime separately; then it holds for every wiring. *)
Theorem C05_model_trace_ok_all : forall w c stored0 evs,
  wf_cfg c = true -> (wiring_ok w = true \/ latest c = true) ->
  trace_ok c stored0 (run w c stored0 evs) = true.
Proof. exact model_trace_ok_all. Qed.
Print Assumptions C05_model_trace_ok_all.

(* No gap, across any number of crashes/restarts: whenever any handler is given a range starting
   at s, every block from the starting point (configured start or persisted cursor) up to s has
   already been handed successfully to every handler. *)
Theorem C05_no_gap_across_restarts : forall w c stored0 sp evs pre k s e ok post,
  wiring_ok w = true -> wf_cfg c = true -> latest c = false ->
  start_point c stored0 = Some sp ->
  run w c stored0 evs = pre ++ OHandle k s e ok :: post ->
  forall b, sp <= b < s -> full (nh c) pre b.
Proof. exact no_gap_across_restarts. Qed.
Print Assumptions C05_no_gap_across_restarts.

(* The persisted cursor is never ahead of the fully handled prefix. *)
Theorem C05_persisted_cursor_behind : forall w c stored0 sp evs pre v ok post,
  wiring_ok w = true -> wf_cfg c = true -> latest c = false ->
  start_point c stored0 = Some sp ->
  run w c stored0 evs = pre ++ OStore v ok :: post ->
  forall b, sp <= b < v -> full (nh c) pre b.
Proof. exact persisted_cursor_behind. Qed.
Print Assumptions C05_persisted_cursor_behind.

(* Within a lifetime the ranges are handled contiguously: below the range now looked at, every
   block at or above an already visited range start is fully handled in this lifetime. *)
Theorem C05_handled_contiguous : forall w c stored0 evs pre k s e ok post,
  wf_cfg c = true -> (wiring_ok w = true \/ latest c = true) ->
  run w c stored0 evs = pre ++ OHandle k s e ok :: post ->
  forall b, b < s -> visited (cur_life pre) b -> full (nh c) (cur_life pre) b.
Proof. exact handled_contiguous. Qed.
Print Assumptions C05_handled_contiguous.

(* The cursor (in memory and persisted) never passes a range on which a handler failed until every
   handler has succeeded on it. *)
Theorem C05_cursor_never_passes_failure : forall w c stored0 evs pre x post k0 s0 e0,
  wf_cfg c = true -> (wiring_ok w = true \/ latest c = true) ->
  run w c stored0 evs = pre ++ x :: post ->
  In (OHandle k0 s0 e0 false) (cur_life pre) ->
  (forall k s e ok, x = OHandle k s e ok -> s0 < s -> full (nh c) (cur_life pre) s0)
  /\ (forall v ok, x = OStore v ok -> s0 < v -> full (nh c) (cur_life pre) s0).
Proof. exact cursor_never_passes_failure. Qed.
Print Assumptions C05_cursor_never_passes_failure.

(* The judge implies the Prop-level property for ANY observed trace (the implementation's). *)
Theorem C05_trace_ok_no_gap : forall c stored0 sp pre k s e ok post,
  latest c = false -> start_point c stored0 = Some sp ->
  trace_ok c stored0 (pre ++ OHandle k s e ok :: post) = true ->
  forall b, sp <= b < s -> full (nh c) pre b.
Proof. exact trace_ok_no_gap. Qed.
Print Assumptions C05_trace_ok_no_gap.

Theorem C05_trace_ok_store_behind : forall c stored0 sp pre v ok post,
  latest c = false -> start_point c stored0 = Some sp ->
  trace_ok c stored0 (pre ++ OStore v ok :: post) = true ->
  forall b, sp <= b < v -> full (nh c) pre b.
Proof. exact trace_ok_store_behind. Qed.
Print Assumptions C05_trace_ok_store_behind.

Theorem C05_trace_ok_cursor_handle : forall c stored0 pre k s e ok post,
  trace_ok c stored0 (pre ++ OHandle k s e ok :: post) = true ->
  forall b, b < s -> visited (cur_life pre) b -> full (nh c) (cur_life pre) b.
Proof. exact trace_ok_cursor_handle. Qed.
Print Assumptions C05_trace_ok_cursor_handle.

Theorem C05_trace_ok_cursor_store : forall c stored0 pre v ok post,
  trace_ok c stored0 (pre ++ OStore v ok :: post) = true ->
  forall b, b < v -> visited (cur_life pre) b -> full (nh c) (cur_life pre) b.
Proof. exact trace_ok_cursor_store. Qed.
Print Assumptions C05_trace_ok_cursor_store.

(* Event handlers: a failed fetch is reported as an error (so the loop keeps the range). *)
Theorem C05_propagate_model : forall fetch_ok,
  propagate_ok fetch_ok (handler_returns_err fetch_ok) = true.
Proof. exact propagate_model. Qed.
Print Assumptions C05_propagate_model.

(* One HandleEvents(s, e) call over a node that records what it is asked (Model/C05.v, reads_ok =
   the judge of those cases): the handlers as modelled - one read of exactly the range they were
   given, an error iff some read of the call failed - satisfy it for every range and every fault ... *)
Theorem C05_reads_model : forall s e fired,
  reads_ok s e fired (handler_asks s e) (handler_returns_err (negb fired)) = true.
Proof. exact reads_model. Qed.
Print Assumptions C05_reads_model.

(* ... and it says, of ANY observed call: a read the node could not serve - whichever of the call's
   reads it was - is reported as an error, and a call that reports the range as handled has asked
   the node for every block of the range (so `OHandle k s e true` in the traces above really stands
   for blocks that were read: reversed, empty or shortened bounds do not count). *)
Theorem C05_reads_ok_sound : forall s e fired asked err,
  reads_ok s e fired asked err = true ->
  (fired = true -> err = true) /\
  (err = false -> forall b, s <= b <= e -> exists a c, In (a, c) asked /\ a <= b <= c).
Proof. exact reads_ok_sound. Qed.
Print Assumptions C05_reads_ok_sound.

(* Non-vacuity: the judge accepts an honest call, rejects swapped bounds reported as success and a
   failed read reported as success. *)
Example C05_reads_nonvacuous :
  reads_ok 10 14 false [(10, 14)] false = true /\ reads_ok 10 14 true [(10, 14)] true = true /\
  reads_ok 10 14 false [(14, 10)] false = false /\ reads_ok 10 14 true [(10, 14)] false = false /\
  reads_ok 10 14 false [(10, 12); (13, 14)] false = true /\ reads_ok 10 14 false [(10, 13)] false = false.
Proof. vm_compute. repeat split. Qed.

(* The wiring Bitcoin had before the repair (NewBtcChain without a start block: the listener gets
   nil and starts at the head) violates the specification: stored cursor 50, head 100. *)
Theorem C05_old_btc_wiring_refuted :
  exists c stored0 evs, wf_cfg c = true /\ latest c = false /\
    trace_ok c stored0 (run old_btc_wiring c stored0 evs) = false.
Proof. exact old_btc_wiring_refuted. Qed.
Print Assumptions C05_old_btc_wiring_refuted.

(* Non-vacuity: a concrete history with a handler failure, a store failure, an RPC failure and a
   crash satisfies all hypotheses, and shows the restart re-scanning from the persisted cursor. *)
Example C05_nonvacuous :
  let c := {| kd := Evm; ival := 5; conf := 2; nh := 2; cstart := 7; latest := false; fresh := false |} in
  let evs := [Head 30; Handler true; Handler false; RpcFail; Head 30; Handler true; Handler true;
              Store false; Head 30; Handler true; Crash; Head 30; Handler true; Handler true; Store true] in
  wiring_ok wiring_evm = true /\ wf_cfg c = true /\ start_point c None = Some 7 /\
  run wiring_evm c None evs =
    [OStart (Some 5); OHandle 0 5 9 true; OHandle 1 5 9 false; OHandle 0 5 9 true; OHandle 1 5 9 true;
     OStore 10 false; OHandle 0 10 14 true; OStart (Some 5); OHandle 0 5 9 true; OHandle 1 5 9 true;
     OStore 10 true] /\
  trace_ok c None (run wiring_evm c None evs) = true.
Proof. vm_compute. repeat split. Qed.

(* The wiring extracted from app/app.go (Gen/C05_Wiring.v, regenerated on every check) satisfies
   the hypothesis of the theorems above, for each chain kind - by computation, so a change of the
   wiring in app.go breaks THESE. *)
Theorem C05_evm_wiring_ok : wiring_ok wiring_evm = true.
Proof. vm_compute. reflexivity. Qed.
Print Assumptions C05_evm_wiring_ok.

Theorem C05_substrate_wiring_ok : wiring_ok wiring_substrate = true.
Proof. vm_compute. reflexivity. Qed.
Print Assumptions C05_substrate_wiring_ok.

Theorem C05_btc_wiring_ok : wiring_ok wiring_btc = true.
Proof. vm_compute. reflexivity. Qed.
Print Assumptions C05_btc_wiring_ok.

(* ---- the arguments of blockstore.GetStartBlock(domainID, startBlock, latest, fresh) -------------
   app.Run gives each parameter an expression over the chain's configuration ([start_call]; the
   three calls of app.go are GENERATED into Gen/C05_Wiring.v start_evm / start_substrate / start_btc,
   through helper functions and local names if need be), so GetStartBlock sees [sc_cfg sc c], and
   the history of the relayer as wired is [run w (sc_cfg sc c) stored0 evs] - that is what the
   correspondence run compares the real stack with (the runner computes the flags by the extracted
   expressions and hands them to the real GetStartBlock), judged by [trace_ok c]: the specification
   speaks about the configuration the operator wrote. *)

(* A call that tells GetStartBlock the truth - the configured start block, each flag an expression
   that equals that flag under all four settings - changes nothing ... *)
Theorem C05_start_call_canonical : forall sc c, start_call_ok sc = true -> sc_cfg sc c = c.
Proof. exact start_call_canonical. Qed.
Print Assumptions C05_start_call_canonical.

(* ... so the relayer as wired satisfies the specification, for every such call, every wiring that
   reads the stored cursor and passes it on, every configuration and every event list. *)
Theorem C05_wired_trace_ok : forall w sc c stored0 evs,
  wiring_ok w = true -> start_call_ok sc = true -> wf_cfg c = true -> latest c = false ->
  trace_ok c stored0 (run w (sc_cfg sc c) stored0 evs) = true.
Proof. exact wired_trace_ok. Qed.
Print Assumptions C05_wired_trace_ok.

Theorem C05_wired_trace_ok_all : forall w sc c stored0 evs,
  start_call_ok sc = true -> wf_cfg c = true -> (wiring_ok w = true \/ latest c = true) ->
  trace_ok c stored0 (run w (sc_cfg sc c) stored0 evs) = true.
Proof. exact wired_trace_ok_all. Qed.
Print Assumptions C05_wired_trace_ok_all.

(* The two flags exchanged - GetStartBlock(id, config.StartBlock, fresh, latest) - under an otherwise
   sound wiring: a domain started with fresh = true is taken for `latest`, the listener starts at the
   head (120) and the blocks from the configured start block (100) on are never handled. *)
Theorem C05_swapped_start_flags_refuted :
  exists c stored0 evs, wiring_ok good_btc_wiring = true /\ wf_cfg c = true /\ latest c = false /\
    trace_ok c stored0 (run good_btc_wiring (sc_cfg swapped_start c) stored0 evs) = false.
Proof. exact swapped_start_refuted. Qed.
Print Assumptions C05_swapped_start_flags_refuted.

(* Non-vacuity: the call app.go has always made satisfies the hypothesis; exchanged flags, a constant
   flag, a literal start block do not. *)
Example C05_start_call_nonvacuous :
  start_call_ok canonical_start = true /\ start_call_ok swapped_start = false /\
  start_call_ok {| sc_block := BConfigured; sc_latest := FConst false; sc_fresh := FFresh |} = false /\
  start_call_ok {| sc_block := BLit 0; sc_latest := FLatest; sc_fresh := FFresh |} = false /\
  start_call_ok {| sc_block := BConfigured; sc_latest := FAnd FLatest (FConst true); sc_fresh := FNot (FNot FFresh) |} = true.
Proof. vm_compute. repeat split. Qed.

(* The calls extracted from app/app.go (Gen/C05_Wiring.v, regenerated on every check) satisfy the
   hypothesis, for each chain kind - by computation, so a change of the arguments in app.go (or in a
   helper the call goes through) breaks THESE. *)
Theorem C05_evm_start_call_ok : start_call_ok start_evm = true.
Proof. vm_compute. reflexivity. Qed.
Print Assumptions C05_evm_start_call_ok.

Theorem C05_substrate_start_call_ok : start_call_ok start_substrate = true.
Proof. vm_compute. reflexivity. Qed.
Print Assumptions C05_substrate_start_call_ok.

Theorem C05_btc_start_call_ok : start_call_ok start_btc = true.
Proof. vm_compute. reflexivity. Qed.
Print Assumptions C05_btc_start_call_ok.
