(* C14 - EVM batches partition the pending proposals and carry their own gas; every signed batch has
   its own session id <message id>-<position>.
   Only the property theorems (each closed by [exact]) and Print Assumptions.  [batches], [sessions]
   model the repaired code (branch fix-C14); the C14_old_* theorems are about the code as it was. *)
From Coq Require Import List NArith Bool String.
From SygmaV Require Import Lib.C14_Dec Model.C14 Proofs.C14.
Import ListNotations.
Local Open Scope N_scope.

(* Each pending proposal is in exactly one batch, in the original order: the batches, concatenated,
   ARE the not-yet-executed proposals.  All proposal lists, caps, gas values, executed masks; no
   hypothesis (holds with uint64 wrap-around as well). *)
Theorem C14_batches_partition : forall cap tg ps,
  List.concat (map members (batches cap tg ps)) = pending ps.
Proof. exact batches_partition. Qed.
Print Assumptions C14_batches_partition.

(* Only the first batch of the list can be empty ... *)
Theorem C14_only_first_may_be_empty : forall cap tg ps,
  Forall (fun b => members b <> []) (tl (batches cap tg ps)).
Proof. exact batches_tl_nonempty. Qed.
Print Assumptions C14_only_first_may_be_empty.

(* ... and Execute signs exactly the non-empty ones: nothing signed is empty, positions are the
   positions in the batch list, and skipping loses no proposal. *)
Theorem C14_signed_nonempty : forall mid bs ms s,
  In (ms, s) (sessions mid bs) ->
  exists i b, nth_error bs (N.to_nat i) = Some b /\ members b = ms /\ ms <> [] /\ s = sid mid i.
Proof. exact session_id_is_position. Qed.
Print Assumptions C14_signed_nonempty.

Theorem C14_every_nonempty_batch_signed : forall mid bs n b,
  nth_error bs n = Some b -> members b <> [] -> In (members b, sid mid (N.of_nat n)) (sessions mid bs).
Proof. exact every_nonempty_batch_signed. Qed.
Print Assumptions C14_every_nonempty_batch_signed.

Theorem C14_signed_members : forall bs,
  List.concat (map (fun ib => members (snd ib)) (signed bs)) = List.concat (map members bs).
Proof. exact signed_members. Qed.
Print Assumptions C14_signed_members.

(* Each batch's gas limit is the sum of its own members' allowances (transfer gas + per-proposal
   limit), provided the allowances of the pending proposals add up below 2^64. *)
Theorem C14_batch_gas_is_own_sum : forall cap tg ps b,
  no_overflow tg ps = true -> In b (batches cap tg ps) -> gas b = sumallow tg (members b).
Proof. exact batch_gas_is_own_sum. Qed.
Print Assumptions C14_batch_gas_is_own_sum.

(* A batch exceeds the cap only when it is a single proposal that alone exceeds it; already at the
   cap a batch has at most one member. *)
Theorem C14_over_cap_only_singleton : forall cap tg ps b,
  no_overflow tg ps = true -> In b (batches cap tg ps) -> cap < gas b ->
  exists p, members b = [p] /\ cap < allowance tg p.
Proof. exact over_cap_only_singleton. Qed.
Print Assumptions C14_over_cap_only_singleton.

Theorem C14_at_cap_at_most_one : forall cap tg ps b,
  no_overflow tg ps = true -> In b (batches cap tg ps) -> cap <= gas b ->
  (List.length (members b) <= 1)%nat.
Proof. exact at_cap_at_most_one. Qed.
Print Assumptions C14_at_cap_at_most_one.

(* The batch gas limit is what the contract call carries (executeBatch forwards it unchanged). *)
Theorem C14_tx_gas_is_batch_gas : forall b, tx_of b = (members b, gas b).
Proof. exact (fun b => eq_refl). Qed.
Print Assumptions C14_tx_gas_is_batch_gas.

(* Session ids: <mid>-<decimal position> is injective in the position, so the ids of one delivery
   are pairwise distinct. *)
Theorem C14_sid_inj : forall mid i j, sid mid i = sid mid j -> i = j.
Proof. exact sid_inj. Qed.
Print Assumptions C14_sid_inj.

Theorem C14_session_ids_distinct : forall mid bs, NoDup (map snd (sessions mid bs)).
Proof. exact session_ids_distinct. Qed.
Print Assumptions C14_session_ids_distinct.

(* The judge applied to the implementation (Run/C14.v) accepts the model on every input ... *)
Theorem C14_judge_accepts_model : forall cap tg ps,
  spec_ok cap tg ps (map obs_of (batches cap tg ps)) = true.
Proof. exact spec_ok_model. Qed.
Print Assumptions C14_judge_accepts_model.

Theorem C14_session_judge_accepts_model : forall mid bs,
  sess_ok mid (map obs_of bs) (obs_sessions (sessions mid bs)) = true.
Proof. exact sess_ok_model. Qed.
Print Assumptions C14_session_judge_accepts_model.

(* ... and whatever it accepts is a partition of the pending proposals into consecutive batches, each
   (absent overflow) with its own gas and above the cap only alone; the accepted sessions are exactly
   the non-empty batches, each under the single id <mid>-<position>, all distinct. *)
Theorem C14_judge_sound : forall cap tg ps obs,
  spec_ok cap tg ps obs = true ->
  exists bs, obs = map obs_of bs /\ List.concat (map members bs) = pending ps /\
             (no_overflow tg ps = true -> Forall (okspec cap tg) bs).
Proof. exact spec_ok_sound. Qed.
Print Assumptions C14_judge_sound.

Theorem C14_session_judge_sound : forall mid obs sess,
  sess_ok mid obs sess = true ->
  sess = sess_spec mid obs /\ NoDup (List.concat (map snd sess)) /\
  forall ms sids, In (ms, sids) sess ->
    ms <> [] /\ exists i g, nth_error obs (N.to_nat i) = Some (ms, g) /\ sids = [sid mid i].
Proof. exact sess_ok_sound_full. Qed.
Print Assumptions C14_session_judge_sound.

(* ---- executed-status lookups that fail ----
   [fl]: per position how often the IsProposalExecuted query of that proposal fails (0 = never).
   The code returns the error of the first failing lookup: one failing lookup (of a pending OR an
   executed proposal) and there are no batches at all, nothing is hashed or signed ... *)
Theorem C14_lookup_err_iff : forall ps fl,
  lookup_err ps fl = true <->
  exists i p k, nth_error ps i = Some p /\ nth_error fl i = Some k /\ 0 < k.
Proof. exact lookup_err_iff. Qed.
Print Assumptions C14_lookup_err_iff.

Theorem C14_lookup_error_no_batches : forall cap tg ps fl,
  lookup_err ps fl = true -> batches_r cap tg ps fl = None /\ hashed_model cap tg ps fl = [].
Proof. exact lookup_error_nothing. Qed.
Print Assumptions C14_lookup_error_no_batches.

(* ... and without a failing lookup the batches are the ones of the theorems above; so whatever the
   step returns is a partition of ALL pending proposals: none is left out silently. *)
Theorem C14_no_lookup_error_batches : forall cap tg ps fl,
  lookup_err ps fl = false -> batches_r cap tg ps fl = Some (batches cap tg ps).
Proof. exact no_lookup_error_batches. Qed.
Print Assumptions C14_no_lookup_error_batches.

Theorem C14_returned_batches_partition : forall cap tg ps fl bs,
  batches_r cap tg ps fl = Some bs -> List.concat (map members bs) = pending ps.
Proof. exact batches_r_partition. Qed.
Print Assumptions C14_returned_batches_partition.

(* the judges used on the implementation for these cases: accept the model, and accept only "failure
   reported, nothing produced" (when a lookup did fail) or a partition of all pending proposals *)
Theorem C14_lookup_judge_accepts_model : forall cap tg ps fl,
  spec_ok_r cap tg ps fl (option_map (map obs_of) (batches_r cap tg ps fl)) = true.
Proof. exact spec_ok_r_model. Qed.
Print Assumptions C14_lookup_judge_accepts_model.

Theorem C14_lookup_judge_sound : forall cap tg ps fl r,
  spec_ok_r cap tg ps fl r = true ->
  (r = None /\ lookup_err ps fl = true) \/
  exists obs bs, r = Some obs /\ obs = map obs_of bs /\ List.concat (map members bs) = pending ps /\
                 (no_overflow tg ps = true -> Forall (okspec cap tg) bs).
Proof. exact spec_ok_r_sound. Qed.
Print Assumptions C14_lookup_judge_sound.

Theorem C14_hashed_judge_accepts_model : forall cap tg ps fl err,
  (lookup_err ps fl = true -> err = true) ->
  hashed_ok_r ps fl err (hashed_model cap tg ps fl) = true.
Proof. exact hashed_ok_r_model. Qed.
Print Assumptions C14_hashed_judge_accepts_model.

Theorem C14_hashed_judge_sound : forall ps fl err hs,
  hashed_ok_r ps fl err hs = true ->
  (hs = [] /\ ((err = true /\ lookup_err ps fl = true) \/ pending ps = [])) \/
  (Forall (fun m => m <> []) hs /\
   exists segs, hs = map (map pid) segs /\ List.concat segs = pending ps).
Proof. exact hashed_ok_r_sound. Qed.
Print Assumptions C14_hashed_judge_sound.

(* ---- several deliveries on ONE long-lived Executor (round 5): for ALL histories of deliveries - any
   order of deposit nonces inside a delivery (C14_batches_partition above has no sortedness hypothesis: the
   batches keep the DELIVERY's order), any source domains, any chain answers per delivery, any failing
   lookups - every delivery gets the batches it would get alone ... *)
Theorem C14_history_independent : forall cap tg pre d post,
  nth_error (run_history cap tg (pre ++ d :: post)) (List.length pre) = Some (batches_r cap tg (fst d) (snd d)).
Proof. exact run_history_independent. Qed.
Print Assumptions C14_history_independent.

(* ... so whatever was delivered or found executed before, the batches returned for a delivery partition
   ITS pending proposals in ITS order *)
Theorem C14_history_partition : forall cap tg ds i d bs,
  nth_error ds i = Some d -> nth_error (run_history cap tg ds) i = Some (Some bs) ->
  List.concat (map members bs) = pending (fst d).
Proof. exact run_history_partition. Qed.
Print Assumptions C14_history_partition.

(* the judge of a history judges every delivery on its own with the judge of a single delivery
   (C14_lookup_judge_sound says what that accepts); it accepts the model on every history *)
Theorem C14_history_judge_accepts_model : forall cap tg ds,
  history_ok cap tg ds (map (option_map (map obs_of)) (run_history cap tg ds)) = true.
Proof. exact history_ok_model. Qed.
Print Assumptions C14_history_judge_accepts_model.

Theorem C14_history_judge_sound : forall cap tg ds rs,
  history_ok cap tg ds rs = true ->
  List.length rs = List.length ds /\
  forall i d r, nth_error ds i = Some d -> nth_error rs i = Some r -> spec_ok_r cap tg (fst d) (snd d) r = true.
Proof. exact history_ok_nth. Qed.
Print Assumptions C14_history_judge_sound.

(* proposals are identified by (source domain, deposit nonce), printed as one number: injective *)
Theorem C14_pk_inj : forall s n s' n', n < two64 -> n' < two64 -> pk s n = pk s' n' -> s = s' /\ n = n'.
Proof. exact pk_inj. Qed.
Print Assumptions C14_pk_inj.

(* Non-vacuity: source 1 / nonce 23 found executed in the first delivery; the second delivery - not in
   ascending nonce order - holds source 12 / nonce 3 pending: batched, in the delivery's order; the judge
   rejects leaving it out and rejects batches in nonce order. *)
Example C14_history_nonvacuous :
  map (option_map (map obs_of)) (run_history 1000 100 w_hist)
    = [Some [([pk 1 24], 100)]; Some [([pk 12 4; pk 12 3], 240)]] /\
  history_ok 1000 100 w_hist [Some [([pk 1 24], 100)]; Some [([pk 12 4], 100)]] = false /\
  history_ok 1000 100 w_hist [Some [([pk 1 24], 100)]; Some [([pk 12 3; pk 12 4], 240)]] = false /\
  pk 1 23 <> pk 12 3.
Proof. vm_compute. repeat split; discriminate. Qed.

(* ---- the code as it was (before fix-C14) ---- *)

(* gas mis-attributed at roll-over: without any overflow a non-empty batch is submitted with gas
   limit 0 (three plain proposals, transfer gas 100, cap 250), and the judge rejects it *)
Theorem C14_old_batch_gas_refuted :
  exists cap tg ps, no_overflow tg ps = true /\
    (exists b, In b (old_batches cap tg ps) /\ members b <> [] /\ gas b = 0) /\
    spec_ok cap tg ps (map obs_of (old_batches cap tg ps)) = false.
Proof. exact old_batch_gas_refuted. Qed.
Print Assumptions C14_old_batch_gas_refuted.

(* one shared loop variable: both batches of that delivery are signed under "m-1" *)
Theorem C14_old_sessions_refuted :
  exists mid cap tg ps,
    map snd (old_sessions mid (old_batches cap tg ps)) = ["m-1"; "m-1"]%string /\
    sess_ok mid (map obs_of (old_batches cap tg ps))
            (obs_sessions (old_sessions mid (old_batches cap tg ps))) = false.
Proof. exact old_sessions_refuted. Qed.
Print Assumptions C14_old_sessions_refuted.

(* outside the no-overflow hypothesis the gas statement fails also for the repaired code *)
Theorem C14_overflow_refuted :
  exists cap tg ps, no_overflow tg ps = false /\
    exists b, In b (batches cap tg ps) /\ gas b <> sumallow tg (members b).
Proof. exact overflow_refuted. Qed.
Print Assumptions C14_overflow_refuted.

(* Non-vacuity: the hypothesis is satisfiable, and a concrete delivery with roll-over. *)
Example C14_nonvacuous :
  no_overflow 100 w_ps3 = true /\
  map obs_of (batches 250 100 w_ps3) = [([0; 1], 200); ([2], 100)] /\
  map snd (sessions "m" (batches 250 100 w_ps3)) = ["m-0"; "m-1"]%string /\
  map obs_of (batches 90 100 w_ps3) = [([], 0); ([0], 100); ([1], 100); ([2], 100)] /\
  (* a failing lookup at position 1: no batches; the judge rejects "skip it and batch the rest" *)
  lookup_err w_ps3 [0; 1; 0] = true /\ batches_r 250 100 w_ps3 [0; 1; 0] = None /\
  lookup_err w_ps3 [0; 0; 0] = false /\
  spec_ok_r 250 100 w_ps3 [0; 1; 0] (Some [([0; 2], 200)]) = false /\
  hashed_ok_r w_ps3 [0; 1; 0] true [[0; 2]] = false.
Proof. vm_compute. repeat split. Qed.
