(* C12 - Messages reach exactly the current subscribers of their session and type.
   This file contains only the property theorems (each closed by [exact]) and Print Assumptions. *)
From Coq Require Import List NArith Bool String Ascii.
Import ListNotations.
From SygmaV Require Import Model.C12 Proofs.C12 Proofs.C12_Conc Proofs.C12_Other.
Local Open Scope string_scope.
Local Open Scope N_scope.
Local Open Scope list_scope.

(* A subscription id is parsed back into its three components for EVERY session string - hyphens,
   empty, anything - and every declared message type (0..13) and unique component. *)
Theorem C12_unwrap_sub_id : forall s t u,
  t <= unknown_type -> unwrap (sub_id s t u) = Some (s, t, dec u).
Proof. exact unwrap_sub_id. Qed.
Print Assumptions C12_unwrap_sub_id.

(* The code as it was (strings.Split on every '-'): refuted, and in fact it failed for every session
   id that contains the separator. *)
Theorem C12_old_unwrap_refuted : exists s t u,
  t <= unknown_type /\ old_unwrap (sub_id s t u) = None.
Proof. exists "1-2", 0, 7. split; [discriminate | reflexivity]. Qed.
Print Assumptions C12_old_unwrap_refuted.

Theorem C12_old_unwrap_hyphen : forall s t u,
  no_hy s = false -> old_unwrap (sub_id s t u) = None.
Proof. exact old_unwrap_hyphen. Qed.
Print Assumptions C12_old_unwrap_hyphen.

(* ... with the consequence for the table driven by the old Unwrap: two subscribers of one hyphenated
   session collide (the first is displaced) and a cancelled subscription stays in the table. *)
Theorem C12_old_table_refuted : exists ops s t,
  wf_ops ops = true /\
  subscribers s t (fst (run_c old_unwrap c_init ops)) <> spec_subscribers s t (fst (run_a a_init ops)).
Proof.
  exists [Sub "1-2" 0 5 100; Sub "1-2" 0 6 101; Unsub 1], "1-2", 0.
  split; [reflexivity | vm_compute; discriminate].
Qed.
Print Assumptions C12_old_table_refuted.

(* Refinement, for every operation list over any sessions (hypotheses as the boolean wf_ops: declared
   message types, Subscribe never returns an id twice): forgetting identifiers, the table IS the list
   of live subscriptions of the specification ... *)
Theorem C12_refinement : forall ops,
  wf_ops ops = true ->
  abs_c (fst (run_c unwrap c_init ops)) = abs_a (fst (run_a a_init ops)).
Proof. exact refinement. Qed.
Print Assumptions C12_refinement.

(* ... and GetSubscribers / the fan-out of a delivery returns exactly the channels of the live
   subscriptions of that (session, type). *)
Theorem C12_subscribers_spec : forall ops s t,
  wf_ops ops = true ->
  subscribers s t (fst (run_c unwrap c_init ops)) = spec_subscribers s t (fst (run_a a_init ops)).
Proof. exact subscribers_spec. Qed.
Print Assumptions C12_subscribers_spec.

(* Several subscribers coexist: one more subscription adds its channel to its own (session, type)
   and changes no other subscriber list. *)
Theorem C12_coexist : forall ops s t u c s' t',
  wf_ops (ops ++ [Sub s t u c]) = true ->
  subscribers s' t' (fst (run_c unwrap c_init (ops ++ [Sub s t u c]))) =
  subscribers s' t' (fst (run_c unwrap c_init ops)) ++
  (if String.eqb s s' && N.eqb t t' then [c] else []).
Proof. exact coexist. Qed.
Print Assumptions C12_coexist.

(* Once cancelled, a subscription is never live again, whatever follows ... *)
Theorem C12_cancelled_not_live : forall ops k ops',
  wf_ops (ops ++ Unsub k :: ops') = true -> (k < nsubs ops)%nat ->
  ~ In k (map a_k (fst (run_a a_init (ops ++ Unsub k :: ops')))).
Proof. exact cancelled_not_live. Qed.
Print Assumptions C12_cancelled_not_live.

(* ... so a channel subscribed by that one subscription only is in no subscriber list of the table
   afterwards: it receives nothing further and is not retained. *)
Theorem C12_cancelled_gets_nothing : forall ops k ops' c s t,
  wf_ops (ops ++ Unsub k :: ops') = true -> (k < nsubs ops)%nat ->
  (forall j s' t', nth_sub (ops ++ Unsub k :: ops') j = Some (s', t', c) -> j = k) ->
  ~ In c (subscribers s t (fst (run_c unwrap c_init (ops ++ Unsub k :: ops')))).
Proof. exact cancelled_gets_nothing. Qed.
Print Assumptions C12_cancelled_gets_nothing.

(* The judge used on the implementation's observations (views after every operation, receipts of
   every delivery) accepts the model on every operation list ... *)
Theorem C12_judge_model : forall U ops,
  wf_ops ops = true -> judge_ops U ops (trace_c unwrap U c_init ops) = true.
Proof. exact judge_model. Qed.
Print Assumptions C12_judge_model.

(* ... and accepts an observation list iff it is the specification's own trace. *)
Theorem C12_judge_sound : forall spec impl,
  trace_ok spec impl = true <-> map (fun o => (o_view o, o_got o)) impl = spec.
Proof. exact trace_ok_iff. Qed.
Print Assumptions C12_judge_sound.

Theorem C12_unwrap_ok_model : forall s t u, unwrap_ok s t u (unwrap (sub_id s t u)) = true.
Proof. exact unwrap_ok_model. Qed.
Print Assumptions C12_unwrap_ok_model.

Theorem C12_unwrap_ok_sound : forall s t u r,
  t <= unknown_type -> unwrap_ok s t u r = true -> r = Some (s, t, dec u).
Proof. exact unwrap_ok_sound. Qed.
Print Assumptions C12_unwrap_ok_sound.

(* Non-vacuity: a well-formed history over hyphenated production-style ids, its table and its
   specification state; and the two Unwrap versions on one id. *)
Example C12_nonvacuous :
  let ops := [Sub "1-2-100-104-0" 1 4000000000 7; Sub "1-2-100-104-0" 1 12 8; Sub "keygen-17" 0 12 9;
              Unsub 0; Deliver "1-2-100-104-0" 1] in
  wf_ops ops = true /\
  abs_c (fst (run_c unwrap c_init ops)) = [("1-2-100-104-0", 1, 8); ("keygen-17", 0, 9)] /\
  map a_k (fst (run_a a_init ops)) = [1%nat; 2%nat] /\
  sub_id "1-2-100-104-0" 1 4000000000 = "1-2-100-104-0-1-4000000000" /\
  unwrap "1-2-100-104-0-1-4000000000" = Some ("1-2-100-104-0", 1, "4000000000") /\
  old_unwrap "1-2-100-104-0-1-4000000000" = None /\
  old_unwrap "7-1-4000000000" = Some ("7", 1, "4000000000").
Proof. vm_compute. repeat split. Qed.

(* ---- several messages in flight (one or more inbound streams, any timing of decoder and
   receivers; the table does not change meanwhile).  A message is (session, type, payload, remote
   peer of its stream).  For every operation list, every list of messages and every channel: what
   the table's fan-out hands to the channel is what the live subscriptions of the specification
   entitle it to ... *)
Theorem C12_fan_refinement : forall ops msgs c,
  wf_ops ops = true ->
  recv_c (fst (run_c unwrap c_init ops)) msgs c = recv_a (fst (run_a a_init ops)) msgs c.
Proof. exact fan_refinement. Qed.
Print Assumptions C12_fan_refinement.

(* ... the judge used on the per-channel receipts of the implementation accepts the model ... *)
Theorem C12_fan_judge_model : forall ops msgs chans,
  wf_ops ops = true ->
  judge_fan ops msgs chans (map (recv_c (fst (run_c unwrap c_init ops)) msgs) chans) = true.
Proof. exact fan_judge_model. Qed.
Print Assumptions C12_fan_judge_model.

(* ... and it accepts receipts iff, for every channel c and every (session, type, payload, peer),
   c received that message exactly (times it was sent) x (live subscriptions c holds on that
   session and type) times: every copy with its own payload and sender, nothing of a
   (session, type) the channel is not subscribed to, nothing lost, nothing twice.  The order of
   receipt is not constrained. *)
Theorem C12_fan_judge_sound : forall ops msgs chans impl,
  judge_fan ops msgs chans impl = true <->
  Forall2 (fun c got => forall s t p f,
             count_m (s, t, p, f) got =
             (count_m (s, t, p, f) msgs * copies c (spec_subscribers s t (fst (run_a a_init ops))))%nat)
          chans impl.
Proof. exact fan_judge_sound. Qed.
Print Assumptions C12_fan_judge_sound.

(* Non-vacuity: two messages of different (session, type) and a repeated one back to back; channel
   7 holds two subscriptions, channel 8 was cancelled; receipts in another order are accepted, a
   receipt carrying the other message's content is not. *)
Example C12_fan_nonvacuous :
  let ops := [Sub "1-2-100-104-0" 12 5 7; Sub "keygen-17" 0 6 7; Sub "keygen-17" 0 7 9;
              Sub "keygen-17" 0 8 8; Unsub 3] in
  let msgs := [("1-2-100-104-0", 12, "a", 1); ("keygen-17", 0, "b", 1); ("keygen-17", 0, "b", 1);
               ("keygen-1", 0, "c", 2)] in
  wf_ops ops = true /\
  map (recv_c (fst (run_c unwrap c_init ops)) msgs) [7; 8; 9] =
    [[("1-2-100-104-0", 12, "a", 1); ("keygen-17", 0, "b", 1); ("keygen-17", 0, "b", 1)]; [];
     [("keygen-17", 0, "b", 1); ("keygen-17", 0, "b", 1)]] /\
  judge_fan ops msgs [7; 8; 9]
    [[("keygen-17", 0, "b", 1); ("1-2-100-104-0", 12, "a", 1); ("keygen-17", 0, "b", 1)]; [];
     [("keygen-17", 0, "b", 1); ("keygen-17", 0, "b", 1)]] = true /\
  judge_fan ops msgs [7; 8; 9]
    [[("keygen-17", 0, "b", 1); ("keygen-17", 0, "b", 1); ("keygen-17", 0, "b", 1)]; [];
     [("keygen-17", 0, "b", 1); ("keygen-17", 0, "b", 1)]] = false.
Proof. vm_compute. repeat split. Qed.

(* ---- the table changes BETWEEN the messages of a stream.  An interleaved script (any list of table
   operations and messages, in the order in which they happened: a message stands for the moment
   its fan-out starts, an operation is issued strictly between two messages); [recvi_c c_init evs c]
   = what the model of the code hands to channel c over the whole script (GetSubscribers is
   consulted anew for every message), [recvi_a a_init evs c] = what the specification's live
   subscriptions entitle it to.  For every script and channel they coincide ... *)
Theorem C12_fani_refinement : forall evs c,
  wf_ops (fops evs) = true -> recvi_c c_init evs c = recvi_a a_init evs c.
Proof. exact fani_refinement. Qed.
Print Assumptions C12_fani_refinement.

(* ... the judge used on the per-channel receipts of the implementation accepts the model ... *)
Theorem C12_fani_judge_model : forall evs chans,
  wf_ops (fops evs) = true ->
  judge_fani evs chans (map (recvi_c c_init evs) chans) = true.
Proof. exact fani_judge_model. Qed.
Print Assumptions C12_fani_judge_model.

(* ... and accepts receipts iff every channel received every message exactly as often as the
   specification says (order of receipt unconstrained) ... *)
Theorem C12_fani_judge_sound : forall evs chans impl,
  judge_fani evs chans impl = true <->
  Forall2 (fun c got => forall x, count_m x got = count_m x (recvi_a a_init evs c)) chans impl.
Proof. exact fani_judge_sound. Qed.
Print Assumptions C12_fani_judge_sound.

(* ... where the specification's receipts are fixed message by message: a script without messages
   hands out nothing, and every single message contributes - whatever comes before or after it in
   the script - one copy per subscription the channel holds on the message's (session, type) AT THE
   MOMENT OF THAT MESSAGE: subscriptions made later get nothing of it, subscriptions cancelled
   earlier neither, and the previous messages of the stream play no role. *)
Theorem C12_fani_no_messages : forall evs st c,
  (forall m, ~ In (FMsg m) evs) -> recvi_a st evs c = [].
Proof. exact fani_no_messages. Qed.
Print Assumptions C12_fani_no_messages.

Theorem C12_fani_each_message : forall pre m post c x,
  count_m x (recvi_a a_init (pre ++ FMsg m :: post) c) =
  (count_m x (recvi_a a_init (pre ++ post) c) +
   (if msg_eqb x m
    then copies c (spec_subscribers (m_sess m) (m_type m) (fst (run_a a_init (fops pre))))
    else O))%nat.
Proof. exact fani_each_message. Qed.
Print Assumptions C12_fani_each_message.

(* The burst on a fixed table (above) is the special case "all table operations first". *)
Theorem C12_fani_fixed_table : forall ops msgs c,
  recvi_a a_init (map FOp ops ++ map FMsg msgs) c = recv_a (fst (run_a a_init ops)) msgs c.
Proof. exact fani_fixed_table. Qed.
Print Assumptions C12_fani_fixed_table.

(* Once cancelled, nothing further - in the model of the code, for every script: a channel
   subscribed by one subscription only has, at the end of the script, received exactly what it had
   received when that subscription was cancelled, whatever is sent or subscribed afterwards. *)
Theorem C12_fani_cancelled_nothing : forall pre k post c,
  wf_ops (fops (pre ++ FOp (Unsub k) :: post)) = true -> (k < nsubs (fops pre))%nat ->
  (forall j s' t', nth_sub (fops (pre ++ FOp (Unsub k) :: post)) j = Some (s', t', c) -> j = k) ->
  recvi_c c_init (pre ++ FOp (Unsub k) :: post) c = recvi_c c_init pre c.
Proof. exact fani_cancelled_nothing. Qed.
Print Assumptions C12_fani_cancelled_nothing.

(* Non-vacuity: one stream carrying the same (session, type) four times while the table changes:
   channel 7 is cancelled after the first message, channel 8 subscribes after the second, a
   subscription of another pair in between.  The model hands out per message what is live then;
   receipts as a list kept from the first message (7 keeps receiving, 8 gets nothing) are
   rejected. *)
Example C12_fani_nonvacuous :
  let m := fun p => FMsg ("keygen-17", 0, p, 1) in
  let evs := [FOp (Sub "keygen-17" 0 5 7); m "a"; FOp (Unsub 0); m "b"; FOp (Sub "keygen-17" 0 6 8);
              FOp (Sub "keygen-1" 0 7 9); m "c"; m "d"] in
  wf_ops (fops evs) = true /\
  map (recvi_c c_init evs) [7; 8; 9] =
    [[("keygen-17", 0, "a", 1)]; [("keygen-17", 0, "c", 1); ("keygen-17", 0, "d", 1)]; []] /\
  judge_fani evs [7; 8; 9]
    [[("keygen-17", 0, "a", 1)]; [("keygen-17", 0, "d", 1); ("keygen-17", 0, "c", 1)]; []] = true /\
  judge_fani evs [7; 8; 9]
    [[("keygen-17", 0, "a", 1); ("keygen-17", 0, "b", 1); ("keygen-17", 0, "c", 1); ("keygen-17", 0, "d", 1)];
     []; []] = false /\
  judge_fani evs [7; 8; 9]
    [[("keygen-17", 0, "a", 1)]; [("keygen-17", 0, "c", 1)]; []] = false.
Proof. vm_compute. repeat split. Qed.

(* ---- concurrent use.  Several threads, each running its own sequential program on the ONE shared
   table; every SubscribeTo / UnSubscribeFrom / GetSubscribers is one atomic step (the mutex), a
   thread cancels only its own subscriptions (Unsub k = its k-th Sub).  [sched sigma ths] is the
   model of the code run under the schedule sigma (ANY list of thread numbers: who takes the next
   step; numbers of finished or non-existing threads are skipped), [shared_table] its table (with
   identifiers), [own_state .. i] the specification's state of thread i's own operations done so
   far.  Hypotheses: Subscribe never returns an id twice (wf_ops of the shared table's history) and,
   where stated, a channel is subscribed by one thread only (wf_ownb).

   For every schedule, (session, type) and channel: the shared table holds the channel exactly as
   often as the threads' own histories together ... *)
Theorem C12_conc_table_sum : forall ths sigma s t c,
  wf_ops (g_hist (sched sigma ths)) = true ->
  copies c (subscribers s t (shared_table sigma ths)) =
  list_sum (map (fun i => copies c (spec_subscribers s t (fst (own_state (sched sigma ths) ths i))))
                (seq 0 (List.length ths))).
Proof. exact conc_table_sum. Qed.
Print Assumptions C12_conc_table_sum.

(* ... so what a thread finds for one of ITS channels is decided by its own history alone, whatever
   the other threads do meanwhile and wherever they are ... *)
Theorem C12_conc_own_exact : forall ths sigma s t c i,
  wf_ops (g_hist (sched sigma ths)) = true -> wf_ownb ths = true ->
  (i < List.length ths)%nat -> owns (nth i ths []) c = true ->
  copies c (subscribers s t (shared_table sigma ths)) =
  copies c (spec_subscribers s t (fst (own_state (sched sigma ths) ths i))).
Proof. exact conc_own_exact. Qed.
Print Assumptions C12_conc_own_exact.

(* ... no channel is found more often than it is ever subscribed to that (session, type) ... *)
Theorem C12_conc_bound : forall ths sigma s t c,
  wf_ops (g_hist (sched sigma ths)) = true ->
  (copies c (subscribers s t (shared_table sigma ths)) <= copies c (sub_chans s t (List.concat ths)))%nat.
Proof. exact conc_bound. Qed.
Print Assumptions C12_conc_bound.

(* ... and once every thread has finished, the table is exactly the live subscriptions of all
   threads, independently of the schedule. *)
Theorem C12_conc_final : forall ths sigma s t c,
  wf_ops (g_hist (sched sigma ths)) = true -> complete (sched sigma ths) ths ->
  copies c (subscribers s t (shared_table sigma ths)) = copies c (conc_final s t ths).
Proof. exact conc_final_table. Qed.
Print Assumptions C12_conc_final.

(* The judge of a concurrent run accepts what the model observes under every complete schedule
   (per thread the lookups right after each of its operations, and the table at the end) ... *)
Theorem C12_conc_judge_model : forall ths sigma U,
  wf_ownb ths = true -> wf_ops (g_hist (sched sigma ths)) = true -> complete (sched sigma ths) ths ->
  judge_conc ths (conc_obs (sched sigma ths)) U (conc_final_obs (sched sigma ths) U) false O = true.
Proof. exact conc_judge_model_b. Qed.
Print Assumptions C12_conc_judge_model.

(* ... a lookup made later - the other threads anywhere - still passes, as long as the looking
   thread has not moved: anything with the shared table's counts is accepted against the thread's
   own state, under every schedule ... *)
Theorem C12_conc_look_model : forall ths sigma i s t v,
  wf_ops (g_hist (sched sigma ths)) = true -> wf_ownb ths = true -> (i < List.length ths)%nat ->
  (forall c, copies c v = copies c (subscribers s t (shared_table sigma ths))) ->
  look_ok (nth i ths []) (sub_chans s t (List.concat ths))
          (spec_subscribers s t (fst (own_state (sched sigma ths) ths i))) v = true.
Proof. exact conc_look_model. Qed.
Print Assumptions C12_conc_look_model.

(* ... and it accepts a run iff the process survived, no data race was reported, every thread's
   trace is accepted and the final table has, for every pair of U and every channel, the count of the
   specification; a thread's trace is accepted only if every lookup after its k-th operation shows
   each own channel exactly as often as its first k+1 operations leave it subscribed, and no foreign
   channel more often than it is ever subscribed to the looked-up (session, type). *)
Theorem C12_conc_judge_sound : forall ths impl U final crashed races,
  judge_conc ths impl U final crashed races = true <->
  crashed = false /\ races = O /\
  Forall2 (fun own ob => thread_ok (List.concat ths) own ob = true) ths impl /\
  Forall2 (fun p v => forall c, copies c v = copies c (conc_final (fst p) (snd p) ths)) U final.
Proof. exact judge_conc_sound. Qed.
Print Assumptions C12_conc_judge_sound.

Theorem C12_conc_thread_sound : forall all own impl,
  thread_ok all own impl = true ->
  List.length impl = List.length own /\
  forall k o ob s t v, nth_error own k = Some o -> nth_error impl k = Some ob -> op_pair own o = Some (s, t) ->
    ob <> [] /\
    (In v ob -> forall c,
       if owns own c then copies c v = copies c (spec_subscribers s t (fst (run_a a_init (firstn (S k) own))))
       else (copies c v <= copies c (sub_chans s t all))%nat).
Proof. exact thread_ok_sound. Qed.
Print Assumptions C12_conc_thread_sound.

(* the function evaluated on the cases (candidate channels computed once per pair) is the judge *)
Theorem C12_conc_fast_eq : forall ths impl U final crashed races,
  judge_conc_fast ths impl U final crashed races = judge_conc ths impl U final crashed races.
Proof. exact judge_conc_fast_eq. Qed.
Print Assumptions C12_conc_fast_eq.

(* Non-vacuity: three threads on one hyphenated session and on sessions of their own, an interleaved
   complete schedule: hypotheses hold, the judge accepts the model's observation; a lost subscription
   (thread 0's channel missing from the final table), a crash or a reported race are rejected. *)
Example C12_conc_nonvacuous :
  let ths := [[Sub "1-2-100-104-17" 1 11 101; Sub "1-2-100-1-0" 1 12 102; Unsub 0; Deliver "1-2-100-104-17" 1];
              [Sub "1-2-100-104-17" 1 21 201; Deliver "1-2-100-104-17" 1; Sub "1-2-100-104-17" 1 22 201];
              [Deliver "1-2-100-104-17" 1; Sub "1-2-100-104-17" 1 31 301; Unsub 0; Unsub 0]] in
  let sigma := [0; 1; 2; 2; 1; 0; 0; 2; 1; 7; 0; 2; 1]%nat in
  let U := [("1-2-100-104-17", 1); ("1-2-100-1-0", 1)] in
  let g := sched sigma ths in
  wf_ownb ths = true /\ wf_ops (g_hist g) = true /\
  map (progress g) [0; 1; 2]%nat = [4; 3; 4]%nat /\
  conc_final_obs g U = [[201; 201]; [102]] /\
  nth 0 (conc_obs g) [] = [[[101]]; [[102]]; [[201; 301]]; [[201; 201]; [201; 201]]] /\
  judge_conc ths (conc_obs g) U (conc_final_obs g U) false O = true /\
  judge_conc_fast ths (conc_obs g) U (conc_final_obs g U) false O = true /\
  judge_conc ths (conc_obs g) U [[201]; [102]] false O = false /\
  judge_conc ths (conc_obs g) U (conc_final_obs g U) true O = false /\
  judge_conc ths (conc_obs g) U (conc_final_obs g U) false 3 = false.
Proof. vm_compute. repeat split. Qed.

(* ---- the OTHER operations of the communication layer: CloseSession, Broadcast / send to peers, the
   health check (Broadcast of an Unknown-type message + CloseSession), a stream handler run on a stream
   that carries no message.  The property names three things that decide who receives a message -
   subscribe, cancel, and the (session, type) of the message; everything else is a frame condition:
   who is subscribed is not changed by any other operation.  [XOther k] is such an operation inside
   a history (xop) or an interleaved script (xfev).

   The table and the live subscriptions after ANY history are those of the history with the other
   operations taken out, for the model of the code and for the specification ... *)
Theorem C12_other_ops_frame : forall xs,
  run_xc unwrap c_init xs = run_c unwrap c_init (xops_of xs)
  /\ run_xa a_init xs = run_a a_init (xops_of xs).
Proof. exact other_ops_frame. Qed.
Print Assumptions C12_other_ops_frame.

(* ... step by step: the operation changes no state and no subscriber list ... *)
Theorem C12_other_op_frame_step : forall uw k cs st U,
  step_xc uw cs (XOther k) = cs /\ step_xa st (XOther k) = st
  /\ view_c U (fst (step_xc uw cs (XOther k))) = view_c U (fst cs)
  /\ view_a U (fst (step_xa st (XOther k))) = view_a U (fst st).
Proof. exact other_frame. Qed.
Print Assumptions C12_other_op_frame_step.

(* ... so GetSubscribers after a history with other operations returns the specification's live
   channels of the history without them, and a history of other operations only leaves every state as
   it was. *)
Theorem C12_other_ops_subscribers : forall xs s t,
  wf_ops (xops_of xs) = true ->
  subscribers s t (fst (run_xc unwrap c_init xs)) = spec_subscribers s t (fst (run_a a_init (xops_of xs))).
Proof. exact other_ops_frame_subscribers. Qed.
Print Assumptions C12_other_ops_subscribers.

Theorem C12_others_only : forall ks cs st,
  run_xc unwrap cs (map XOther ks) = cs /\ run_xa st (map XOther ks) = st.
Proof. exact others_only. Qed.
Print Assumptions C12_others_only.

(* The judge of a history with other operations (the runner looks at the subscriber lists after EVERY
   operation, the other ones included) accepts the model's trace, and accepts an observation list iff
   it is the specification's trace - whose entry for the n-th operation shows the live subscriptions
   of the history without the other operations up to there, and no receipt for an other operation. *)
Theorem C12_xjudge_model : forall U xs,
  wf_ops (xops_of xs) = true -> judge_xops U xs (xtrace_c unwrap U c_init xs) = true.
Proof. exact xjudge_model. Qed.
Print Assumptions C12_xjudge_model.

Theorem C12_xjudge_sound : forall U xs impl,
  judge_xops U xs impl = true <-> map (fun o => (o_view o, o_got o)) impl = xtrace_a U a_init xs.
Proof. exact xjudge_sound. Qed.
Print Assumptions C12_xjudge_sound.

Theorem C12_xtrace_spec : forall U xs st n x,
  nth_error xs n = Some x ->
  exists g, nth_error (xtrace_a U st xs) n
            = Some (view_a U (fst (run_a st (xops_of (firstn (S n) xs)))), g)
            /\ (forall k, x = XOther k -> g = []).
Proof. exact xtrace_a_nth. Qed.
Print Assumptions C12_xtrace_spec.

(* Interleaved scripts with other operations between the messages of long-lived streams: what every
   channel is handed is what the script WITHOUT them hands it (model and specification), the judge
   is the judge of that script, accepts the model, and means the specification's receipts. *)
Theorem C12_fanix_frame : forall xs c,
  recvix_c c_init xs c = recvi_c c_init (xfevs_of xs) c
  /\ recvix_a a_init xs c = recvi_a a_init (xfevs_of xs) c.
Proof. exact (fun xs c => conj (recvix_c_strip xs c) (recvix_a_strip xs c)). Qed.
Print Assumptions C12_fanix_frame.

Theorem C12_fanix_judge_model : forall xs chans,
  wf_ops (fops (xfevs_of xs)) = true ->
  judge_fanix xs chans (map (recvix_c c_init xs) chans) = true.
Proof. exact fanix_judge_model. Qed.
Print Assumptions C12_fanix_judge_model.

Theorem C12_fanix_judge_sound : forall xs chans impl,
  judge_fanix xs chans impl = true <->
  Forall2 (fun c got => forall x, count_m x got = count_m x (recvi_a a_init (xfevs_of xs) c)) chans impl.
Proof. exact fanix_judge_sound. Qed.
Print Assumptions C12_fanix_judge_sound.

(* Non-vacuity: two subscribers of a hyphenated session, CloseSession of that very session, a
   broadcast, a health check: the hypotheses hold, the model's trace keeps both subscribers and the
   judge accepts it; a trace in which CloseSession emptied the session's subscriber list is rejected,
   and so are receipts of an interleaved script that stop after the CloseSession. *)
Example C12_other_nonvacuous :
  let xs := [XOp (Sub "1-2-100" 1 5 7); XOp (Sub "1-2-100" 1 6 8); XOther (OClose "1-2-100");
             XOp (Deliver "1-2-100" 1); XOther (OBcast "1-2-100" 1 [1; 2]); XOther (OHealth [1; 4]);
             XOp (Unsub 0); XOther (OClose "1-2"); XOp (Deliver "1-2-100" 1)] in
  let U := [("1-2-100", 1)] in
  wf_ops (xops_of xs) = true /\
  map (fun o => (o_view o, o_got o)) (xtrace_c unwrap U c_init xs) =
    [([[7]], []); ([[7; 8]], []); ([[7; 8]], []); ([[7; 8]], [7; 8]); ([[7; 8]], []); ([[7; 8]], []);
     ([[8]], []); ([[8]], []); ([[8]], [8])] /\
  judge_xops U xs (xtrace_c unwrap U c_init xs) = true /\
  judge_xops U xs (map (fun v => mk_obs "" [fst v] (snd v))
     [([7], []); ([7; 8], []); ([], []); ([], []); ([], []); ([], []); ([], []); ([], []); ([], [])]) = false /\
  (let m := fun p => XEv (FMsg ("1-2-100", 1, p, 1)) in
  let ys := [XEv (FOp (Sub "1-2-100" 1 5 7)); m "a"; XOth (OClose "1-2-100"); m "b"] in
  map (recvix_c c_init ys) [7] = [[("1-2-100", 1, "a", 1); ("1-2-100", 1, "b", 1)]] /\
  judge_fanix ys [7] [[("1-2-100", 1, "b", 1); ("1-2-100", 1, "a", 1)]] = true /\
  judge_fanix ys [7] [[("1-2-100", 1, "a", 1)]] = false).
Proof. vm_compute. repeat split. Qed.
