(* C12 - Messages reach exactly the current subscribers of their session and type.
   This file contains only the property theorems (each closed by [exact]) and Print Assumptions. *)
From Coq Require Import List NArith Bool String Ascii.
Import ListNotations.
From SygmaV Require Import Model.C12 Proofs.C12.
Local Open Scope string_scope.
Local Open Scope N_scope.
Local Open Scope list_scope.

(* A subscription id is parsed back into its three components for EVERY session string - hyphens,
   empty, anything - and every declared message type (0..13) and unique component. *)
Theorem C12_unwrap_sub_id : forall s t u,
  t <= unknown_type -> unwrap (sub_id s t u) = Some (s, t, dec u).
Proof. exact unwrap_sub_id. Qed.
Print Assumptions C12_unwrap_sub_id.

(* The code as it was (strings.Split on every '-'): refuted, and in fact it failed for every session
   id that contains the separator. *)
Theorem C12_old_unwrap_refuted : exists s t u,
  t <= unknown_type /\ old_unwrap (sub_id s t u) = None.
Proof. exists "1-2", 0, 7. split; [discriminate | reflexivity]. Qed.
Print Assumptions C12_old_unwrap_refuted.

Theorem C12_old_unwrap_hyphen : forall s t u,
  no_hy s = false -> old_unwrap (sub_id s t u) = None.
Proof. exact old_unwrap_hyphen. Qed.
Print Assumptions C12_old_unwrap_hyphen.

(* ... with the consequence for the table driven by the old Unwrap: two subscribers of one hyphenated
   session collide (the first is displaced) and a cancelled subscription stays in the table. *)
Theorem C12_old_table_refuted : exists ops s t,
  wf_ops ops = true /\
  subscribers s t (fst (run_c old_unwrap c_init ops)) <> spec_subscribers s t (fst (run_a a_init ops)).
Proof.
  exists [Sub "1-2" 0 5 100; Sub "1-2" 0 6 101; Unsub 1], "1-2", 0.
  split; [reflexivity | vm_compute; discriminate].
Qed.
Print Assumptions C12_old_table_refuted.

(* Refinement, for every operation list over any sessions (hypotheses as the boolean wf_ops: declared
   message types, Subscribe never returns an id twice): forgetting identifiers, the table IS the list
   of live subscriptions of the specification ... *)
Theorem C12_refinement : forall ops,
  wf_ops ops = true ->
  abs_c (fst (run_c unwrap c_init ops)) = abs_a (fst (run_a a_init ops)).
Proof. exact refinement. Qed.
Print Assumptions C12_refinement.

(* ... and GetSubscribers / the fan-out of a delivery returns exactly the channels of the live
   subscriptions of that (session, type). *)
Theorem C12_subscribers_spec : forall ops s t,
  wf_ops ops = true ->
  subscribers s t (fst (run_c unwrap c_init ops)) = spec_subscribers s t (fst (run_a a_init ops)).
Proof. exact subscribers_spec. Qed.
Print Assumptions C12_subscribers_spec.

(* Several subscribers coexist: one more subscription adds its channel to its own (session, type)
   and changes no other subscriber list. *)
Theorem C12_coexist : forall ops s t u c s' t',
  wf_ops (ops ++ [Sub s t u c]) = true ->
  subscribers s' t' (fst (run_c unwrap c_init (ops ++ [Sub s t u c]))) =
  subscribers s' t' (fst (run_c unwrap c_init ops)) ++
  (if String.eqb s s' && N.eqb t t' then [c] else []).
Proof. exact coexist. Qed.
Print Assumptions C12_coexist.

(* Once cancelled, a subscription is never live again, whatever follows ... *)
Theorem C12_cancelled_not_live : forall ops k ops',
  wf_ops (ops ++ Unsub k :: ops') = true -> (k < nsubs ops)%nat ->
  ~ In k (map a_k (fst (run_a a_init (ops ++ Unsub k :: ops')))).
Proof. exact cancelled_not_live. Qed.
Print Assumptions C12_cancelled_not_live.

(* ... so a channel subscribed by that one subscription only is in no subscriber list of the table
   afterwards: it receives nothing further and is not retained. *)
Theorem C12_cancelled_gets_nothing : forall ops k ops' c s t,
  wf_ops (ops ++ Unsub k :: ops') = true -> (k < nsubs ops)%nat ->
  (forall j s' t', nth_sub (ops ++ Unsub k :: ops') j = Some (s', t', c) -> j = k) ->
  ~ In c (subscribers s t (fst (run_c unwrap c_init (ops ++ Unsub k :: ops')))).
Proof. exact cancelled_gets_nothing. Qed.
Print Assumptions C12_cancelled_gets_nothing.

(* The judge used on the implementation's observations (views after every operation, receipts of
   every delivery) accepts the model on every operation list ... *)
Theorem C12_judge_model : forall U ops,
  wf_ops ops = true -> judge_ops U ops (trace_c unwrap U c_init ops) = true.
Proof. exact judge_model. Qed.
Print Assumptions C12_judge_model.

(* ... and accepts an observation list iff it is the specification's own trace. *)
Theorem C12_judge_sound : forall spec impl,
  trace_ok spec impl = true <-> map (fun o => (o_view o, o_got o)) impl = spec.
Proof. exact trace_ok_iff. Qed.
Print Assumptions C12_judge_sound.

Theorem C12_unwrap_ok_model : forall s t u, unwrap_ok s t u (unwrap (sub_id s t u)) = true.
Proof. exact unwrap_ok_model. Qed.
Print Assumptions C12_unwrap_ok_model.

Theorem C12_unwrap_ok_sound : forall s t u r,
  t <= unknown_type -> unwrap_ok s t u r = true -> r = Some (s, t, dec u).
Proof. exact unwrap_ok_sound. Qed.
Print Assumptions C12_unwrap_ok_sound.

(* Non-vacuity: a well-formed history over hyphenated production-style ids, its table and its
   specification state; and the two Unwrap versions on one id. *)
Example C12_nonvacuous :
  let ops := [Sub "1-2-100-104-0" 1 4000000000 7; Sub "1-2-100-104-0" 1 12 8; Sub "keygen-17" 0 12 9;
              Unsub 0; Deliver "1-2-100-104-0" 1] in
  wf_ops ops = true /\
  abs_c (fst (run_c unwrap c_init ops)) = [("1-2-100-104-0", 1, 8); ("keygen-17", 0, 9)] /\
  map a_k (fst (run_a a_init ops)) = [1%nat; 2%nat] /\
  sub_id "1-2-100-104-0" 1 4000000000 = "1-2-100-104-0-1-4000000000" /\
  unwrap "1-2-100-104-0-1-4000000000" = Some ("1-2-100-104-0", 1, "4000000000") /\
  old_unwrap "1-2-100-104-0-1-4000000000" = None /\
  old_unwrap "7-1-4000000000" = Some ("7", 1, "4000000000").
Proof. vm_compute. repeat split. Qed.

(* ---- several messages in flight (one or more inbound streams, any timing of decoder and
   receivers; the table does not change meanwhile).  A message is (session, type, payload, remote
   peer of its stream).  For every operation list, every list of messages and every channel: what
   the table's fan-out hands to the channel is what the live subscriptions of the specification
   entitle it to ... *)
Theorem C12_fan_refinement : forall ops msgs c,
  wf_ops ops = true ->
  recv_c (fst (run_c unwrap c_init ops)) msgs c = recv_a (fst (run_a a_init ops)) msgs c.
Proof. exact fan_refinement. Qed.
Print Assumptions C12_fan_refinement.

(* ... the judge used on the per-channel receipts of the implementation accepts the model ... *)
Theorem C12_fan_judge_model : forall ops msgs chans,
  wf_ops ops = true ->
  judge_fan ops msgs chans (map (recv_c (fst (run_c unwrap c_init ops)) msgs) chans) = true.
Proof. exact fan_judge_model. Qed.
Print Assumptions C12_fan_judge_model.

(* ... and it accepts receipts iff, for every channel c and every (session, type, payload, peer),
   c received that message exactly (times it was sent) x (live subscriptions c holds on that
   session and type) times: every copy with its own payload and sender, nothing of a
   (session, type) the channel is not subscribed to, nothing lost, nothing twice.  The order of
   receipt is not constrained. *)
Theorem C12_fan_judge_sound : forall ops msgs chans impl,
  judge_fan ops msgs chans impl = true <->
  Forall2 (fun c got => forall s t p f,
             count_m (s, t, p, f) got =
             (count_m (s, t, p, f) msgs * copies c (spec_subscribers s t (fst (run_a a_init ops))))%nat)
          chans impl.
Proof. exact fan_judge_sound. Qed.
Print Assumptions C12_fan_judge_sound.

(* Non-vacuity: two messages of different (session, type) and a repeated one back to back; channel
   7 holds two subscriptions, channel 8 was cancelled; receipts in another order are accepted, a
   receipt carrying the other message's content is not. *)
Example C12_fan_nonvacuous :
  let ops := [Sub "1-2-100-104-0" 12 5 7; Sub "keygen-17" 0 6 7; Sub "keygen-17" 0 7 9;
              Sub "keygen-17" 0 8 8; Unsub 3] in
  let msgs := [("1-2-100-104-0", 12, "a", 1); ("keygen-17", 0, "b", 1); ("keygen-17", 0, "b", 1);
               ("keygen-1", 0, "c", 2)] in
  wf_ops ops = true /\
  map (recv_c (fst (run_c unwrap c_init ops)) msgs) [7; 8; 9] =
    [[("1-2-100-104-0", 12, "a", 1); ("keygen-17", 0, "b", 1); ("keygen-17", 0, "b", 1)]; [];
     [("keygen-17", 0, "b", 1); ("keygen-17", 0, "b", 1)]] /\
  judge_fan ops msgs [7; 8; 9]
    [[("keygen-17", 0, "b", 1); ("1-2-100-104-0", 12, "a", 1); ("keygen-17", 0, "b", 1)]; [];
     [("keygen-17", 0, "b", 1); ("keygen-17", 0, "b", 1)]] = true /\
  judge_fan ops msgs [7; 8; 9]
    [[("keygen-17", 0, "b", 1); ("keygen-17", 0, "b", 1); ("keygen-17", 0, "b", 1)]; [];
     [("keygen-17", 0, "b", 1); ("keygen-17", 0, "b", 1)]] = false.
Proof. vm_compute. repeat split. Qed.
