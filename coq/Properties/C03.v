(* C03 - an executed transfer is never signed or submitted again.
   Only the property theorems (each closed by [exact]) and Print Assumptions.  [sub_select] models the
   repaired Substrate loop (branch fix-C03); C03_old_sub_select_refuted is about the loop as it was. *)
From Coq Require Import List NArith Bool.
From SygmaV Require Import Model.C03 Proofs.C03.
Import ListNotations.
Local Open Scope N_scope.

(* ---- one delivery, EVM (proposalBatches filter) and Substrate (Execute loop): for every delivery
   and every per-query answer of the destination (executed / not executed / lookup error) ---- *)

Theorem C03_evm_select_sound : forall d l,
  evm_select d = Ok l ->
  l = map fst (filter not_executed d) /\ forall k, In k l -> In (k, NotExecuted) d.
Proof. exact (select_sound evm_select evm_select_char). Qed.
Print Assumptions C03_evm_select_sound.

Theorem C03_evm_select_complete : forall d,
  (forall k, ~ In (k, LookupErr) d) ->
  evm_select d = Ok (map fst (filter not_executed d)) /\
  forall k, In (k, NotExecuted) d -> In k (signed_of (evm_select d)).
Proof. exact (select_complete evm_select evm_select_char). Qed.
Print Assumptions C03_evm_select_complete.

Theorem C03_evm_select_err_signs_nothing : forall d k,
  In (k, LookupErr) d ->
  evm_select d = Err /\ signed_of (evm_select d) = [] /\ sessions_of (evm_select d) = [].
Proof. exact (select_err_signs_nothing evm_select evm_select_char). Qed.
Print Assumptions C03_evm_select_err_signs_nothing.

Theorem C03_sub_select_sound : forall d l,
  sub_select d = Ok l ->
  l = map fst (filter not_executed d) /\ forall k, In k l -> In (k, NotExecuted) d.
Proof. exact (select_sound sub_select sub_select_char). Qed.
Print Assumptions C03_sub_select_sound.

Theorem C03_sub_select_complete : forall d,
  (forall k, ~ In (k, LookupErr) d) ->
  sub_select d = Ok (map fst (filter not_executed d)) /\
  forall k, In (k, NotExecuted) d -> In k (signed_of (sub_select d)).
Proof. exact (select_complete sub_select sub_select_char). Qed.
Print Assumptions C03_sub_select_complete.

Theorem C03_sub_select_err_signs_nothing : forall d k,
  In (k, LookupErr) d ->
  sub_select d = Err /\ signed_of (sub_select d) = [] /\ sessions_of (sub_select d) = [].
Proof. exact (select_err_signs_nothing sub_select sub_select_char). Qed.
Print Assumptions C03_sub_select_err_signs_nothing.

(* no signing session is started for an empty selection (all executed) *)
Theorem C03_no_session_over_nothing : forall r,
  forallb (fun l => negb (is_nil l)) (sessions_of r) = true /\ concat (sessions_of r) = signed_of r.
Proof. exact (fun r => conj (sessions_nonempty r) (sessions_concat r)). Qed.
Print Assumptions C03_no_session_over_nothing.

(* the Substrate loop as it was: an executed transfer is hashed and signed again *)
Theorem C03_old_sub_select_refuted :
  exists d k, In (k, Executed) d /\ In k (signed_of (old_sub_select d)) /\ sessions_of (old_sub_select d) <> [].
Proof. exact old_sub_select_refuted. Qed.
Print Assumptions C03_old_sub_select_refuted.

(* ---- one delivery, Bitcoin (proposalsForExecution over the prop store): for every store content,
   every delivery (repetitions included) and every placement of store read / write faults ---- *)

(* only missing / failed proposals are selected, each at most once, each is recorded pending before
   signing; nothing else in the store changes *)
Theorem C03_btc_select_sound : forall d s s' l,
  btc_select s d = (s', Ok l) ->
  (forall k, In k l -> executable (lookup s k) = true /\ lookup s' k = Pending /\ In k (keys_of d))
  /\ NoDup l
  /\ (forall k, ~ In k l -> lookup s' k = lookup s k).
Proof. exact btc_select_sound. Qed.
Print Assumptions C03_btc_select_sound.

Theorem C03_btc_select_complete : forall d s,
  no_fault d = true ->
  exists s' l, btc_select s d = (s', Ok l) /\
    forall k, In k (keys_of d) -> executable (lookup s k) = true -> In k l.
Proof. exact btc_select_complete. Qed.
Print Assumptions C03_btc_select_complete.

Theorem C03_btc_select_err_signs_nothing : forall d s,
  has_read_fault d = true -> snd (btc_select s d) = Err.
Proof. exact btc_select_err_signs_nothing. Qed.
Print Assumptions C03_btc_select_err_signs_nothing.

(* whatever the outcome (also on errors): a pending or executed record is never modified by a delivery *)
Theorem C03_btc_recorded_untouched : forall d s k,
  executable (lookup s k) = false -> lookup (fst (btc_select s d)) k = lookup s k.
Proof. exact btc_select_untouched. Qed.
Print Assumptions C03_btc_recorded_untouched.

(* ---- histories: every list of ops (deliveries with faults = re-scans / retries, session ends of
   whichever live session - sessions may overlap after a release -, restarts, releases of pending
   transfers by retry requests), every destination kind, every initial state ---- *)

(* a failed submission marks failed exactly those of its transfers that are not recorded executed -
   decided per transfer, wherever in the session it stands *)
Theorem C03_failed_end_per_transfer : forall b s k,
  lookup (fail_all s b) k = if kmem k b && negb (is_done (lookup s k)) then Failed else lookup s k.
Proof. exact lookup_fail_all. Qed.
Print Assumptions C03_failed_end_per_transfer.

(* a retry request releases pending transfers to failed and touches nothing else *)
Theorem C03_release_only_pending : forall b s k,
  lookup (release_all s b) k = if kmem k b && is_pending (lookup s k) then Failed else lookup s k.
Proof. exact lookup_release_all. Qed.
Print Assumptions C03_release_only_pending.

(* executed is final *)
Theorem C03_executed_is_final : forall ds s o k,
  is_done (lookup (st s) k) = true -> is_done (lookup (st (fst (step ds s o))) k) = true.
Proof. exact step_done_mono. Qed.
Print Assumptions C03_executed_is_final.

(* at every step nothing that the destination reports executed (Bitcoin: that is recorded pending or
   executed) is handed to signing *)
Theorem C03_sound_at_every_step : forall ds ops s j sj oj k,
  nth_error (trace ds s ops) j = Some (sj, oj) ->
  eligible ds (lookup (st sj) k) = false -> ~ In k (signed_of oj).
Proof. exact sound_at_every_step. Qed.
Print Assumptions C03_sound_at_every_step.

(* a transfer executed before op i is in no signing set of op i or of any later op *)
Theorem C03_never_resigned : forall ds ops s i j si oi sj oj k,
  nth_error (trace ds s ops) i = Some (si, oi) -> nth_error (trace ds s ops) j = Some (sj, oj) ->
  (i <= j)%nat -> is_done (lookup (st si) k) = true -> ~ In k (signed_of oj).
Proof. exact never_resigned. Qed.
Print Assumptions C03_never_resigned.

(* ---- the judge applied to the implementation (Run/C03.v) ---- *)

Theorem C03_judge_accepts_model : forall ds uni ops s,
  wf_ops uni ops = true ->
  hist_ok ds uni (combine uni (snapshot uni (st s))) ops (model_obs ds uni s ops) = true.
Proof. exact hist_ok_model. Qed.
Print Assumptions C03_judge_accepts_model.

Theorem C03_judge_delivery_reading : forall ds view d ob,
  step_ok ds view (Deliver d) ob = true ->
  (forall l, In l (o_sets ob) -> l <> []) /\
  (forall k, In k (concat (o_sets ob)) -> eligible ds (lookup view k) = true /\ In k (keys_of d)) /\
  (has_read_fault d = true -> concat (o_sets ob) = []) /\
  (no_fault d = true -> forall k, In k (keys_of d) -> eligible ds (lookup view k) = true ->
                        In k (concat (o_sets ob))).
Proof. exact step_ok_reading. Qed.
Print Assumptions C03_judge_delivery_reading.

Theorem C03_judge_never_resigned : forall ds uni ops view os k,
  hist_ok ds uni view ops os = true -> In k uni -> is_done (lookup view k) = true ->
  forall ob, In ob os -> ~ In k (concat (o_sets ob)).
Proof. exact hist_ok_never_resigned. Qed.
Print Assumptions C03_judge_never_resigned.

(* Non-vacuity: a Bitcoin history with a retry after a failed submission, a restart and a repeated
   delivery; and two overlapping sessions: [(1,0); (1,1); (1,2)] is in flight, a retry releases (1,1)
   and (1,2), a second session over [(1,2); (1,1)] succeeds, then the first one fails - only (1,0) is
   marked failed and signed again. *)
Example C03_nonvacuous :
  map (fun x => signed_of (snd x))
      (trace BTC (mkstate [((1, 0), Done)] [])
         [Deliver [((1, 0), NoFault); ((1, 1), NoFault); ((1, 2), NoFault)];
          ExecFail [(1, 1)]; ExecOk [(1, 2)]; Restart;
          Deliver [((1, 0), NoFault); ((1, 1), NoFault); ((1, 2), NoFault)];
          Deliver [((1, 1), NoFault)]])
  = [[(1, 1); (1, 2)]; []; []; []; [(1, 1)]; []] /\
  (let ops := [Deliver [((1, 0), NoFault); ((1, 1), NoFault); ((1, 2), NoFault)];
               Release [(1, 1); (1, 2)];
               Deliver [((1, 2), NoFault); ((1, 1), NoFault)];
               ExecOk [(1, 2); (1, 1)];
               ExecFail [(1, 0); (1, 1); (1, 2)];
               Deliver [((1, 0), NoFault); ((1, 1), NoFault); ((1, 2), NoFault)]] in
   map (fun x => signed_of (snd x)) (trace BTC (mkstate [] []) ops)
   = [[(1, 0); (1, 1); (1, 2)]; []; [(1, 2); (1, 1)]; []; []; [(1, 0)]] /\
   map (fun o => o_snap o) (model_obs BTC [(1, 0); (1, 1); (1, 2)] (mkstate [] []) ops)
   = [[Pending; Pending; Pending]; [Pending; Failed; Failed]; [Pending; Pending; Pending];
      [Pending; Done; Done]; [Failed; Done; Done]; [Pending; Done; Done]]) /\
  evm_select [((1, 0), Executed); ((1, 1), NotExecuted)] = Ok [(1, 1)] /\
  old_sub_select [((1, 0), Executed); ((1, 1), NotExecuted)] = Ok [(1, 0); (1, 1)].
Proof. vm_compute. repeat split. Qed.
