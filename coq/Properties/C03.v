(* C03 - an executed transfer is never signed or submitted again.
   Only the property theorems (each closed by [exact]) and Print Assumptions.  [sub_select] models the
   repaired Substrate loop (branch fix-C03); C03_old_sub_select_refuted is about the loop as it was. *)
From Coq Require Import List NArith Bool.
From SygmaV Require Import Model.C03 Proofs.C03 Model.C03_Conc Proofs.C03_Conc.
Import ListNotations.
Local Open Scope N_scope.

(* ---- one delivery, EVM (proposalBatches filter) and Substrate (Execute loop): for every delivery
   and every per-query answer of the destination (executed / not executed / lookup error) ---- *)

Theorem C03_evm_select_sound : forall d l,
  evm_select d = Ok l ->
  l = map fst (filter not_executed d) /\ forall k, In k l -> In (k, NotExecuted) d.
Proof. exact (select_sound evm_select evm_select_char). Qed.
Print Assumptions C03_evm_select_sound.

Theorem C03_evm_select_complete : forall d,
  (forall k, ~ In (k, LookupErr) d) ->
  evm_select d = Ok (map fst (filter not_executed d)) /\
  forall k, In (k, NotExecuted) d -> In k (signed_of (evm_select d)).
Proof. exact (select_complete evm_select evm_select_char). Qed.
Print Assumptions C03_evm_select_complete.

Theorem C03_evm_select_err_signs_nothing : forall d k,
  In (k, LookupErr) d ->
  evm_select d = Err /\ signed_of (evm_select d) = [] /\ sessions_of (evm_select d) = [].
Proof. exact (select_err_signs_nothing evm_select evm_select_char). Qed.
Print Assumptions C03_evm_select_err_signs_nothing.

Theorem C03_sub_select_sound : forall d l,
  sub_select d = Ok l ->
  l = map fst (filter not_executed d) /\ forall k, In k l -> In (k, NotExecuted) d.
Proof. exact (select_sound sub_select sub_select_char). Qed.
Print Assumptions C03_sub_select_sound.

Theorem C03_sub_select_complete : forall d,
  (forall k, ~ In (k, LookupErr) d) ->
  sub_select d = Ok (map fst (filter not_executed d)) /\
  forall k, In (k, NotExecuted) d -> In k (signed_of (sub_select d)).
Proof. exact (select_complete sub_select sub_select_char). Qed.
Print Assumptions C03_sub_select_complete.

Theorem C03_sub_select_err_signs_nothing : forall d k,
  In (k, LookupErr) d ->
  sub_select d = Err /\ signed_of (sub_select d) = [] /\ sessions_of (sub_select d) = [].
Proof. exact (select_err_signs_nothing sub_select sub_select_char). Qed.
Print Assumptions C03_sub_select_err_signs_nothing.

(* no signing session is started for an empty selection (all executed) *)
Theorem C03_no_session_over_nothing : forall r,
  forallb (fun l => negb (is_nil l)) (sessions_of r) = true /\ concat (sessions_of r) = signed_of r.
Proof. exact (fun r => conj (sessions_nonempty r) (sessions_concat r)). Qed.
Print Assumptions C03_no_session_over_nothing.

(* the Substrate loop as it was: an executed transfer is hashed and signed again *)
Theorem C03_old_sub_select_refuted :
  exists d k, In (k, Executed) d /\ In k (signed_of (old_sub_select d)) /\ sessions_of (old_sub_select d) <> [].
Proof. exact old_sub_select_refuted. Qed.
Print Assumptions C03_old_sub_select_refuted.

(* ---- one delivery, Bitcoin (proposalsForExecution over the prop store): for every store content,
   every delivery (repetitions included) and every placement of store read / write faults ---- *)

(* only missing / failed proposals are selected, each at most once, each is recorded pending before
   signing; nothing else in the store changes *)
Theorem C03_btc_select_sound : forall d s s' l,
  btc_select s d = (s', Ok l) ->
  (forall k, In k l -> executable (lookup s k) = true /\ lookup s' k = Pending /\ In k (keys_of d))
  /\ NoDup l
  /\ (forall k, ~ In k l -> lookup s' k = lookup s k).
Proof. exact btc_select_sound. Qed.
Print Assumptions C03_btc_select_sound.

Theorem C03_btc_select_complete : forall d s,
  no_fault d = true ->
  exists s' l, btc_select s d = (s', Ok l) /\
    forall k, In k (keys_of d) -> executable (lookup s k) = true -> In k l.
Proof. exact btc_select_complete. Qed.
Print Assumptions C03_btc_select_complete.

Theorem C03_btc_select_err_signs_nothing : forall d s,
  has_read_fault d = true -> snd (btc_select s d) = Err.
Proof. exact btc_select_err_signs_nothing. Qed.
Print Assumptions C03_btc_select_err_signs_nothing.

(* whatever the outcome (also on errors): a pending or executed record is never modified by a delivery *)
Theorem C03_btc_recorded_untouched : forall d s k,
  executable (lookup s k) = false -> lookup (fst (btc_select s d)) k = lookup s k.
Proof. exact btc_select_untouched. Qed.
Print Assumptions C03_btc_recorded_untouched.

(* ---- histories: every list of ops (deliveries with faults = re-scans / retries, session ends of
   whichever live session - sessions may overlap after a release -, restarts, releases of pending
   transfers by retry requests), every destination kind, every initial state ---- *)

(* a failed submission marks failed exactly those of its transfers that are not recorded executed -
   decided per transfer, wherever in the session it stands *)
Theorem C03_failed_end_per_transfer : forall b s k,
  lookup (fail_all s b) k = if kmem k b && negb (is_done (lookup s k)) then Failed else lookup s k.
Proof. exact lookup_fail_all. Qed.
Print Assumptions C03_failed_end_per_transfer.

(* a retry request releases pending transfers to failed and touches nothing else *)
Theorem C03_release_only_pending : forall b s k,
  lookup (release_all s b) k = if kmem k b && is_pending (lookup s k) then Failed else lookup s k.
Proof. exact lookup_release_all. Qed.
Print Assumptions C03_release_only_pending.

(* executed is final *)
Theorem C03_executed_is_final : forall ds s o k,
  is_done (lookup (st s) k) = true -> is_done (lookup (st (fst (step ds s o))) k) = true.
Proof. exact step_done_mono. Qed.
Print Assumptions C03_executed_is_final.

(* at every step nothing that the destination reports executed (Bitcoin: that is recorded pending or
   executed) is handed to signing *)
Theorem C03_sound_at_every_step : forall ds ops s j sj oj k,
  nth_error (trace ds s ops) j = Some (sj, oj) ->
  eligible ds (lookup (st sj) k) = false -> ~ In k (signed_of oj).
Proof. exact sound_at_every_step. Qed.
Print Assumptions C03_sound_at_every_step.

(* a transfer executed before op i is in no signing set of op i or of any later op *)
Theorem C03_never_resigned : forall ds ops s i j si oi sj oj k,
  nth_error (trace ds s ops) i = Some (si, oi) -> nth_error (trace ds s ops) j = Some (sj, oj) ->
  (i <= j)%nat -> is_done (lookup (st si) k) = true -> ~ In k (signed_of oj).
Proof. exact never_resigned. Qed.
Print Assumptions C03_never_resigned.

(* ---- the judge applied to the implementation (Run/C03.v) ---- *)

Theorem C03_judge_accepts_model : forall ds uni ops s,
  wf_ops uni ops = true ->
  hist_ok ds uni (combine uni (snapshot uni (st s))) ops (model_obs ds uni s ops) = true.
Proof. exact hist_ok_model. Qed.
Print Assumptions C03_judge_accepts_model.

Theorem C03_judge_delivery_reading : forall ds view d ob,
  step_ok ds view (Deliver d) ob = true ->
  (forall l, In l (o_sets ob) -> l <> []) /\
  (forall k, In k (concat (o_sets ob)) -> eligible ds (lookup view k) = true /\ In k (keys_of d)) /\
  (has_read_fault d = true -> concat (o_sets ob) = []) /\
  (no_fault d = true -> forall k, In k (keys_of d) -> eligible ds (lookup view k) = true ->
                        In k (concat (o_sets ob))).
Proof. exact step_ok_reading. Qed.
Print Assumptions C03_judge_delivery_reading.

Theorem C03_judge_never_resigned : forall ds uni ops view os k,
  hist_ok ds uni view ops os = true -> In k uni -> is_done (lookup view k) = true ->
  forall ob, In ob os -> ~ In k (concat (o_sets ob)).
Proof. exact hist_ok_never_resigned. Qed.
Print Assumptions C03_judge_never_resigned.

(* Non-vacuity: a Bitcoin history with a retry after a failed submission, a restart and a repeated
   delivery; and two overlapping sessions: [(1,0); (1,1); (1,2)] is in flight, a retry releases (1,1)
   and (1,2), a second session over [(1,2); (1,1)] succeeds, then the first one fails - only (1,0) is
   marked failed and signed again. *)
Example C03_nonvacuous :
  map (fun x => signed_of (snd x))
      (trace BTC (mkstate [((1, 0), Done)] [])
         [Deliver [((1, 0), NoFault); ((1, 1), NoFault); ((1, 2), NoFault)];
          ExecFail (plain [(1, 1)]); ExecOk (plain [(1, 2)]); Restart;
          Deliver [((1, 0), NoFault); ((1, 1), NoFault); ((1, 2), NoFault)];
          Deliver [((1, 1), NoFault)]])
  = [[(1, 1); (1, 2)]; []; []; []; [(1, 1)]; []] /\
  (let ops := [Deliver [((1, 0), NoFault); ((1, 1), NoFault); ((1, 2), NoFault)];
               Release (plain [(1, 1); (1, 2)]);
               Deliver [((1, 2), NoFault); ((1, 1), NoFault)];
               ExecOk (plain [(1, 2); (1, 1)]);
               ExecFail (plain [(1, 0); (1, 1); (1, 2)]);
               Deliver [((1, 0), NoFault); ((1, 1), NoFault); ((1, 2), NoFault)]] in
   map (fun x => signed_of (snd x)) (trace BTC (mkstate [] []) ops)
   = [[(1, 0); (1, 1); (1, 2)]; []; [(1, 2); (1, 1)]; []; []; [(1, 0)]] /\
   map (fun o => o_snap o) (model_obs BTC [(1, 0); (1, 1); (1, 2)] (mkstate [] []) ops)
   = [[Pending; Pending; Pending]; [Pending; Failed; Failed]; [Pending; Pending; Pending];
      [Pending; Done; Done]; [Failed; Done; Done]; [Pending; Done; Done]]) /\
  evm_select [((1, 0), Executed); ((1, 1), NotExecuted)] = Ok [(1, 1)] /\
  old_sub_select [((1, 0), Executed); ((1, 1), NotExecuted)] = Ok [(1, 0); (1, 1)].
Proof. vm_compute. repeat split. Qed.

(* ---- store faults at the status reads / writes of a session end or of a retry release: every op that
   goes through the status store carries, per transfer it names, the fault met there (ReadErr: the read made
   for it fails; WriteErr: the write made for it fails).  C03_executed_is_final, C03_sound_at_every_step,
   C03_never_resigned and the judge theorems above quantify over ALL such placements. ---- *)

(* the end of a failing execution: a transfer is marked failed iff a read AND the write made for it go
   through and its record does not say executed - a transfer whose guard read fails keeps its record *)
Theorem C03_failed_end_with_faults : forall s inf b k,
  subset (keys_of b) inf = true ->
  lookup (st (fst (step BTC (mkstate s inf) (ExecFail b)))) k =
  if kmem k (nofault_keys b) && negb (is_done (lookup s k)) then Failed else lookup s k.
Proof. exact failed_end_with_faults. Qed.
Print Assumptions C03_failed_end_with_faults.

Theorem C03_faulted_transfer_untouched : forall s inf b k,
  (forall f, In (k, f) b -> f <> NoFault) ->
  lookup (st (fst (step BTC (mkstate s inf) (ExecFail b)))) k = lookup s k /\
  lookup (st (fst (step BTC (mkstate s inf) (Release b)))) k = lookup s k.
Proof. exact faulted_end_untouched. Qed.
Print Assumptions C03_faulted_transfer_untouched.

Theorem C03_ok_end_with_faults : forall s inf b k,
  subset (keys_of b) inf = true ->
  lookup (st (fst (step BTC (mkstate s inf) (ExecOk b)))) k =
  if kmem k (written_keys b) then Done else lookup s k.
Proof. exact ok_end_with_faults. Qed.
Print Assumptions C03_ok_end_with_faults.

Theorem C03_release_with_faults : forall s inf b k,
  lookup (st (fst (step BTC (mkstate s inf) (Release b)))) k =
  if kmem k (nofault_keys b) && is_pending (lookup s k) then Failed else lookup s k.
Proof. exact release_with_faults. Qed.
Print Assumptions C03_release_with_faults.

Theorem C03_fault_free_ops : forall b,
  keys_of (plain b) = b /\ nofault_keys (plain b) = b /\ written_keys (plain b) = b.
Proof. exact (fun b => conj (keys_of_plain b) (conj (nofault_keys_plain b) (written_keys_plain b))). Qed.
Print Assumptions C03_fault_free_ops.

(* Non-vacuity: [P; Q] in flight, a retry releases P, the overlapping execution of P succeeds, the first
   execution fails and cannot read P's record: P stays executed and only Q is signed again; the judge rejects
   an implementation that marks P failed there (and then signs it again). *)
Example C03_read_fault_nonvacuous :
  let uni := [(1, 7); (1, 8)] in
  map (fun x => signed_of (snd x)) (trace BTC (mkstate [] []) w_read_fault_ops)
    = [[(1, 7); (1, 8)]; []; [(1, 7)]; []; []; [(1, 8)]] /\
  map (fun o => o_snap o) (model_obs BTC uni (mkstate [] []) w_read_fault_ops)
    = [[Pending; Pending]; [Failed; Pending]; [Pending; Pending]; [Done; Pending]; [Done; Failed]; [Done; Pending]] /\
  hist_ok BTC uni (combine uni (snapshot uni [])) w_read_fault_ops
    [mkobs 0 [[(1, 7); (1, 8)]] [Pending; Pending]; mkobs 0 [] [Failed; Pending]; mkobs 0 [[(1, 7)]] [Pending; Pending];
     mkobs 0 [] [Done; Pending]; mkobs 0 [] [Failed; Failed]; mkobs 0 [[(1, 7); (1, 8)]] [Pending; Pending]] = false.
Proof. vm_compute. repeat split. Qed.

(* ---- concurrent Bitcoin histories: ONE shared prop store used at the same time by the BTC executor(s) and,
   without any lock, by the retry handlers (Model/C03_Conc.v).  [conc_run init re ths sched]: the threads [ths]
   perform their op lists on the shared store in the order [sched] picks; [cproj i]: the history of thread i -
   per op its error class, its signing sets and the status of every transfer it can name; [solo]: the
   sequential model of that thread alone on the initial store.  [conc_wf]: the threads' own transfers are
   pairwise disjoint, the shared ones are recorded executed, every thread names only its own and the shared
   ones. ---- *)

(* an op of another thread does not touch what it does not name, and nobody changes an executed record *)
Theorem C03_conc_frame : forall s o k,
  ~ In k (op_keys o) -> lookup (st (fst (step BTC s o))) k = lookup (st s) k.
Proof. exact step_frame. Qed.
Print Assumptions C03_conc_frame.

Theorem C03_executed_read_only : forall s o k,
  is_done (lookup (st s) k) = true -> lookup (st (fst (step BTC s o))) k = lookup (st s) k.
Proof. exact step_done_keep. Qed.
Print Assumptions C03_executed_read_only.

(* under EVERY schedule the history of a thread - signing sets included - is the beginning of its solo
   history: the ops of the other threads commute with its own as far as it can tell *)
Theorem C03_disjoint_threads_pointwise : forall init re ths sched i t,
  conc_wf init re ths = true -> nth_error ths i = Some t ->
  exists rest, solo init re t = cproj i (conc_run init re ths sched) ++ rest.
Proof. exact disjoint_threads_pointwise. Qed.
Print Assumptions C03_disjoint_threads_pointwise.

(* a thread that has performed all of its ops: exactly its solo history, and the sequential judge of the run
   (hist_ok on the thread's own history) accepts it - this is what justifies judging per goroutine *)
Theorem C03_conc_complete_thread : forall init re ths sched i t,
  conc_wf init re ths = true -> nth_error ths i = Some t ->
  length (cproj i (conc_run init re ths sched)) = length (t_ops t) ->
  cproj i (conc_run init re ths sched) = solo init re t /\
  thread_ok init re t (cproj i (conc_run init re ths sched)) = true.
Proof. exact conc_complete_thread. Qed.
Print Assumptions C03_conc_complete_thread.

Theorem C03_conc_schedule_independent : forall init re ths sched1 sched2 i t,
  conc_wf init re ths = true -> nth_error ths i = Some t ->
  length (cproj i (conc_run init re ths sched1)) = length (t_ops t) ->
  length (cproj i (conc_run init re ths sched2)) = length (t_ops t) ->
  cproj i (conc_run init re ths sched1) = cproj i (conc_run init re ths sched2).
Proof. exact conc_schedule_independent. Qed.
Print Assumptions C03_conc_schedule_independent.

(* for ALL thread sets (disjoint or not) and ALL schedules: a transfer recorded executed is in no signing set
   of any thread *)
Theorem C03_conc_never_resigned : forall init re ths sched k,
  is_done (lookup init k) = true ->
  forall e, In e (conc_run init re ths sched) -> ~ In k (concat (o_sets (snd e))).
Proof. exact conc_never_resigned. Qed.
Print Assumptions C03_conc_never_resigned.

(* and what the per-thread judge accepts: no transfer recorded executed - the shared ones in particular - is
   in any signing set of that thread *)
Theorem C03_conc_judge_never_resigned : forall init re t os k,
  thread_ok init re t os = true -> In k (t_view re t) -> is_done (lookup init k) = true ->
  forall ob, In ob os -> ~ In k (concat (o_sets ob)).
Proof. exact thread_ok_never_resigned. Qed.
Print Assumptions C03_conc_judge_never_resigned.

(* Non-vacuity: an executor thread (own transfers (1,1), (1,2)) and a retry thread (own transfer (2,1), stuck
   pending) next to the shared executed transfer (1,9): the executor signs its own two transfers and never
   (1,9), the retry releases (2,1); the same per-thread histories under two different schedules. *)
Definition cw_init : store := [((1, 9), Done); ((2, 1), Pending)].
Definition cw_ths : list thread :=
  [mkthread [(1, 1); (1, 2)] [Deliver [((1, 9), NoFault); ((1, 1), NoFault); ((1, 2), NoFault)]; ExecOk (plain [(1, 1); (1, 2)]);
                              Deliver [((1, 1), NoFault); ((1, 9), NoFault)]];
   mkthread [(2, 1)] [Release (plain [(2, 1); (1, 9)]); Release (plain [(1, 9)])]].
Example C03_conc_nonvacuous :
  conc_wf cw_init [(1, 9)] cw_ths = true /\
  map (fun e => (fst e, o_sets (snd e))) (conc_run cw_init [(1, 9)] cw_ths [0; 1; 0; 1; 0]%nat)
    = [(0%nat, [[(1, 1); (1, 2)]]); (1%nat, []); (0%nat, []); (1%nat, []); (0%nat, [])] /\
  cproj 0 (conc_run cw_init [(1, 9)] cw_ths [0; 1; 0; 1; 0]%nat) = cproj 0 (conc_run cw_init [(1, 9)] cw_ths [1; 1; 0; 0; 0]%nat) /\
  map o_snap (cproj 1 (conc_run cw_init [(1, 9)] cw_ths [1; 1; 0; 0; 0]%nat)) = [[Failed; Done]; [Failed; Done]].
Proof. vm_compute. repeat split. Qed.
