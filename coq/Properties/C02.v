(* C02 - The signed digest is the bridge's EIP-712 commitment to the exact batch; the signature is
   submitted as the 65-byte r || s || v.
   Only the property theorems (each closed by [exact]) and Print Assumptions. *)
From Coq Require Import List NArith Bool String.
Import ListNotations.
From SygmaV Require Import Lib.Hex Lib.C02_Keccak Model.C02 Proofs.C02 Proofs.C02_Exec Proofs.C02_Hist.
Local Open Scope N_scope.

(* For EVERY hash function with 32-byte output, all domains (name, version, chain id < 2^63,
   20-byte contract) and all batches (any length, any data, uint8 domains, uint64 nonces, 32-byte
   resource ids): two different (domain, batch) pairs have different digests - any change of any
   field, of the order, of the batch length, of the version, of the chain id or of the contract
   address changes the digest - unless the two computations exhibit a collision of the hash
   function itself.  No other property of the hash function is assumed. *)
Theorem C02_digest_injective_or_collision :
  forall (H : list N -> list N), (forall x, List.length (H x) = 32%nat) ->
  forall d d' ps ps',
    wf_domain d = true -> wf_domain d' = true ->
    forallb wf_proposal ps = true -> forallb wf_proposal ps' = true ->
    digest H d ps = digest H d' ps' ->
    (d, ps) = (d', ps') \/ exists x y, x <> y /\ H x = H y.
Proof.
  intros H HL d d' ps ps' Hd Hd' Hp Hp'.
  exact (digest_injective_or_collision H HL d d' ps ps' (wf_domain_wfd d Hd) (wf_domain_wfd d' Hd')
           (forallb_wfp ps Hp) (forallb_wfp ps' Hp')).
Qed.
Print Assumptions C02_digest_injective_or_collision.

(* the same for the concrete keccak-256 the relayer and the contract use (the 32-byte-output
   hypothesis is discharged) *)
Theorem C02_digest_injective_keccak :
  forall d d' ps ps',
    wf_domain d = true -> wf_domain d' = true ->
    forallb wf_proposal ps = true -> forallb wf_proposal ps' = true ->
    digest keccak256 d ps = digest keccak256 d' ps' ->
    (d, ps) = (d', ps') \/ exists x y, x <> y /\ keccak256 x = keccak256 y.
Proof. exact (C02_digest_injective_or_collision keccak256 keccak256_length). Qed.
Print Assumptions C02_digest_injective_keccak.

(* the digest is a function of exactly (hash function, domain, batch): nothing else enters, so every
   relayer that sees the same batch for the same destination computes the same 32 bytes *)
Theorem C02_digest_deterministic :
  forall H d d' ps ps', d = d' -> ps = ps' -> digest H d ps = digest H d' ps'.
Proof. intros H d d' ps ps' -> ->. reflexivity. Qed.
Print Assumptions C02_digest_deterministic.

(* signature assembly, for every r, s < 2^256 - including those whose minimal big-endian encoding
   (what tss-lib hands over) is shorter than 32 bytes, down to the empty encoding of 0 *)
Theorem C02_sig_closed_form : forall r s recid, r < 2 ^ 256 -> s < 2 ^ 256 ->
  sig_assemble r s recid = Some (u256 r ++ u256 s ++ [(recid + 27) mod 256]).
Proof. exact sig_assemble_closed. Qed.
Print Assumptions C02_sig_closed_form.

Theorem C02_sig_length_65 : forall r s recid sig, r < 2 ^ 256 -> s < 2 ^ 256 ->
  sig_assemble r s recid = Some sig -> List.length sig = 65%nat.
Proof. exact sig_length_65. Qed.
Print Assumptions C02_sig_length_65.

Theorem C02_sig_parse_back : forall r s recid sig, r < 2 ^ 256 -> s < 2 ^ 256 ->
  sig_assemble r s recid = Some sig ->
  be_to_N (firstn 32 sig) = r /\ be_to_N (firstn 32 (skipn 32 sig)) = s /\
  skipn 64 sig = [(recid + 27) mod 256].
Proof. exact sig_parse_back. Qed.
Print Assumptions C02_sig_parse_back.

Theorem C02_sig_v : forall r s recid sig, r < 2 ^ 256 -> s < 2 ^ 256 -> recid <= 1 ->
  sig_assemble r s recid = Some sig ->
  exists v, skipn 64 sig = [v] /\ v = 27 + recid /\ (v = 27 \/ v = 28).
Proof. exact sig_v. Qed.
Print Assumptions C02_sig_v.

(* the judge used on the implementation's bytes accepts the model on every input ... *)
Theorem C02_sig_ok_model : forall r s recid, r < 2 ^ 256 -> s < 2 ^ 256 -> recid <= 1 ->
  exists sig, sig_assemble r s recid = Some sig /\ sig_ok r s recid sig = true.
Proof. exact sig_ok_model. Qed.
Print Assumptions C02_sig_ok_model.

(* ... and whatever it accepts has the r || s || v format *)
Theorem C02_sig_ok_sound : forall r s recid sig, sig_ok r s recid sig = true ->
  List.length sig = 65%nat /\ be_to_N (firstn 32 sig) = r /\ be_to_N (firstn 32 (skipn 32 sig)) = s /\
  exists v, skipn 64 sig = [v] /\ v = 27 + recid /\ (v = 27 \/ v = 28).
Proof. exact sig_ok_sound. Qed.
Print Assumptions C02_sig_ok_sound.

(* ---- a signing session and its batch ------------------------------------------------------------
   [session_ok] is the judge used on what the real Executor.Execute did in a session (the batch the
   session id stands for, the 32 bytes the submitted signature is a signature of, the batch that was
   submitted with it).  For EVERY hash function with 32-byte output: if the judge accepts, then the
   value handed to signing is the EIP-712 digest of the session's batch, the submitted batch hashes
   to the value that was signed, and the submitted batch IS the session's batch - same proposals,
   same order, nothing left out or added - unless the two computations exhibit a collision of H. *)
Theorem C02_signed_is_submitted :
  forall (H : list N -> list N), (forall x, List.length (H x) = 32%nat) ->
  forall d s,
    wf_domain d = true -> forallb wf_proposal (s_batch s) = true ->
    forallb wf_proposal (s_submitted s) = true ->
    session_ok H d s = true ->
    s_signed s = digest H d (s_batch s) /\ digest H d (s_submitted s) = s_signed s /\
    (s_submitted s = s_batch s \/ exists x y, x <> y /\ H x = H y).
Proof. exact signed_is_submitted. Qed.
Print Assumptions C02_signed_is_submitted.

(* the judge accepts exactly when both digests are the signed value (no hypothesis at all) ... *)
Theorem C02_session_ok_iff :
  forall H d s, session_ok H d s = true <->
    (digest H d (s_batch s) = s_signed s /\ digest H d (s_submitted s) = digest H d (s_batch s)).
Proof. exact session_ok_iff. Qed.
Print Assumptions C02_session_ok_iff.

(* ... and it accepts the executors as modelled (hash the batch, sign that value, submit the batch)
   for every hash function, destination and batch *)
Theorem C02_session_ok_model :
  forall H d b, session_ok H d (model_session H d b) = true.
Proof. exact session_ok_model. Qed.
Print Assumptions C02_session_ok_model.

(* ---- a whole call of Execute.  [exec_ok H d ss crashed] is the judge on what was observed of the real
   Executor.Execute on one delivery: the sessions (each: the batch its session id stands for - position <i>
   of the real batch list for <messageID>-<i>, empty batches included in the counting -, the value that was
   signed under it, the batch submitted with the signature) and whether the call crashed.  It accepts iff
   every session satisfies [session_ok] and the call did not crash (a Go panic while the digests are obtained
   and handed over leaves batches without the value that was to be signed for them); *)
Theorem C02_exec_ok_sound :
  forall H d ss crashed, exec_ok H d ss crashed = true ->
    crashed = false /\ forall s, In s ss -> session_ok H d s = true.
Proof. exact exec_ok_sound. Qed.
Print Assumptions C02_exec_ok_sound.

(* it accepts Execute as modelled - one session per NON-EMPTY batch of the batch list, each with the digest of
   its own batch, no crash - for every hash function, destination and batch list (empty batches anywhere) *)
Theorem C02_exec_ok_model :
  forall H d bs, exec_ok H d (fst (model_exec H d bs)) (snd (model_exec H d bs)) = true.
Proof. exact exec_ok_model. Qed.
Print Assumptions C02_exec_ok_model.

(* NOT the code: digests computed up front into a slice that skips the empty batches, looked up with the
   position in the unfiltered batch list.  Without an empty batch it is the code ... *)
Theorem C02_filtered_index_no_empty :
  forall H d bs, forallb nonempty_batch bs = true -> filtered_index_exec H d bs = model_exec H d bs.
Proof. exact filtered_index_no_empty. Qed.
Print Assumptions C02_filtered_index_no_empty.

(* ---- the digest is a function of its arguments only, whatever was hashed before or at the same time:
   the judge [multi_ok ds seen] (ds = the model digests of some argument tuples, seen = every answer the
   implementation gave for tuple number i during a history / under concurrent use) accepts iff every
   answer for tuple i is ds[i]; a function of the arguments is accepted for every history. *)
Theorem C02_multi_ok_sound :
  forall ds seen, multi_ok ds seen = true -> forall i x, In (i, x) seen -> nth_error ds i = Some x.
Proof. exact multi_ok_sound. Qed.
Print Assumptions C02_multi_ok_sound.

Theorem C02_multi_ok_model :
  forall ds idxs, (forall i, In i idxs -> (i < List.length ds)%nat) ->
    multi_ok ds (map (fun i => (i, nth i ds [])) idxs) = true.
Proof. exact multi_ok_model. Qed.
Print Assumptions C02_multi_ok_model.

(* ---- histories on long-lived digest objects (one BridgeContract / Pallet per destination, used for every
   batch while the endpoint behind it is not always healthy).  [hist_ok h] is the judge on what the real
   objects answered: h = per request (the EIP-712 digest for the object's REAL chain id and contract and the
   batch of this request, the answer).  It accepts iff every value that came back without an error - i.e.
   every value handed to threshold signing - is that digest, and nothing panicked: *)
Theorem C02_hist_ok_sound :
  forall h, hist_ok h = true -> forall want a, In (want, a) h -> a = AErr \/ a = ADigest want.
Proof. exact hist_ok_sound. Qed.
Print Assumptions C02_hist_ok_sound.

Theorem C02_hist_ok_complete :
  forall h, (forall want a, In (want, a) h -> a = AErr \/ a = ADigest want) -> hist_ok h = true.
Proof. exact hist_ok_complete. Qed.
Print Assumptions C02_hist_ok_complete.

(* it accepts the objects as modelled (one chain-id call per request, its error returned, nothing kept) for
   every hash function and every history of requests - to any number of objects, healthy or failing RPC in
   any pattern; *)
Theorem C02_hist_ok_model :
  forall H qs, hist_ok (model_hist H qs) = true.
Proof. exact hist_ok_model. Qed.
Print Assumptions C02_hist_ok_model.

(* and what the model answers to a request is the same after every prefix and before every suffix *)
Theorem C02_hist_independent :
  forall H pre q post,
    nth_error (model_hist H (pre ++ q :: post)) (List.length pre) = Some (want_of H q, model_answer H q).
Proof. exact model_hist_independent. Qed.
Print Assumptions C02_hist_independent.

(* NOT the code: an object that asks for the chain id once and keeps it in a field, handing the error of that
   one call only to the request that made it.  When the first call is healthy nothing shows on that object ... *)
Theorem C02_once_cache_healthy_first :
  forall H d q qs, q_rpc_fails q = false -> (forall q', In q' (q :: qs) -> q_dom q' = d) ->
    hist_ok (once_hist H None (q :: qs)) = true.
Proof. exact once_cache_healthy_first. Qed.
Print Assumptions C02_once_cache_healthy_first.

(* ... when it fails, the next request - healthy endpoint - is answered, without error, with the digest for
   chain id 0: the judge rejects the history *)
Theorem C02_once_cache_refuted :
  exists (H : list N -> list N) d q1 q2,
    (forall x, List.length (H x) = 32%nat) /\ wf_domain d = true /\
    q_dom q1 = d /\ q_dom q2 = d /\ q_rpc_fails q1 = true /\ q_rpc_fails q2 = false /\
    hist_ok (once_hist H None [q1; q2]) = false /\
    nth_error (once_hist H None [q1; q2]) 1 =
      Some (digest H d (q_batch q2), ADigest (digest H (with_chain d 0) (q_batch q2))).
Proof. exact once_cache_refuted. Qed.
Print Assumptions C02_once_cache_refuted.

(* Non-vacuity of the history statements (cheap mixing function in place of keccak, the statements hold for
   every H): a history with a failing first request is accepted as modelled; answering the second request
   with the digest of another chain id, or with a panic, is rejected. *)
Example C02_hist_nonvacuous :
  let q := {| p_origin := 1; p_nonce := 7; p_rid := repeat 3 32; p_data := [] |} in
  let d := bridge_domain 5 (repeat 17 20) in
  let M := 2 ^ 256 in
  let mix := fun x : list N => u256 (fold_left (fun a b => a * 3 + b + 1) x 0 mod M) in
  let q1 := {| q_dom := d; q_batch := [q]; q_rpc_fails := true |} in
  let q2 := {| q_dom := d; q_batch := [q; q]; q_rpc_fails := false |} in
  model_hist mix [q1; q2] = [(digest mix d [q], AErr); (digest mix d [q; q], ADigest (digest mix d [q; q]))] /\
  hist_ok (model_hist mix [q1; q2]) = true /\
  hist_ok [(digest mix d [q], AErr); (digest mix d [q; q], ADigest (digest mix (with_chain d 0) [q; q]))] = false /\
  hist_ok [(digest mix d [q], AErr); (digest mix d [q; q], APanic)] = false.
Proof. vm_compute. repeat split. Qed.

(* Non-vacuity: the vector pinned in chains/proposal_test.go, computed by the model over the Gallina
   keccak-256; a short-r signature. *)
Example C02_nonvacuous :
  let p := {| p_origin := 1; p_nonce := 15078986465725403975;
              p_rid := 3 :: repeat 0 31;
              p_data := unhex "00000000000000000000000000000000000000000000000000005af3107a4000000000000000000000000000000000000000000000000000000000000000002400010100d43593c715fdd31c61141abd04a99fd6822c8558854ccde39a5684e7a56da27d" |} in
  wf_proposal p = true /\ wf_domain (bridge_domain 5 substrate_contract) = true /\
  digest keccak256 (bridge_domain 5 substrate_contract) [p] = unhex "de7b5c9e087ab4f5fb0e9f73a7e5bd0bdf9eeb04aabbd0e8f8de58a204a33e55" /\
  sig_assemble 1 (2 ^ 255) 1 = Some (repeat 0 31 ++ [1] ++ [128] ++ repeat 0 31 ++ [28]).
Proof. vm_compute. repeat split. Qed.

(* Non-vacuity of the session statements.  With keccak-256, an EVM destination and proposals q1, q2
   (empty data) the hypotheses of C02_signed_is_submitted hold for the session as the executors run
   it.  That the judge discriminates is shown with a cheap 32-byte mixing function in place of
   keccak (the statements hold for every H): a session that submits only [q1] with the signature over
   the digest of [q1; q2] (a member left out after signing), one that submits the members in another
   order, and one whose signed value is the digest of another batch are rejected.  For the
   function-of-the-arguments judge: a history A, B, A is accepted with A's digest for both A queries
   and rejected when the second A query is answered with B's digest. *)
Example C02_session_nonvacuous :
  let q1 := {| p_origin := 1; p_nonce := 7; p_rid := repeat 3 32; p_data := [] |} in
  let q2 := {| p_origin := 1; p_nonce := 8; p_rid := repeat 3 32; p_data := [] |} in
  let d := bridge_domain 5 (repeat 17 20) in
  let M := 2 ^ 256 in
  let mix := fun x : list N => u256 (fold_left (fun a b => a * 3 + b + 1) x 0 mod M) in
  let D := digest mix d [q1; q2] in
  wf_domain d = true /\ forallb wf_proposal [q1; q2] = true /\
  session_ok keccak256 d (model_session keccak256 d [q1; q2]) = true /\
  session_ok mix d (model_session mix d [q1; q2]) = true /\
  session_ok mix d {| s_batch := [q1; q2]; s_signed := D; s_submitted := [q1] |} = false /\
  session_ok mix d {| s_batch := [q1; q2]; s_signed := D; s_submitted := [q2; q1] |} = false /\
  session_ok mix d {| s_batch := [q1]; s_signed := D; s_submitted := [q1] |} = false /\
  multi_ok [[1]; [2]] [(0%nat, [1]); (1%nat, [2]); (0%nat, [1])] = true /\
  multi_ok [[1]; [2]] [(0%nat, [1]); (1%nat, [2]); (0%nat, [2])] = false /\
  (* a delivery whose batch list is [empty; [q1]; [q2]] (q1 alone reaches the gas cap): Execute as modelled
     is accepted; the up-front slice indexed with the unfiltered position signs [q1] with the digest of [q2]
     and runs out of range for [q2]: rejected twice over *)
  exec_ok mix d (fst (model_exec mix d [[]; [q1]; [q2]])) (snd (model_exec mix d [[]; [q1]; [q2]])) = true /\
  filtered_index_exec mix d [[]; [q1]; [q2]] =
    ([{| s_batch := [q1]; s_signed := digest mix d [q2]; s_submitted := [q1] |}], true) /\
  exec_ok mix d (fst (filtered_index_exec mix d [[]; [q1]; [q2]])) false = false /\
  exec_ok mix d [] true = false.
Proof. vm_compute. repeat split. Qed.

(* ... with a leading empty batch it signs a batch with the digest of the next one and crashes *)
Theorem C02_filtered_index_refuted :
  exists (H : list N -> list N) d bs,
    (forall x, List.length (H x) = 32%nat) /\
    exec_ok H d (fst (filtered_index_exec H d bs)) (snd (filtered_index_exec H d bs)) = false /\
    exec_ok H d (fst (filtered_index_exec H d bs)) false = false.
Proof. exact filtered_index_refuted. Qed.
Print Assumptions C02_filtered_index_refuted.
