(* C15 - Bitcoin deposits are recognised and credited to the satoshi; the deposit nonce is a pure
   function of block height and transaction hash.
   Only the property theorems (each closed by [exact]) and Print Assumptions.

   [credited s] is what the (repaired) code credits for an output whose JSON value is the 8-decimal
   literal of s satoshi:  int64(math.Round(RN(s/10^8) * 1e8)), evaluated in IEEE-754 binary64
   (executable model over Coq's SpecFloat, Model/C15.v).  Theorems that mention [credited] rest on
   C15_sat_exact and therefore on the standard library's real-number axioms; the others are closed. *)
From Coq Require Import List ZArith NArith Bool String Reals Permutation.
Import ListNotations.
From SygmaV Require Import Lib.Hex Model.C15 Proofs.C15 Proofs.C15_Payload Proofs.C15_Real Proofs.C15_Seq Proofs.C15_Events.
Local Open Scope Z_scope.

(* ------------------------------------------------------------------------------------------ *)
(* Float -> satoshi *)

(* sat_exact: every amount up to the 21*10^14 satoshi supply is credited to the satoshi *)
Theorem C15_sat_exact : forall s, sat_wf s = true -> credited s = s.
Proof. exact sat_exact. Qed.
Print Assumptions C15_sat_exact.

(* its real-number core: two correctly rounded binary64 operations move s by less than 1/2 *)
Theorem C15_sat_two_roundings : forall s : Z, 1 <= s <= 2100000000000000 ->
  (Rabs (rnd (rnd (IZR s / 100000000) * 100000000) - IZR s) < / 2)%R.
Proof. exact sat_two_roundings. Qed.
Print Assumptions C15_sat_two_roundings.

(* The conversion as coded BEFORE the repair (int64(value*1e8), truncation) is refuted ... *)
Theorem C15_old_sat_exact_refuted : exists s, sat_wf s = true /\ old_credited s <> s.
Proof. exact old_credited_refuted. Qed.
Print Assumptions C15_old_sat_exact_refuted.

(* ... and made a fee paid exactly at the threshold insufficient. *)
Theorem C15_old_fee_threshold_refuted : exists outs r faddr,
  oprets_wf outs = true /\ sats_wf outs = true /\ is_deposit_spec outs r faddr = true /\
  decode old_credited outs r faddr = NotDeposit.
Proof. exact old_fee_threshold_refuted. Qed.
Print Assumptions C15_old_fee_threshold_refuted.

(* ------------------------------------------------------------------------------------------ *)
(* DecodeDepositEvent, for every output list (any number of bridge outputs, non-Taproot bridge
   outputs, fee outputs of any type, any number of OP_RETURNs), resource and fee address *)

(* deposit_iff *)
Theorem C15_deposit_iff : forall outs r faddr,
  oprets_wf outs = true -> sats_wf outs = true ->
  ((exists a d, decode credited outs r faddr = IsDeposit a d) <->
   (pays_bridge outs r = true /\ r_fee r <= fee_sum outs faddr)).
Proof. exact (deposit_iff credited sat_exact). Qed.
Print Assumptions C15_deposit_iff.

(* amount_is_taproot_sum (and the data is the payload of the last OP_RETURN) *)
Theorem C15_amount_is_taproot_sum : forall outs r faddr a d,
  oprets_wf outs = true -> sats_wf outs = true ->
  decode credited outs r faddr = IsDeposit a d -> a = taproot_sum outs r /\ d = last_payload outs.
Proof. exact (amount_is_taproot_sum credited sat_exact). Qed.
Print Assumptions C15_amount_is_taproot_sum.

(* as coded, for ANY conversion [cv]: the amount is the sum of the converted Taproot bridge outputs
   and a deposit is recognised iff the bridge address is paid and the converted fee sum suffices *)
Theorem C15_decode_closed : forall cv outs r faddr, oprets_wf outs = true ->
  decode cv outs r faddr =
    if pays_bridge outs r && (r_fee r <=? cv_sum cv (to_fee faddr) outs)
    then IsDeposit (cv_sum cv (fun o => to_bridge r o && is_taproot o) outs) (last_payload outs)
    else NotDeposit.
Proof. exact decode_closed. Qed.
Print Assumptions C15_decode_closed.

(* an undecodable or too short OP_RETURN script abandons the transaction *)
Theorem C15_decode_malformed : forall cv outs r faddr, oprets_wf outs = false ->
  decode cv outs r faddr = DecErr \/ decode cv outs r faddr = DecPanic.
Proof. intros cv outs r faddr. exact (decode_go_malformed cv r faddr outs 0 0 false []). Qed.
Print Assumptions C15_decode_malformed.

(* the judge accepts the model on every transaction, and what it accepts is the statement *)
Theorem C15_decode_ok_model : forall outs r faddr,
  decode_ok outs r faddr (decode credited outs r faddr) = true.
Proof. exact (decode_ok_model credited sat_exact). Qed.
Print Assumptions C15_decode_ok_model.

Theorem C15_decode_ok_sound : forall outs r faddr obs,
  oprets_wf outs = true -> sats_wf outs = true -> decode_ok outs r faddr obs = true ->
  match obs with
  | IsDeposit a d =>
      pays_bridge outs r = true /\ r_fee r <= fee_sum outs faddr /\
      a = taproot_sum outs r /\ d = last_payload outs
  | NotDeposit => ~ (pays_bridge outs r = true /\ r_fee r <= fee_sum outs faddr)
  | DecErr | DecPanic => False
  end.
Proof. exact decode_ok_sound. Qed.
Print Assumptions C15_decode_ok_sound.

(* ------------------------------------------------------------------------------------------ *)
(* ProcessDeposits + HandleDeposit *)

(* scaled_exactly: the emitted amount is the exact satoshi sum times 10^10; destination and
   recipient are parsed from the payload of the last OP_RETURN; resource id is the paid
   resource's; wherever that resource sits in the iteration order *)
Theorem C15_scaled_exactly : forall outs faddr h t r rs d n rid a rc,
  oprets_wf outs = true -> sats_wf outs = true -> filter (pays_bridge outs) rs = [r] ->
  process credited nonce outs rs faddr h t = Msg d n rid a rc ->
  pays_bridge outs r = true /\ r_fee r <= fee_sum outs faddr /\
  a = taproot_sum outs r * 10 ^ 10 /\ rid = r_id r /\ n = nonce h t /\
  parse_payload (last_payload outs) = Some (d, rc).
Proof. exact (scaled_exactly credited nonce sat_exact). Qed.
Print Assumptions C15_scaled_exactly.

Theorem C15_process_ok_model : forall outs faddr h t r rs,
  filter (pays_bridge outs) rs = [r] ->
  process_ok outs r faddr (process credited nonce outs rs faddr h t) (nonce h t) = true.
Proof. exact (process_ok_model credited nonce sat_exact). Qed.
Print Assumptions C15_process_ok_model.

Theorem C15_process_ok_sound : forall outs r faddr d n rid a rc n0,
  oprets_wf outs = true -> sats_wf outs = true ->
  process_ok outs r faddr (Msg d n rid a rc) n0 = true ->
  pays_bridge outs r = true /\ r_fee r <= fee_sum outs faddr /\
  a = taproot_sum outs r * 10 ^ 10 /\ rid = r_id r /\ n = n0 /\
  parse_payload (last_payload outs) = Some (d, rc).
Proof. exact process_ok_sound. Qed.
Print Assumptions C15_process_ok_sound.

(* nonce_is_function: whatever the outputs, the conversion, the configured resources, their
   order and the fee address, the nonce of an emitted message is [nonce height txhash] - two
   relayers (or two runs) that see the same (height, hash) emit the same nonce *)
Theorem C15_nonce_is_function : forall cv outs rs faddr h t d n rid a rc,
  process cv nonce outs rs faddr h t = Msg d n rid a rc -> n = nonce h t.
Proof. intros cv outs rs faddr h t. exact (process_nonce cv nonce outs faddr h t rs). Qed.
Print Assumptions C15_nonce_is_function.

(* used by the correspondence run: [process] asks for the nonce of its own (height, hash) only *)
Theorem C15_process_nonce_const : forall cv nf outs faddr h t rs,
  process cv (fun _ _ => nf h t) outs rs faddr h t = process cv nf outs rs faddr h t.
Proof. exact process_nonce_const. Qed.
Print Assumptions C15_process_nonce_const.

(* destination and recipient really are the ones written into the OP_RETURN: the canonical payload
   "0x<40 hex digits>_<decimal domain>" parses back to exactly (domain, recipient), for every
   20-byte recipient and every uint8 domain *)
Theorem C15_payload_roundtrip : forall rcpt dst,
  List.length rcpt = 20%nat -> Forall (fun b => (b < 256)%N) rcpt -> (dst < 256)%N ->
  parse_payload (canonical_payload rcpt dst) = Some (dst, rcpt).
Proof. exact payload_roundtrip. Qed.
Print Assumptions C15_payload_roundtrip.

(* the string that is hashed for the nonce determines (height, hash): different pairs never feed
   the same bytes to SHA-256 *)
Theorem C15_nonce_preimage_inj : forall h t h' t',
  nonce_preimage h t = nonce_preimage h' t' -> h = h' /\ t = t'.
Proof. exact nonce_preimage_inj. Qed.
Print Assumptions C15_nonce_preimage_inj.

(* ------------------------------------------------------------------------------------------ *)
(* Round 4 - histories on ONE long-lived handler (one resources map, one fee address, as app.go
   builds them): blocks of transactions (ProcessDeposits) and single decodes (DecodeDepositEvent)
   in any order *)

(* decoding a transaction never changes the configuration it is decoded against ... *)
Theorem C15_seq_config_unchanged : forall cv nf steps cfg,
  Forall (fun x => fst x = cfg) (seq_run cv nf cfg steps).
Proof. exact seq_run_config. Qed.
Print Assumptions C15_seq_config_unchanged.

(* ... and what a step returns does not depend on what was decoded before it *)
Theorem C15_seq_history_independent : forall cv nf steps cfg,
  map snd (seq_run cv nf cfg steps) = map (fun s => snd (seq_step cv nf cfg s)) steps.
Proof. exact seq_run_independent. Qed.
Print Assumptions C15_seq_history_independent.

(* the per-transaction judge accepts the model for every set of configured resources *)
Theorem C15_tx_ok_model : forall outs rs faddr h t,
  tx_ok outs rs faddr (process credited nonce outs rs faddr h t) (nonce h t) = true.
Proof. exact (tx_ok_model credited nonce sat_exact). Qed.
Print Assumptions C15_tx_ok_model.

(* the history judge accepts the model on every history and every configuration *)
Theorem C15_seq_ok_model : forall steps cfg, seq_ok cfg (model_obs credited nonce cfg steps) = true.
Proof. exact (seq_ok_model credited nonce sat_exact). Qed.
Print Assumptions C15_seq_ok_model.

(* what it accepts: after every step the handler still holds the ORIGINAL configuration, no message
   without a transaction, and every transaction / decode satisfies the per-transaction specification
   (C15_process_ok_sound, C15_decode_ok_sound) against the original configuration *)
Theorem C15_seq_ok_sound : forall cfg obs, seq_ok cfg obs = true ->
  forall o, In o obs ->
  match o with
  | OBlock h txs stray snap f' =>
      stray = false /\ snap = snap_of (fst cfg) /\ f' = snd cfg /\
      forall t, In t txs -> tx_ok (ot_outs t) (fst cfg) (snd cfg) (ot_impl t) (ot_nonce_seen t) = true
  | ODec outs ri impl snap f' =>
      snap = snap_of (fst cfg) /\ f' = snd cfg /\
      forall r, nth_error (fst cfg) ri = Some r -> decode_ok outs r (snd cfg) impl = true
  end.
Proof. exact seq_ok_sound. Qed.
Print Assumptions C15_seq_ok_sound.

Theorem C15_tx_ok_one : forall outs rs r faddr obs n,
  filter (pays_bridge outs) rs = [r] -> tx_ok outs rs faddr obs n = process_ok outs r faddr obs n.
Proof. exact tx_ok_one. Qed.
Print Assumptions C15_tx_ok_one.

Theorem C15_tx_ok_none : forall outs rs faddr obs n,
  oprets_wf outs = true -> sats_wf outs = true -> filter (pays_bridge outs) rs = [] ->
  tx_ok outs rs faddr obs n = true -> obs = NoMsg.
Proof. exact tx_ok_none. Qed.
Print Assumptions C15_tx_ok_none.

(* ------------------------------------------------------------------------------------------ *)
(* Round 5 - HandleEvents, the entry point the listener calls for every block: the messages that
   ProcessDeposits made of the block ([ms], one entry per transaction) are grouped by destination domain
   and every group is sent on the message channel by a goroutine that is handed ITS group.  A transaction
   is treated as a deposit only if its message arrives: what arrives, all batches together, is exactly the
   messages of the block - none lost, none twice (for every block, whatever the destinations) ... *)
Theorem C15_events_no_loss_no_dup : forall ms,
  Permutation (List.concat (sent_batches ms)) (filter is_msg ms).
Proof. exact sent_batches_perm. Qed.
Print Assumptions C15_events_no_loss_no_dup.

Theorem C15_events_arrives_iff : forall ms m,
  In m (List.concat (sent_batches ms)) <-> (In m ms /\ is_msg m = true).
Proof. exact sent_batches_in. Qed.
Print Assumptions C15_events_arrives_iff.

(* ... and every batch is for one destination domain *)
Theorem C15_events_one_dest_per_batch : forall ms b,
  In b (sent_batches ms) -> exists d, forall x, In x b -> msg_dest x = Some d.
Proof. exact sent_batches_one_dest. Qed.
Print Assumptions C15_events_one_dest_per_batch.

(* NOT the code: goroutines that read the loop variable after the loop (go 1.21: one variable per loop) all
   send the batch of the last destination - with two destinations one deposit never arrives and the other one
   arrives twice.  (The run judges what arrives with [seq_ok]: the lost deposit is a paying transaction
   without a message, the second copy is a message without a transaction of its own.) *)
Theorem C15_events_shared_var_refuted :
  exists ms m m', In m ms /\ is_msg m = true /\ ~ In m (List.concat (shared_var_batches ms)) /\
                  List.concat (shared_var_batches ms) = [m'; m'].
Proof. exact shared_var_refuted. Qed.
Print Assumptions C15_events_shared_var_refuted.

(* Non-vacuity: three deposits for two destinations between a transaction that is none. *)
Example C15_events_nonvacuous :
  let a := Msg 2 5 [1%N] 10 [] in let b := Msg 3 6 [1%N] 20 [] in let c := Msg 2 7 [1%N] 30 [] in
  sent_batches [a; NoMsg; b; c] = [[a; c]; [b]] /\
  shared_var_batches [a; NoMsg; b; c] = [[b]; [b]] /\
  (* as the run sees the second: a and c never arrive, b arrives twice *)
  seq_ok ([], ""%string) [OBlock 1 [] true [] ""] = false.
Proof. vm_compute. repeat split. Qed.

(* Non-vacuity of the history judge: it rejects a history in which an underpaying transaction
   lowered the threshold (snapshot differs, then a 1-satoshi fee is accepted) and accepts the
   model's history of the same transactions. *)
Example C15_seq_nonvacuous :
  let bridge := Build_vout "witness_v1_taproot" "" "bridge" 50000 in
  let opr := Build_vout "nulldata" "6a0430785f37" "" 0 in
  let under := [opr; bridge; Build_vout "witness_v1_taproot" "" "fee" 9999] in
  let one := [opr; bridge; Build_vout "witness_v1_taproot" "" "fee" 1] in
  let r := Build_resource "bridge" 10000 [1%N] in
  let cfg : config := ([r], "fee"%string) in
  let steps := [SBlock 100 [Build_stx "aa" under]; SBlock 101 [Build_stx "bb" one]] in
  map snd (seq_run credited nonce cfg steps) = [RBlock [NoMsg]; RBlock [NoMsg]] /\
  seq_ok cfg (model_obs credited nonce cfg steps) = true /\
  seq_ok cfg [OBlock 100 [Build_otx "aa" under NoMsg 0] false [([1%N], Build_resource "bridge" 1 [1%N])] "fee"] = false /\
  seq_ok cfg [OBlock 101 [Build_otx "bb" one (Msg 7 5 [1%N] 500000000000000 (repeat 0%N 20)) 5] false (snap_of [r]) "fee"] = false.
Proof. vm_compute. repeat split. Qed.

(* Non-vacuity: a recognised deposit, the boundary of the fee comparison, and the repaired
   conversion on the witness of the defect. *)
Example C15_nonvacuous :
  let outs := [Build_vout "nulldata" "6a0430785f37" "" 0;
               Build_vout "witness_v1_taproot" "" "bridge" 29000000;
               Build_vout "witness_v0_keyhash" "" "bridge" 5;
               Build_vout "witness_v1_taproot" "" "fee" 58] in
  decode credited outs (Build_resource "bridge" 58 []) "fee" = IsDeposit 29000000 [48; 120; 95; 55]%N /\
  decode credited outs (Build_resource "bridge" 59 []) "fee" = NotDeposit /\
  oprets_wf outs = true /\ sats_wf outs = true /\
  credited 29000000 = 29000000 /\ old_credited 29000000 = 28999999 /\
  process credited nonce outs [Build_resource "bridge" 58 [1%N]] "fee" 100 "ab" =
    Msg 7 (nonce 100 "ab") [1%N] 290000000000000000 (repeat 0%N 20).
Proof. vm_compute. repeat split. Qed.
