(* C16 - Bitcoin withdrawals conserve value and pay each proposal exactly once; the transaction is
   determined by the UTXO set, not by the order in which the service lists it.
   This file contains only the property theorems (each closed by [exact]) and Print Assumptions.

   [raw_tx] is the model of the REPAIRED builder (branch fix-C16: fee-aware sufficiency test in
   rawTx, vout tie-break in mempool.Utxos).  [old_raw_tx] is the code as found; the two
   [C16_old_*_refuted] theorems show that it violates the property, their witnesses are replayed on
   the implementation by corpus/C16.

   [wf ps us rate] (boolean, also satisfied by every generated case): amounts, values, vouts, times
   and the fee rate are non-negative, amounts + values + the fee quote for (all inputs, all outputs)
   stay below 2^63 (no uint64/int64 overflow; 21e14 satoshi exist), and the outpoints of the UTXO set
   are pairwise distinct. *)
From Coq Require Import List ZArith NArith Bool Permutation.
Import ListNotations.
From SygmaV Require Import Model.C16 Proofs.C16.
Local Open Scope Z_scope.

(* One output per proposal, in order, paying exactly its amount to (the script of) its recipient. *)
Theorem C16_one_output_per_proposal : forall ps us rate bridge cid up t,
  wf ps us rate = true -> raw_tx ps us rate bridge cid up = Tx t ->
  all_valid ps = true /\ firstn (length ps) (t_outs t) = map pay ps.
Proof. intros ps us rate bridge cid up t W. exact (one_output_per_proposal _ _ _ _ _ _ _ (wf_wfP _ _ _ W)). Qed.
Print Assumptions C16_one_output_per_proposal.

(* The next output is the zero-value OP_RETURN (0x6a) metadata output. *)
Theorem C16_metadata_zero : forall ps us rate bridge cid up t,
  wf ps us rate = true -> raw_tx ps us rate bridge cid up = Tx t ->
  exists r, nth_error (t_outs t) (length ps) = Some (0, 106%N :: r).
Proof. intros ps us rate bridge cid up t W. exact (metadata_zero _ _ _ _ _ _ _ (wf_wfP _ _ _ W)). Qed.
Print Assumptions C16_metadata_zero.

(* Nothing else, except at most one change output, positive, to the bridge script. *)
Theorem C16_at_most_one_change : forall ps us rate bridge cid up t,
  wf ps us rate = true -> raw_tx ps us rate bridge cid up = Tx t ->
  skipn (length ps + 1) (t_outs t) = [] \/
  exists c, 0 < c /\ skipn (length ps + 1) (t_outs t) = [(c, bridge)].
Proof. intros ps us rate bridge cid up t W. exact (at_most_one_change _ _ _ _ _ _ _ (wf_wfP _ _ _ W)). Qed.
Print Assumptions C16_at_most_one_change.

(* The inputs are the outpoints of pairwise distinct UTXOs of the bridge's set. *)
Theorem C16_inputs_from_bridge_utxos : forall ps us rate bridge cid up t,
  wf ps us rate = true -> raw_tx ps us rate bridge cid up = Tx t ->
  t_ins t = map outpoint (t_used t) /\ NoDup (t_ins t) /\ exists rest, Permutation us (t_used t ++ rest).
Proof. intros ps us rate bridge cid up t W. exact (inputs_from_bridge_utxos _ _ _ _ _ _ _ (wf_wfP _ _ _ W)). Qed.
Print Assumptions C16_inputs_from_bridge_utxos.

Theorem C16_outputs_nonnegative : forall ps us rate bridge cid up t,
  wf ps us rate = true -> raw_tx ps us rate bridge cid up = Tx t ->
  Forall (fun o => 0 <= fst o) (t_outs t).
Proof. intros ps us rate bridge cid up t W. exact (outputs_nonnegative _ _ _ _ _ _ _ (wf_wfP _ _ _ W)). Qed.
Print Assumptions C16_outputs_nonnegative.

(* Inputs minus outputs is the relayer's own fee quote for (number of inputs, proposals + metadata). *)
Theorem C16_conservation : forall ps us rate bridge cid up t,
  wf ps us rate = true -> raw_tx ps us rate bridge cid up = Tx t ->
  values (t_used t) - sumZ (map fst (t_outs t)) = fee_quote (len (t_ins t)) (len ps + 1) rate.
Proof. intros ps us rate bridge cid up t W. exact (conservation _ _ _ _ _ _ _ (wf_wfP _ _ _ W)). Qed.
Print Assumptions C16_conservation.

(* A transaction is built only from inputs that cover the amounts plus the fee quoted for them ... *)
Theorem C16_tx_covers : forall ps us rate bridge cid up t,
  wf ps us rate = true -> raw_tx ps us rate bridge cid up = Tx t ->
  amounts ps + fee_quote (len (t_used t)) (len ps + 1) rate <= values (t_used t) /\ t_used t <> [].
Proof. intros ps us rate bridge cid up t W. exact (tx_covers _ _ _ _ _ _ _ (wf_wfP _ _ _ W)). Qed.
Print Assumptions C16_tx_covers.

(* ... so when even all UTXOs together miss amounts + the quote for one input, there is none. *)
Theorem C16_insufficient_no_tx : forall ps us rate bridge cid up,
  wf ps us rate = true -> cannot_cover ps us rate = true -> raw_tx ps us rate bridge cid up = Err.
Proof. intros ps us rate bridge cid up W. exact (insufficient_no_tx _ _ _ _ _ _ (wf_wfP _ _ _ W)). Qed.
Print Assumptions C16_insufficient_no_tx.

(* An invalid recipient anywhere: no transaction (no well-formedness assumption at all). *)
Theorem C16_bad_recipient_no_tx : forall ps us rate bridge cid up,
  all_valid ps = false -> raw_tx ps us rate bridge cid up = Err.
Proof. exact bad_recipient_no_tx. Qed.
Print Assumptions C16_bad_recipient_no_tx.

(* The listing order is irrelevant: any two listings of a set with distinct outpoints give the same
   result (transaction or error).  Uses only that the repaired order is total on distinct outpoints:
   every sorting algorithm - in particular Go's sort.Slice - then computes the same list. *)
Theorem C16_order_independent : forall ps us us' rate bridge cid up,
  Permutation us us' -> NoDup (map raw_outpoint us) ->
  raw_tx ps us rate bridge cid up = raw_tx ps us' rate bridge cid up.
Proof. exact order_independent. Qed.
Print Assumptions C16_order_independent.

Theorem C16_sorted_unique : forall l1 l2,
  Sorted.StronglySorted le l1 -> Sorted.StronglySorted le l2 -> Permutation l1 l2 ->
  NoDup (map raw_outpoint l1) -> l1 = l2.
Proof.
  intros l1 l2 S1 S2 P Hnd. apply sorted_unique; [exact S1|exact S2|exact P|].
  intros a b Ha Hb Hab Hba. eapply NoDup_map_inj; [exact Hnd|exact Ha|exact Hb|].
  apply le_antisym_key; assumption.
Qed.
Print Assumptions C16_sorted_unique.

(* The judge of the correspondence run ([spec_all]: every run obeys [spec_one], all runs equal)
   accepts the model on every well-formed input and every family of listings of the set ... *)
Theorem C16_spec_all_model : forall ps us rate bridge cid up listings,
  wf ps us rate = true -> Forall (Permutation us) listings ->
  spec_all ps us bridge (map (fun l => project ps rate (raw_tx ps l rate bridge cid up)) listings) = true.
Proof. intros ps us rate bridge cid up listings W. exact (spec_all_model _ _ _ _ _ _ _ (wf_wfP _ _ _ W)). Qed.
Print Assumptions C16_spec_all_model.

(* ... and any transaction it accepts (outputs taken as a multiset; [quote] = what the relayer's
   own fee function returns for this shape) has the stated properties ... *)
Theorem C16_tx_ok_sound : forall ps us bridge ins outs quote,
  tx_ok ps us bridge ins outs quote = true ->
  all_valid ps = true /\
  (exists m change, is_meta m = true /\ (change = [] \/ exists c, change = [(c, bridge)]) /\
                    Permutation outs (map pay ps ++ m :: change)) /\
  Forall (fun o => 0 <= fst o) outs /\
  exists used, ins = map outpoint used /\ NoDup ins /\ incl used us /\
               values used - sumZ (map fst outs) = quote.
Proof. exact tx_ok_sound. Qed.
Print Assumptions C16_tx_ok_sound.

(* ... in particular its inputs cover amounts plus quote: none is accepted from a set that cannot. *)
Theorem C16_tx_ok_covers : forall ps us bridge ins outs quote,
  tx_ok ps us bridge ins outs quote = true ->
  exists used, ins = map outpoint used /\ NoDup ins /\ incl used us /\ amounts ps + quote <= values used.
Proof. exact tx_ok_covers. Qed.
Print Assumptions C16_tx_ok_covers.

(* The code as found (sufficiency test without the fee; ties of (time, txid) left in listing order)
   violates conservation / non-negativity and order independence. *)
Theorem C16_old_conservation_refuted :
  wf w_props w_utxos 1 = true /\
  exists t, old_raw_tx w_props w_utxos 1 w_bridge [81; 109]%N true = Tx t /\ In (-1140, w_bridge) (t_outs t).
Proof. exact old_conservation_refuted. Qed.
Print Assumptions C16_old_conservation_refuted.

Theorem C16_old_order_refuted :
  wf w_props w_two 1 = true /\ Permutation w_two (rev w_two) /\
  project w_props 1 (old_raw_tx w_props w_two 1 w_bridge [81; 109]%N true)
  <> project w_props 1 (old_raw_tx w_props (rev w_two) 1 w_bridge [81; 109]%N true).
Proof. exact old_order_refuted. Qed.
Print Assumptions C16_old_order_refuted.

(* Non-vacuity: a well-formed input on which a transaction with change is built (2 proposals,
   3 UTXOs of one transaction listed out of order), and the same set reversed. *)
Definition ex_props : list prop :=
  [mkProp 1000 (Valid P2WPKH (repeat 1%N 20)); mkProp 2500 (Valid P2TR (repeat 2%N 32))].
Definition ex_utxos : list utxo :=
  [mkUtxo w_id 2 5000 1700000000; mkUtxo w_id 0 4000 1700000000; mkUtxo w_id 1 9000 1700000000].
Example C16_nonvacuous :
  wf ex_props ex_utxos 3 = true /\
  project ex_props 3 (raw_tx ex_props ex_utxos 3 w_bridge [81; 109]%N true)
  = Some ([(w_id, 0); (w_id, 1)],
          [(1000, script_of P2WPKH (repeat 1%N 20)); (2500, script_of P2TR (repeat 2%N 32));
           (0, [106; 6; 115; 121; 103; 95; 81; 109]%N); (9500 - 2310, w_bridge)], 2310) /\
  raw_tx ex_props (rev ex_utxos) 3 w_bridge [81; 109]%N true = raw_tx ex_props ex_utxos 3 w_bridge [81; 109]%N true /\
  raw_tx ex_props [mkUtxo w_id 0 4909 1700000000] 3 w_bridge [81; 109]%N true = Err /\
  (exists t, raw_tx ex_props [mkUtxo w_id 0 4910 1700000000] 3 w_bridge [81; 109]%N true = Tx t /\ length (t_outs t) = 3%nat).
Proof. vm_compute. repeat split. eexists. split; reflexivity. Qed.
