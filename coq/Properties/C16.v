(* C16 - Bitcoin withdrawals conserve value and pay each proposal exactly once; the transaction is
   determined by the UTXO set, not by the order in which the service lists it.
   This file contains only the property theorems (each closed by [exact]) and Print Assumptions.

   [raw_tx] is the model of the REPAIRED builder (branch fix-C16: fee-aware sufficiency test in
   rawTx, vout tie-break in mempool.Utxos).  [old_raw_tx] is the code as found; the two
   [C16_old_*_refuted] theorems show that it violates the property, their witnesses are replayed on
   the implementation by corpus/C16.

   [wf ps us rate] (boolean, also satisfied by every generated case): amounts, values, vouts, times
   and the fee rate are non-negative, amounts + values + the fee quote for (all inputs, all outputs)
   stay below 2^63 (no uint64/int64 overflow; 21e14 satoshi exist), and the outpoints of the UTXO set
   are pairwise distinct. *)
From Coq Require Import List ZArith NArith Bool Permutation.
Import ListNotations.
From SygmaV Require Import Model.C16 Proofs.C16 Proofs.C16_Exec Proofs.C16_Seq Proofs.C16_Dup.
Local Open Scope Z_scope.

(* One output per proposal, in order, paying exactly its amount to (the script of) its recipient. *)
Theorem C16_one_output_per_proposal : forall ps us rate bridge cid up t,
  wf ps us rate = true -> raw_tx ps us rate bridge cid up = Tx t ->
  all_valid ps = true /\ firstn (length ps) (t_outs t) = map pay ps.
Proof. intros ps us rate bridge cid up t W. exact (one_output_per_proposal _ _ _ _ _ _ _ (wf_wfP _ _ _ W)). Qed.
Print Assumptions C16_one_output_per_proposal.

(* The next output is the zero-value OP_RETURN (0x6a) metadata output. *)
Theorem C16_metadata_zero : forall ps us rate bridge cid up t,
  wf ps us rate = true -> raw_tx ps us rate bridge cid up = Tx t ->
  exists r, nth_error (t_outs t) (length ps) = Some (0, 106%N :: r).
Proof. intros ps us rate bridge cid up t W. exact (metadata_zero _ _ _ _ _ _ _ (wf_wfP _ _ _ W)). Qed.
Print Assumptions C16_metadata_zero.

(* Nothing else, except at most one change output, positive, to the bridge script. *)
Theorem C16_at_most_one_change : forall ps us rate bridge cid up t,
  wf ps us rate = true -> raw_tx ps us rate bridge cid up = Tx t ->
  skipn (length ps + 1) (t_outs t) = [] \/
  exists c, 0 < c /\ skipn (length ps + 1) (t_outs t) = [(c, bridge)].
Proof. intros ps us rate bridge cid up t W. exact (at_most_one_change _ _ _ _ _ _ _ (wf_wfP _ _ _ W)). Qed.
Print Assumptions C16_at_most_one_change.

(* The inputs are the outpoints of pairwise distinct UTXOs of the bridge's set. *)
Theorem C16_inputs_from_bridge_utxos : forall ps us rate bridge cid up t,
  wf ps us rate = true -> raw_tx ps us rate bridge cid up = Tx t ->
  t_ins t = map outpoint (t_used t) /\ NoDup (t_ins t) /\ exists rest, Permutation us (t_used t ++ rest).
Proof. intros ps us rate bridge cid up t W. exact (inputs_from_bridge_utxos _ _ _ _ _ _ _ (wf_wfP _ _ _ W)). Qed.
Print Assumptions C16_inputs_from_bridge_utxos.

Theorem C16_outputs_nonnegative : forall ps us rate bridge cid up t,
  wf ps us rate = true -> raw_tx ps us rate bridge cid up = Tx t ->
  Forall (fun o => 0 <= fst o) (t_outs t).
Proof. intros ps us rate bridge cid up t W. exact (outputs_nonnegative _ _ _ _ _ _ _ (wf_wfP _ _ _ W)). Qed.
Print Assumptions C16_outputs_nonnegative.

(* Inputs minus outputs is the relayer's own fee quote for (number of inputs, proposals + metadata). *)
Theorem C16_conservation : forall ps us rate bridge cid up t,
  wf ps us rate = true -> raw_tx ps us rate bridge cid up = Tx t ->
  values (t_used t) - sumZ (map fst (t_outs t)) = fee_quote (len (t_ins t)) (len ps + 1) rate.
Proof. intros ps us rate bridge cid up t W. exact (conservation _ _ _ _ _ _ _ (wf_wfP _ _ _ W)). Qed.
Print Assumptions C16_conservation.

(* A transaction is built only from inputs that cover the amounts plus the fee quoted for them ... *)
Theorem C16_tx_covers : forall ps us rate bridge cid up t,
  wf ps us rate = true -> raw_tx ps us rate bridge cid up = Tx t ->
  amounts ps + fee_quote (len (t_used t)) (len ps + 1) rate <= values (t_used t) /\ t_used t <> [].
Proof. intros ps us rate bridge cid up t W. exact (tx_covers _ _ _ _ _ _ _ (wf_wfP _ _ _ W)). Qed.
Print Assumptions C16_tx_covers.

(* ... so when even all UTXOs together miss amounts + the quote for one input, there is none. *)
Theorem C16_insufficient_no_tx : forall ps us rate bridge cid up,
  wf ps us rate = true -> cannot_cover ps us rate = true -> raw_tx ps us rate bridge cid up = Err.
Proof. intros ps us rate bridge cid up W. exact (insufficient_no_tx _ _ _ _ _ _ (wf_wfP _ _ _ W)). Qed.
Print Assumptions C16_insufficient_no_tx.

(* An invalid recipient anywhere: no transaction (no well-formedness assumption at all). *)
Theorem C16_bad_recipient_no_tx : forall ps us rate bridge cid up,
  all_valid ps = false -> raw_tx ps us rate bridge cid up = Err.
Proof. exact bad_recipient_no_tx. Qed.
Print Assumptions C16_bad_recipient_no_tx.

(* The listing order is irrelevant: any two listings of a set with distinct outpoints give the same
   result (transaction or error).  Uses only that the repaired order is total on distinct outpoints:
   every sorting algorithm - in particular Go's sort.Slice - then computes the same list. *)
Theorem C16_order_independent : forall ps us us' rate bridge cid up,
  Permutation us us' -> NoDup (map raw_outpoint us) ->
  raw_tx ps us rate bridge cid up = raw_tx ps us' rate bridge cid up.
Proof. exact order_independent. Qed.
Print Assumptions C16_order_independent.

Theorem C16_sorted_unique : forall l1 l2,
  Sorted.StronglySorted le l1 -> Sorted.StronglySorted le l2 -> Permutation l1 l2 ->
  NoDup (map raw_outpoint l1) -> l1 = l2.
Proof.
  intros l1 l2 S1 S2 P Hnd. apply sorted_unique; [exact S1|exact S2|exact P|].
  intros a b Ha Hb Hab Hba. eapply NoDup_map_inj; [exact Hnd|exact Ha|exact Hb|].
  apply le_antisym_key; assumption.
Qed.
Print Assumptions C16_sorted_unique.

(* The judge of the correspondence run ([spec_all]: every run obeys [spec_one], all runs equal)
   accepts the model on every well-formed input and every family of listings of the set ... *)
Theorem C16_spec_all_model : forall ps us rate bridge cid up listings,
  wf ps us rate = true -> Forall (Permutation us) listings ->
  spec_all ps us bridge (map (fun l => project ps rate (raw_tx ps l rate bridge cid up)) listings) = true.
Proof. intros ps us rate bridge cid up listings W. exact (spec_all_model _ _ _ _ _ _ _ (wf_wfP _ _ _ W)). Qed.
Print Assumptions C16_spec_all_model.

(* ... and any transaction it accepts (outputs taken as a multiset; [quote] = what the relayer's
   own fee function returns for this shape) has the stated properties ... *)
Theorem C16_tx_ok_sound : forall ps us bridge ins outs quote,
  tx_ok ps us bridge ins outs quote = true ->
  all_valid ps = true /\
  (exists m change, is_meta m = true /\ (change = [] \/ exists c, change = [(c, bridge)]) /\
                    Permutation outs (map pay ps ++ m :: change)) /\
  Forall (fun o => 0 <= fst o) outs /\
  exists used, ins = map outpoint used /\ NoDup ins /\ incl used us /\
               values used - sumZ (map fst outs) = quote.
Proof. exact tx_ok_sound. Qed.
Print Assumptions C16_tx_ok_sound.

(* ... in particular its inputs cover amounts plus quote: none is accepted from a set that cannot. *)
Theorem C16_tx_ok_covers : forall ps us bridge ins outs quote,
  tx_ok ps us bridge ins outs quote = true ->
  exists used, ins = map outpoint used /\ NoDup ins /\ incl used us /\ amounts ps + quote <= values used.
Proof. exact tx_ok_covers. Qed.
Print Assumptions C16_tx_ok_covers.

(* ---- from the deposit message to the proposal (ERC20MessageHandler) ----
   The proposal amount is the message amount (18 decimals) divided by 10^10, rounded down, exactly -
   for every message amount whose quotient fits a uint64 (all amounts below 2^64 * 10^10 base units;
   the Bitcoin supply is 2.1e25): so the output that pays the proposal pays the deposited amount. *)
Theorem C16_msg_amount_exact : forall m,
  0 <= m < msg_limit ->
  handler_amount m = m / ten10 /\
  handler_amount m * ten10 <= m < handler_amount m * ten10 + ten10 /\
  0 <= handler_amount m < two64.
Proof. exact handler_amount_exact. Qed.
Print Assumptions C16_msg_amount_exact.

(* as coded beyond that: big.Int.Uint64() keeps the low 64 bits of the quotient *)
Theorem C16_msg_amount_beyond_as_coded :
  handler_amount msg_limit = 0 /\ msg_limit / ten10 = two64 /\
  forall m, 0 <= m -> handler_amount m = (m / ten10) mod two64.
Proof. exact handler_amount_wraps. Qed.
Print Assumptions C16_msg_amount_beyond_as_coded.

(* the judge of the message step accepts the model and demands the exact quotient below the limit *)
Theorem C16_amounts_ok_model : forall ms,
  msgs_wf ms = true -> amounts_ok ms (map handler_amount ms) = true.
Proof. exact amounts_ok_model. Qed.
Print Assumptions C16_amounts_ok_model.

Theorem C16_amounts_ok_sound : forall ms impl,
  amounts_ok ms impl = true ->
  length ms = length impl /\
  Forall (fun ma => fst ma < msg_limit -> snd ma = fst ma / ten10) (combine ms impl).
Proof. exact amounts_ok_sound. Qed.
Print Assumptions C16_amounts_ok_sound.

(* ---- Executor.Execute: one delivery, several resources ----
   The per-resource grouping is a partition of the delivery: the resources of the groups are pairwise
   distinct, the group of resource r holds exactly the proposals of r (in delivery order, never
   empty), and every proposal is in the group of its resource.  All deliveries. *)
Theorem C16_groups_partition : forall ps,
  NoDup (map fst (groups ps)) /\
  (forall r ms, In (r, ms) (groups ps) -> ms = members r ps /\ ms <> []) /\
  (forall p, In p ps -> exists ms, In (e_rid p, ms) (groups ps) /\ In (e_nonce p) ms).
Proof. exact groups_partition. Qed.
Print Assumptions C16_groups_partition.

(* every proposal occurs in the groups as often as in the delivery; nothing else occurs *)
Theorem C16_groups_count : forall ps n,
  occ n (groups ps) = count_occ N.eq_dec (map e_nonce ps) n /\ total (groups ps) = length ps.
Proof. exact (fun ps n => conj (occ_groups n ps) (total_groups ps)). Qed.
Print Assumptions C16_groups_count.

(* the judge applied to every observed run of Execute (per transaction: resource it was built for,
   deposit nonces it pays) accepts the model, and whatever it accepts pays every proposal of the
   delivery exactly once, in the transaction of its resource, and pays nothing else *)
Theorem C16_exec_ok_model : forall ps, nonces_distinct ps = true -> exec_ok ps (groups ps) = true.
Proof. exact exec_ok_model. Qed.
Print Assumptions C16_exec_ok_model.

Theorem C16_exec_ok_sound : forall ps obs,
  exec_ok ps obs = true ->
  (forall p, In p ps ->
     occ (e_nonce p) obs = 1%nat /\
     exists g, In g obs /\ fst g = e_rid p /\ In (e_nonce p) (snd g)) /\
  total obs = length ps.
Proof. exact exec_ok_sound. Qed.
Print Assumptions C16_exec_ok_sound.

(* ---- round 4: histories of builds on ONE long-lived Executor ----
   rawTx is a function of (proposals, UTXO listing, CURRENT fee rate, ...) whatever was built - or
   failed to build - before on the same Executor: the build after any history is the build alone. *)
Theorem C16_build_history_independent : forall bridge pre b post,
  nth_error (build_run bridge (pre ++ b :: post)) (length pre) = Some (build_one bridge b).
Proof. exact build_history_independent. Qed.
Print Assumptions C16_build_history_independent.

Theorem C16_build_same_inputs : forall bridge pre pre' b post post',
  nth_error (build_run bridge (pre ++ b :: post)) (length pre)
  = nth_error (build_run bridge (pre' ++ b :: post')) (length pre').
Proof. exact build_same_inputs. Qed.
Print Assumptions C16_build_same_inputs.

(* the history judge (per build: the per-build judge [spec_all] on the long-lived Executor's run and a
   fresh Executor's run, UTXO set and quote of THAT build) accepts the model on every history of
   well-formed builds, failing ones included ... *)
Theorem C16_seq_spec_model : forall bridge bs,
  forallb build_wf bs = true -> seq_spec bridge (model_build_obs bridge bs) = true.
Proof. exact seq_spec_model. Qed.
Print Assumptions C16_seq_spec_model.

(* ... and what it accepts: every run of every build obeys the per-build specification
   (C16_tx_ok_sound / C16_tx_ok_covers apply to it), and the long-lived Executor produced exactly
   what a fresh one produces from the same inputs *)
Theorem C16_seq_spec_sound : forall bridge obs, seq_spec bridge obs = true ->
  forall ps us rs, In (ps, us, rs) obs ->
    Forall (fun r => spec_one ps us bridge r = true) rs /\
    (forall r0 rest, rs = r0 :: rest -> Forall (fun r => res_eqb r0 r = true) rest).
Proof. exact seq_spec_sound. Qed.
Print Assumptions C16_seq_spec_sound.

(* The code as found (sufficiency test without the fee; ties of (time, txid) left in listing order)
   violates conservation / non-negativity and order independence. *)
Theorem C16_old_conservation_refuted :
  wf w_props w_utxos 1 = true /\
  exists t, old_raw_tx w_props w_utxos 1 w_bridge [81; 109]%N true = Tx t /\ In (-1140, w_bridge) (t_outs t).
Proof. exact old_conservation_refuted. Qed.
Print Assumptions C16_old_conservation_refuted.

Theorem C16_old_order_refuted :
  wf w_props w_two 1 = true /\ Permutation w_two (rev w_two) /\
  project w_props 1 (old_raw_tx w_props w_two 1 w_bridge [81; 109]%N true)
  <> project w_props 1 (old_raw_tx w_props (rev w_two) 1 w_bridge [81; 109]%N true).
Proof. exact old_order_refuted. Qed.
Print Assumptions C16_old_order_refuted.

(* Non-vacuity: a well-formed input on which a transaction with change is built (2 proposals,
   3 UTXOs of one transaction listed out of order), and the same set reversed. *)
Definition ex_props : list prop :=
  [mkProp 1000 (Valid P2WPKH (repeat 1%N 20)); mkProp 2500 (Valid P2TR (repeat 2%N 32))].
Definition ex_utxos : list utxo :=
  [mkUtxo w_id 2 5000 1700000000; mkUtxo w_id 0 4000 1700000000; mkUtxo w_id 1 9000 1700000000].
Example C16_nonvacuous :
  wf ex_props ex_utxos 3 = true /\
  project ex_props 3 (raw_tx ex_props ex_utxos 3 w_bridge [81; 109]%N true)
  = Some ([(w_id, 0); (w_id, 1)],
          [(1000, script_of P2WPKH (repeat 1%N 20)); (2500, script_of P2TR (repeat 2%N 32));
           (0, [106; 6; 115; 121; 103; 95; 81; 109]%N); (9500 - 2310, w_bridge)], 2310) /\
  raw_tx ex_props (rev ex_utxos) 3 w_bridge [81; 109]%N true = raw_tx ex_props ex_utxos 3 w_bridge [81; 109]%N true /\
  raw_tx ex_props [mkUtxo w_id 0 4909 1700000000] 3 w_bridge [81; 109]%N true = Err /\
  (exists t, raw_tx ex_props [mkUtxo w_id 0 4910 1700000000] 3 w_bridge [81; 109]%N true = Tx t /\ length (t_outs t) = 3%nat).
Proof. vm_compute. repeat split. eexists. split; reflexivity. Qed.

(* Non-vacuity of the round-3 theorems: a delivery over three resources, its groups; two goroutines
   that both build the last group (shared loop variable) are rejected; message amounts around 2^64
   base units and a handler that truncates to 64 bits before dividing is rejected. *)
Example C16_nonvacuous_exec :
  nonces_distinct w_delivery = true /\
  groups w_delivery = [(1, [0; 2]); (2, [1]); (3, [3])]%N /\
  exec_ok w_delivery [(3, [3]); (3, [3]); (3, [3])]%N = false /\
  exec_ok w_delivery [(1, [0; 2]); (1, [1]); (3, [3])]%N = false /\
  msgs_wf [two64 - 1; two64; two64 + ten10; 21000000 * 100000000 * ten10] = true /\
  map handler_amount [two64 - 1; two64; two64 + ten10; 21000000 * 100000000 * ten10]
    = [1844674407; 1844674407; 1844674408; 2100000000000000] /\
  amounts_ok [two64 + ten10] [1] = false.
Proof. vm_compute. repeat split. Qed.

(* Non-vacuity of the round-4 theorems: a history (a build the bridge cannot fund at rate 3, then a
   fundable one at rate 100) is well formed, its second build yields a transaction with the quote at
   rate 100; the same transaction built with the stale rate 3 is rejected by the history judge. *)
Example C16_nonvacuous_seq :
  let pays := [(1000, script_of P2WPKH (repeat 1%N 20)); (2500, script_of P2TR (repeat 2%N 32));
               (0, [106; 6; 115; 121; 103; 95; 81; 109]%N)] in
  let us1 := [mkUtxo w_id 0 4909 1700000000] in
  let us2 := [mkUtxo w_id 0 400000 1700000000; mkUtxo w_id 1 900000 1700000000] in
  let b1 := mkBuild ex_props us1 3 [81; 109]%N true true in
  let b2 := mkBuild ex_props us2 100 [81; 109]%N true true in
  let good : run_res := Some ([(w_id, 0)], pays ++ [(400000 - 29610 - 3500, w_bridge)], 29610) in
  let stale : run_res := Some ([(w_id, 0)], pays ++ [(400000 - 1410 - 3500, w_bridge)], 29610) in
  forallb build_wf [b1; b2] = true /\
  map snd (model_build_obs w_bridge [b1; b2]) = [[None; None]; [good; good]] /\
  seq_spec w_bridge (model_build_obs w_bridge [b1; b2]) = true /\
  seq_spec w_bridge [(ex_props, us1, [None; None]); (ex_props, us2, [stale; good])] = false /\
  seq_spec w_bridge [(ex_props, us2, [stale; stale])] = false.
Proof. vm_compute. repeat split. Qed.

(* ---- round 5: duplicate and overlapping proposals ----
   A delivery may list the same deposit (source domain, deposit nonce) several times, and deliveries
   may overlap.  proposalsForExecution, for every recorded state [st] and every delivery: the selected
   proposals are pairwise distinct deposits, none recorded before, each the first proposal of its
   deposit in the delivery, and every delivered deposit not recorded before is selected. *)
Theorem C16_select_once : forall st ps,
  NoDup (map key_of (select_props st ps)) /\
  (forall p, In p (select_props st ps) ->
     In p ps /\ ~ In (key_of p) st /\ lookup_key ps (key_of p) = Some p) /\
  (forall p, In p ps -> In (key_of p) st \/ In (key_of p) (map key_of (select_props st ps))).
Proof. exact select_once. Qed.
Print Assumptions C16_select_once.

(* deliveries handled one after the other on one Executor select together exactly what ONE delivery
   of all their proposals selects (so no deposit is selected twice over the history), and the
   per-resource groups of every selection are a partition of it *)
Theorem C16_serial_is_select : forall dels st, concat (serial st dels) = select_props st (concat dels).
Proof. exact serial_concat. Qed.
Print Assumptions C16_serial_is_select.

Theorem C16_dgroups_partition : forall sel,
  Permutation (flat_map snd (dgroups sel)) sel /\
  NoDup (map fst (dgroups sel)) /\
  (forall g, In g (dgroups sel) -> forall p, In p (snd g) -> In p sel /\ d_rid p = fst g).
Proof.
  exact (fun sel => conj (dgroups_members sel)
                         (conj (eq_ind_r (fun l => NoDup l) (rids_nodup sel) (dgroups_fst sel)) (dgroups_rid sel))).
Qed.
Print Assumptions C16_dgroups_partition.

(* the judge of observed runs - per transaction: the resource it is built for, the deposits its
   metadata lists, and the transaction where the build is let through - accepts the model on every
   history of deliveries (duplicates, overlaps, any resources), ... *)
Theorem C16_dup_ok_model : forall dels keys us rate cid wt,
  (wt = true -> groups_wf (serial_groups [] dels) us rate = true) ->
  dup_ok true (concat dels) keys us (map (model_dtx keys us rate cid wt) (serial_groups [] dels)) = true.
Proof. exact dup_ok_model. Qed.
Print Assumptions C16_dup_ok_model.

(* ... the judge applied to CONCURRENT deliveries (per transaction only) is implied by it, ... *)
Theorem C16_dup_ok_weaken : forall ps keys us obs,
  dup_ok true ps keys us obs = true -> dup_ok false ps keys us obs = true.
Proof. exact dup_ok_weaken. Qed.
Print Assumptions C16_dup_ok_weaken.

(* ... and whatever it accepts: (one delivery) no deposit is listed twice over all its transactions;
   every delivered deposit is paid; every transaction lists no deposit twice, lists only delivered
   proposals of its own resource, and - where observed - obeys the per-transaction specification
   (C16_tx_ok_sound / C16_tx_ok_covers) for exactly the proposals it lists: one output per listed
   proposal, the metadata output, at most one change output, conservation *)
Theorem C16_dup_ok_sound : forall strict ps keys us obs,
  obs <> [] -> dup_ok strict ps keys us obs = true ->
  (strict = true -> NoDup (all_metas obs)) /\
  (forall p, In p ps -> In (key_of p) (all_metas obs)) /\
  (forall r ms otx, In (r, ms, otx) obs ->
     NoDup ms /\
     exists gps, map key_of gps = ms /\
       (forall p, In p gps -> In p ps /\ d_rid p = r) /\
       (forall t, otx = Some t -> spec_one (map d_pay gps) us (bridge_of keys r) t = true)).
Proof. exact dup_ok_sound. Qed.
Print Assumptions C16_dup_ok_sound.

(* copies of one deposit agree in everything ([consistent], satisfied by the generator): the proposal
   the judge takes for a deposit is the proposal itself, whichever copy *)
Theorem C16_consistent_lookup : forall ps p,
  consistent ps = true -> In p ps -> lookup_key ps (key_of p) = Some p.
Proof. exact consistent_lookup. Qed.
Print Assumptions C16_consistent_lookup.

(* Non-vacuity of the round-5 theorems: a delivery P Q P P' P (P' = P's nonce from another source,
   same recipient and amount) selects P Q P'; two transactions (resource 1: P and P', two equal
   outputs; resource 2: Q); the judge rejects P listed twice, P' not paid, and a transaction with
   one output for the two equal proposals. *)
Example C16_nonvacuous_dup :
  let us := [mkUtxo w_id 0 400000 1700000000] in
  let keys := [repeat 7%N 32; repeat 8%N 32] in
  let pay := (1000, script_of P2WPKH (repeat 1%N 20)) in
  let meta := (0, [106; 6; 115; 121; 103; 95; 81; 109]%N) in
  let tx (outs : list txout) q : option run_res := Some (Some ([(w_id, 0)], outs ++ [meta; (400000 - q - sumZ (map fst outs), bridge_of keys 1)], q)) in
  let t2 := tx [pay; pay] 1410 in
  let t1 := tx [pay] 1240 in
  consistent w_dup_delivery = true /\
  select_props [] w_dup_delivery = [w_P; w_Q; w_P_src] /\
  map (fun g => (fst g, map key_of (snd g))) (serial_groups [] [w_dup_delivery]) = [(1, [(1, 11); (3, 11)]); (2, [(1, 12)])]%N /\
  groups_wf (serial_groups [] [w_dup_delivery]) us 3 = true /\
  dup_ok true w_dup_delivery keys us [(1, [(1, 11); (3, 11)], t2); (2, [(1, 12)], None)]%N = true /\
  dup_ok true w_dup_delivery keys us [(1, [(1, 11); (1, 11); (3, 11)], None); (2, [(1, 12)], None)]%N = false /\
  dup_ok true w_dup_delivery keys us [(1, [(1, 11)], None); (2, [(1, 12)], None)]%N = false /\
  dup_ok true w_dup_delivery keys us [(1, [(1, 11); (3, 11)], t1); (2, [(1, 12)], None)]%N = false /\
  dup_ok true w_dup_delivery keys us [(1, [(1, 11); (3, 11)], None); (1, [(1, 11)], None); (2, [(1, 12)], None)]%N = false /\
  dup_ok false w_dup_delivery keys us [(1, [(1, 11); (3, 11)], None); (1, [(1, 11)], None); (2, [(1, 12)], None)]%N = true.
Proof. vm_compute. repeat split. Qed.
