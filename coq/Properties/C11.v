(* C11 - Signing failures are classified and retried without the culprits; key generation and
   resharing are never retried.
   This file contains only the property theorems (each closed by [exact]) and Print Assumptions.
   [classify] is handleError's decision after the repair on branch fix-C11 (errors.As);
   [old_classify] is the decision of the unrepaired code (type switch on the outermost value). *)
From Coq Require Import List ZArith NArith Bool.
Import ListNotations.
From SygmaV Require Import Model.C07 Proofs.C07 Model.C11 Proofs.C11 Proofs.C11_Real Proofs.C11_Indep.

(* A tree that contains exactly one recognised cause - anywhere, under any nesting of joins, wraps
   and other errors - is classified as that cause. *)
Theorem C11_classify_typed : forall e k,
  recognised_kinds e = [k] -> classify e = action_of_kind k.
Proof. exact classify_single. Qed.
Print Assumptions C11_classify_typed.

(* Joining with errors that contain no recognised cause (timeout, watchdog, fail-message errors),
   on either side, changes nothing; in particular the values the process pools build. *)
Theorem C11_classify_join_others : forall ts e ts',
  Forall all_other ts -> Forall all_other ts' ->
  classify (pool_join (ts ++ e :: ts')) = classify e.
Proof. exact classify_join_others. Qed.
Print Assumptions C11_classify_join_others.

Theorem C11_classify_as_seen : forall e,
  classify (pool_join [pool_join [e]]) = classify e
  /\ classify (pool_join [pool_join [Node KOther []]; pool_join [e]]) = classify e.
Proof. exact classify_as_seen. Qed.
Print Assumptions C11_classify_as_seen.

(* Several recognised causes: the decision is the action of one of the contained causes (the first
   CoordinatorError in errors.As order, else the first CommunicationError, else the first tss.Error,
   else SubsetError); it gives up exactly when there is none. *)
Theorem C11_classify_sound : forall e,
  classify e = GiveUp \/ exists k, In k (recognised_kinds e) /\ action_of_kind k = classify e.
Proof. exact classify_sound. Qed.
Print Assumptions C11_classify_sound.

Theorem C11_unknown_gives_up_iff : forall e, classify e = GiveUp <-> recognised_kinds e = [].
Proof. exact classify_giveup_iff. Qed.
Print Assumptions C11_unknown_gives_up_iff.

Theorem C11_unknown_gives_up : forall retryable holders e,
  recognised_kinds e = [] -> after_failure retryable holders e = Returned.
Proof. exact unknown_gives_up. Qed.
Print Assumptions C11_unknown_gives_up.

(* The new attempt: culprits are neither election candidates nor members of the subset this relayer
   announces if it coordinates the new attempt (for every ready stream; via C07's subset theorem);
   every other key holder stays a candidate. *)
Theorem C11_culprits_excluded : forall holders e cands ex,
  after_failure true holders e = Retried cands ex ->
  (forall p, In p ex -> ~ In p cands)
  /\ (forall p, In p holders -> ~ In p ex -> In p cands)
  /\ (forall p, In p cands -> In p holders)
  /\ (forall (key : peer -> N) t self msgs calls S,
        In self holders -> ~ In self ex ->
        initiate key holders t ex [self] msgs = (calls, Some S) ->
        forall p, In p ex -> ~ In p S).
Proof. exact culprits_excluded. Qed.
Print Assumptions C11_culprits_excluded.

Theorem C11_retried_iff : forall holders e cands ex,
  after_failure true holders e = Retried cands ex <->
  classify e = RetryExcluding ex /\ cands = exclude holders ex.
Proof. exact retried_iff. Qed.
Print Assumptions C11_retried_iff.

(* Left out of the subset: no election, the relayer waits, and a start message from anybody starts it. *)
Theorem C11_left_out_waits : forall holders e,
  recognised_kinds e = [KSubset] -> after_failure true holders e = Waited.
Proof. exact left_out_waits. Qed.
Print Assumptions C11_left_out_waits.

Theorem C11_waiting_accepts_any_start : forall f l,
  run_wait None Waiting [MStart f (Some l)] = (Running, [ORun l]).
Proof. exact waiting_accepts_any_start. Qed.
Print Assumptions C11_waiting_accepts_any_start.

(* How long the left-out relayer keeps waiting ([tm] = the two configured durations, arrival times
   measured from the start of the wait): its wait is bounded by the TSS timeout, NOT by the
   coordinator timeout - whatever coord_to is, a start message (from anybody) that arrives before
   tss_to, preceded only by initiate messages (which it answers), starts the process with the
   message's params ... *)
Theorem C11_left_out_honours_start : forall tm pre at_ f l post,
  Forall (early_initiate (tss_to tm)) pre -> (at_ < tss_to tm)%N ->
  In (false, l) (runs_of (fst (left_out_wait tm (pre ++ (at_, MStart f (Some l)) :: post)))).
Proof. exact left_out_honours_start. Qed.
Print Assumptions C11_left_out_honours_start.

(* ... and it does give up: a message arriving at or after tss_to finds the session over (ended by a
   ticker: CoordinatorError / "tss process timed out"). *)
Theorem C11_left_out_gives_up : forall tm at_ m r,
  (tss_to tm <= at_)%N -> left_out_wait tm ((at_, m) :: r) = ([], true).
Proof. exact left_out_gives_up. Qed.
Print Assumptions C11_left_out_gives_up.

(* A relayer that lost the re-election knows the new coordinator and waits for it only for the
   coordinator timeout (as start() does in every attempt). *)
Theorem C11_start_wait_gives_up : forall tm c2 at_ m r,
  (coord_to tm <= at_)%N -> retry_start_wait tm c2 ((at_, m) :: r) = ([], true).
Proof. exact start_wait_gives_up. Qed.
Print Assumptions C11_start_wait_gives_up.

(* The judge's clause for the left-out relayer holds of the model for ALL timed message streams. *)
Theorem C11_left_out_judge_model : forall tm msgs,
  honoured (tss_to tm) msgs (runs_of (fst (left_out_wait tm msgs))) = true.
Proof. exact left_out_honours. Qed.
Print Assumptions C11_left_out_judge_model.

(* Key generation and resharing (not retryable): the error is returned, whatever it is. *)
Theorem C11_non_retryable_never_retries : forall holders e, after_failure false holders e = Returned.
Proof. exact non_retryable_never_retries. Qed.
Print Assumptions C11_non_retryable_never_retries.

(* Only the coordinator's own initiate messages re-arm the coordinator-timeout ticker: whatever other
   peers send while the relayer waits for its coordinator [c] - initiate, start, fail messages, however
   many, at whatever times - the relayer does nothing, keeps waiting, and the ticker's deadline stays
   where it was ... *)
Theorem C11_forged_traffic_no_rearm : forall c timeout watch msgs deadline,
  Forall (not_from c) msgs ->
  let w := timed_run (Some c) (Some c) timeout watch deadline Waiting msgs in
  tr_outs w = [] /\ tr_state w = Waiting /\ tr_deadline w = deadline.
Proof. exact forged_traffic_no_rearm. Qed.
Print Assumptions C11_forged_traffic_no_rearm.

(* ... so a coordinator that is unresponsive in the specification's sense (no start or fail message of
   its own, a whole coordinator timeout of silence after each of its initiate messages before the TSS
   timeout) is classified as such in the middle of any traffic of other peers: the judge of the
   silent-coordinator sessions (the CoordinatorError retry without [c]; for keygen / resharing the
   CoordinatorError is returned) accepts the model for all message streams. *)
Theorem C11_unresponsive_coordinator_classified :
  forall (key : peer -> N) tm m br holders t self unreach retryable msgs1 bs ready2 msgs2 c,
  coordinator key holders = Some c -> In self holders -> wf_table m holders ->
  bully_guarded (br self bs (exclude holders [c])) self (exclude holders [c]) = true ->
  silent_ok (mkEnv tm holders t self unreach ready2 msgs2) retryable c msgs1
    (session_silent key tm m br classify holders t self retryable msgs1 bs ready2 msgs2) = true.
Proof. exact silent_ok_model. Qed.
Print Assumptions C11_unresponsive_coordinator_classified.

Theorem C11_judge_silent_sound : forall ev c msgs1 o,
  silent_ok ev true c msgs1 o = true -> coordinator_unresponsive (e_tm ev) c msgs1 = true -> e_self ev <> c ->
  exists cs, o_elected o = Some cs /\ ~ In c cs /\ (forall p, In p (e_holders ev) -> p <> c -> In p cs)
             /\ (forall p, In p (o_ready2 o) -> p <> c).
Proof. exact silent_ok_sound. Qed.
Print Assumptions C11_judge_silent_sound.

(* The replacement attempt does not depend on the culprits being reachable: if enough key holders that
   are neither culprits nor unreachable answer ready, the new coordinator's ready loop announces a
   subset - for every set of unreachable peers (the results of its broadcasts are ignored). *)
Theorem C11_replacement_runs : forall key holders t ps unreach self ready2,
  In self holders ->
  enough holders t ps unreach self ready2 = true ->
  exists calls S, initiate key holders t ps [self] ready2 = (calls, Some S).
Proof. exact enough_announces. Qed.
Print Assumptions C11_replacement_runs.

(* THE ELECTION OF THE REPLACEMENT ATTEMPT.  [bs] = what arrives at this relayer during the bully election
   (Select = "I am the coordinator", Election, Alive messages, in arrival order) from ANY peers: candidates,
   excluded culprits that keep talking (they saw the attempt fail too and run their own election for the
   session), peers that hold no key.  With the repaired rule (messages of peers outside the candidate list
   are dropped) the election ends with this relayer or a candidate whatever is sent ... *)
Theorem C11_bully_strict_guarded : forall (key : peer -> N) self bs cands,
  bully_guarded (bully_strict key self bs cands) self cands = true.
Proof. exact bully_strict_guarded. Qed.
Print Assumptions C11_bully_strict_guarded.

(* ... it is the outcome of the election in which the non-candidates' messages never arrived ... *)
Theorem C11_bully_strict_ignores : forall (key : peer -> N) self bs cands,
  bully_strict key self bs cands = bully_strict key self (filter (from_candidate cands) bs) cands.
Proof. exact bully_strict_ignores. Qed.
Print Assumptions C11_bully_strict_ignores.

(* ... and among candidates only, the repaired rule is the rule as coded. *)
Theorem C11_bully_strict_candidates_only : forall (key : peer -> N) self bs cands,
  forallb (from_candidate cands) bs = true -> bully_strict key self bs cands = bully_coded key self bs cands.
Proof. exact bully_strict_candidates_only. Qed.
Print Assumptions C11_bully_strict_candidates_only.

Theorem C11_bully_coded_candidates_guarded : forall (key : peer -> N) self bs cands,
  forallb (from_candidate cands) bs = true -> bully_guarded (bully_coded key self bs cands) self cands = true.
Proof. exact bully_coded_candidates_guarded. Qed.
Print Assumptions C11_bully_coded_candidates_guarded.

(* AS CODED (isPeerIDHigher leaves the index of a peer it does not find at 0): a relayer whose current
   coordinator is the first candidate ignores the announcement of a peer outside the candidate list ... *)
Theorem C11_bully_coded_first_ignores : forall s self cur x,
  rank_coded s cur = 0%nat -> ~ In x s -> x <> self -> bully_step s self cur (BSelect x) = cur.
Proof. exact bully_coded_first_ignores. Qed.
Print Assumptions C11_bully_coded_first_ignores.

(* ... but every relayer whose current coordinator is a later candidate ACCEPTS it, and the full statement
   (C11_bully_strict_guarded for the rule as coded) is refuted: key holder 0 (second of the candidates
   1, 0, 3) takes the excluded peer 2 for the coordinator of the replacement attempt. *)
Theorem C11_bully_coded_open_seat : forall s self cur x,
  (0 < rank_coded s cur)%nat -> ~ In x s -> bully_step s self cur (BSelect x) = x.
Proof. exact bully_coded_open_seat. Qed.
Print Assumptions C11_bully_coded_open_seat.

Theorem C11_bully_coded_guarded_refuted :
  exists (key : peer -> N) self bs cands,
    In self cands /\ bully_guarded (bully_coded key self bs cands) self cands = false.
Proof. exact bully_open_seat_refuted. Qed.
Print Assumptions C11_bully_coded_guarded_refuted.

(* The judge used on the implementation's observations accepts the model's whole session for every
   input (hypotheses: this relayer holds a key; the key holders are entries of the peer table; [br], the
   election's outcome rule, ends with this relayer or a candidate), for every set of unreachable peers,
   also for degenerate failure values (no culprit, culprits that hold no key, repeated culprits, the
   empty peer id, this relayer itself as culprit) ... *)
Theorem C11_spec_ok_model : forall (key : peer -> N) tm m br holders t self unreach retryable runs1 e bs ready2 msgs2,
  In self holders -> wf_table m holders ->
  (forall ps, classify e = RetryExcluding ps ->
              bully_guarded (br self bs (exclude holders ps)) self (exclude holders ps) = true) ->
  spec_ok (mkEnv tm holders t self unreach ready2 msgs2) retryable e (length runs1)
    (continue key tm m br classify holders t self retryable runs1 e bs ready2 msgs2) = true.
Proof. exact spec_ok_model. Qed.
Print Assumptions C11_spec_ok_model.

(* ... in particular, with the repaired election rule, whatever anybody sends during the election ... *)
Theorem C11_spec_ok_model_strict : forall (key : peer -> N) tm m holders t self unreach retryable runs1 e bs ready2 msgs2,
  In self holders -> wf_table m holders ->
  spec_ok (mkEnv tm holders t self unreach ready2 msgs2) retryable e (length runs1)
    (continue key tm m (bully_strict key) classify holders t self retryable runs1 e bs ready2 msgs2) = true.
Proof. exact spec_ok_model_strict. Qed.
Print Assumptions C11_spec_ok_model_strict.

(* ... also for two relayers of one session, where the start message of the one is what the other's
   first attempt receives ... *)
Theorem C11_duo_ok_model : forall (key : peer -> N) tm m br holders t a c unreach ready1 msgs2,
  In c holders -> wf_table m holders ->
  duo_ok (mkEnv tm holders t c unreach [] msgs2) a
    (duo_a key m holders t a ready1) (duo_c key tm m br classify holders t a c ready1 msgs2) = true.
Proof. exact duo_ok_model. Qed.
Print Assumptions C11_duo_ok_model.

(* ... and what it accepts means what the property says: after a retry decision the culprits are
   neither candidates nor in a subset this relayer announces; if it coordinates the replacement attempt
   and enough reachable non-culprits are ready, the attempt runs; every key holder other than the
   culprits is sent the attempt's start message. *)
Theorem C11_judge_retry_sound : forall ev nfirst o ps,
  obs_allows ev nfirst o (RetryExcluding ps) = true -> ~ In (e_self ev) ps ->
  exists cs, o_elected o = Some cs
    /\ (forall p, In p ps -> ~ In p cs)
    /\ (forall p, In p (e_holders ev) -> ~ In p ps -> In p cs)
    /\ (forall sub, In (true, sub) (skipn nfirst (o_runs o)) -> forall p, In p ps -> ~ In p sub)
    /\ (o_inits2 o <> [] -> enough (e_holders ev) (e_t ev) ps (e_unreach ev) (e_self ev) (e_ready2 ev) = true ->
        exists sub, In (true, sub) (skipn nfirst (o_runs o)))
    /\ (forall sub, In (true, sub) (skipn nfirst (o_runs o)) ->
        exists to, In (sub, to) (o_starts o)
                   /\ forall p, In p (e_holders ev) -> p <> e_self ev -> ~ In p ps -> In p to)
    (* whoever the relayer treats as coordinator of the replacement attempt - it answers its initiate
       messages, it runs the process on its start message - is a key holder that is not a culprit *)
    /\ (forall p, In p (o_ready2 o) -> In p (e_holders ev) /\ ~ In p ps)
    /\ (forall l, In (false, l) (skipn nfirst (o_runs o)) ->
        exists at_ f, In (at_, MStart f (Some l)) (e_msgs2 ev) /\ In f (e_holders ev) /\ ~ In f ps).
Proof. exact obs_allows_retry_sound. Qed.
Print Assumptions C11_judge_retry_sound.

(* a recognised failure is never turned into success - also when it names this relayer itself (outside
   the property's scope otherwise): a replacement attempt begins or the session ends with an error *)
Theorem C11_judge_retry_self_sound : forall ev nfirst o ps,
  obs_allows ev nfirst o (RetryExcluding ps) = true -> In (e_self ev) ps ->
  (exists cs, o_elected o = Some cs) \/ o_final o <> FNil.
Proof. exact obs_allows_retry_self_sound. Qed.
Print Assumptions C11_judge_retry_self_sound.

Theorem C11_judge_no_panic : forall ev retryable e nfirst o,
  spec_ok ev retryable e nfirst o = true -> o_final o <> FPanic.
Proof. exact spec_ok_no_panic. Qed.
Print Assumptions C11_judge_no_panic.

(* who is told: an accepted observation has, for every attempt the relayer ran as coordinator, a start
   broadcast with the announced params that addresses every key holder except itself and [ex] *)
Theorem C11_judge_told_sound : forall holders self ex runs starts,
  told holders self ex runs starts = true ->
  forall sub, In (true, sub) runs ->
  exists to, In (sub, to) starts /\ forall p, In p holders -> p <> self -> ~ In p ex -> In p to.
Proof. exact told_sound. Qed.
Print Assumptions C11_judge_told_sound.

Theorem C11_judge_giveup_sound : forall ev nfirst o,
  obs_allows ev nfirst o GiveUp = true ->
  o_elected o = None /\ skipn nfirst (o_runs o) = [] /\ o_final o = FOriginal.
Proof. exact obs_allows_giveup_sound. Qed.
Print Assumptions C11_judge_giveup_sound.

(* left out: no election, the session does not end with the failure, and a well-formed start message
   that arrives (after initiate messages only) before the session's TSS timeout was honoured by a Run
   with its params *)
Theorem C11_judge_wait_sound : forall ev nfirst o,
  obs_allows ev nfirst o WaitForStart = true ->
  o_elected o = None /\ o_final o <> FOriginal
  /\ (forall pre at_ f l post,
        e_msgs2 ev = pre ++ (at_, MStart f (Some l)) :: post ->
        Forall (early_initiate (tss_to (e_tm ev))) pre -> (at_ < tss_to (e_tm ev))%N ->
        exists r, In r (skipn nfirst (o_runs o)) /\ snd r = l).
Proof. exact obs_allows_wait_sound. Qed.
Print Assumptions C11_judge_wait_sound.

(* two relayers: a key holder that the coordinator's subset leaves out was told (its first attempt ran
   with that subset), held no election (it does not blame the healthy coordinator) and did not end
   with the failure *)
Theorem C11_judge_duo_sound : forall ev a oa oc sub rest,
  duo_ok ev a oa oc = true -> o_runs oa = (true, sub) :: rest -> ~ In (e_self ev) sub ->
  (exists rest', o_runs oc = (false, sub) :: rest') /\ o_elected oc = None /\ o_final oc <> FOriginal.
Proof. exact duo_ok_sound. Qed.
Print Assumptions C11_judge_duo_sound.

(* SESSIONS OF REAL SIGNING PROCESSES (the real ECDSA / FROST Signing objects on the fixture key shares,
   the same object for every attempt, failing through their own code: a Broadcast of a round message
   returns the transport's CommunicationError, a subset member is dead, the real party blames a culprit,
   the real process returns SubsetError).  The judge is [spec_ok] for the cause the network injected,
   plus: every subset the relayer announces as coordinator of the replacement attempt is a signing
   subset (t+1 distinct key holders, itself among them, no culprit, everybody else having answered
   ready), and if enough live, reachable, non-excluded holders answered ready the replacement attempt
   it coordinates completes with a valid signature.  It accepts the model's session (for the outcome
   "completed": that live members of a valid subset produce a signature is tss-lib's / FROST's
   correctness, trusted) ... *)
Theorem C11_real_ok_model : forall (key : peer -> N) tm m br holders t self unreach live retryable runs1 e bs ready2 msgs2,
  In self holders -> wf_table m holders ->
  (forall ps, classify e = RetryExcluding ps ->
              bully_guarded (br self bs (exclude holders ps)) self (exclude holders ps) = true) ->
  real_ok (mkEnv tm holders t self unreach ready2 msgs2) live retryable e (length runs1)
    (continue key tm m br classify holders t self retryable runs1 e bs ready2 msgs2) SigValid = true.
Proof. exact real_ok_model. Qed.
Print Assumptions C11_real_ok_model.

(* ... and means: everything [spec_ok] means; the announced subsets of the replacement attempt are
   signing subsets in the specification's sense (C07's subset_spec, culprits excluded); and the
   replacement attempt of enough live holders did not end without a valid signature. *)
Theorem C11_judge_real_sound : forall ev live e nfirst o sig k ps,
  real_ok ev live true e nfirst o sig = true ->
  recognised_kinds e = [k] -> action_of_kind k = RetryExcluding ps -> ~ In (e_self ev) ps ->
  spec_ok ev true e nfirst o = true
  /\ (forall sub, In (true, sub) (skipn nfirst (o_runs o)) ->
        subset_spec (e_holders ev) (e_t ev) ps (e_self ev) (e_ready2 ev) sub)
  /\ (o_inits2 o <> [] ->
      enough (e_holders ev) (e_t ev) ps (e_unreach ev) (e_self ev) (filter (fun p => memb p live) (e_ready2 ev)) = true ->
      sig <> SigMissing).
Proof. exact real_ok_sound. Qed.
Print Assumptions C11_judge_real_sound.

Theorem C11_judge_real_implies_spec : forall ev live retryable e nfirst o sig,
  real_ok ev live retryable e nfirst o sig = true -> spec_ok ev retryable e nfirst o = true.
Proof. exact real_ok_spec_ok. Qed.
Print Assumptions C11_judge_real_implies_spec.

(* Non-vacuity for the sessions of real processes: three key holders, threshold 1; relayer 0 coordinates
   the first attempt [0; 1], holder 1 is dead (CommunicationError), holder 2 was left out and answers
   ready: the model's session elects among everybody, announces [0; 2] and is accepted with a valid
   signature; the same session ending with the failure (the typed cause lost on the way) is rejected,
   and so are a replacement attempt that never starts because the left-out holder's ready message does
   not count, one that announces a subset without the left-out holder, and one that ends without a
   signature. *)
Example C11_real_nonvacuous :
  let key := fun p : peer => match p with 0 => 90 | 1 => 70 | 2 => 50 | _ => 5 end%N in
  let tm := mkTiming 3600000 3600000 in
  let ev := mkEnv tm [0; 1; 2]%N 1%Z 0%N [1%N] [2%N] [] in
  let e := pool_join [pool_join [pool_join [Node (KComm 1%N) []]]] in
  let o := continue key tm 3 (bully_coded key) classify [0; 1; 2]%N 1%Z 0%N true [(true, [0; 1]%N)] e [] [2%N] [] in
  o = mkObs [(true, [0; 1]%N); (true, [0; 2]%N)] (Some [0; 1; 2]%N) [([0; 2]%N, [])] [] FNil [[0; 1; 2]%N]
            [([0; 1]%N, [0; 1; 2]%N); ([0; 2]%N, [0; 1; 2]%N)]
  /\ real_ok ev [0; 2]%N true e 1 o SigValid = true
  /\ real_ok ev [0; 2]%N true e 1 (mkObs [(true, [0; 1]%N)] None [] [] FOther [] [([0; 1]%N, [0; 1; 2]%N)]) SigMissing = false
  /\ real_ok ev [0; 2]%N true e 1 (mkObs [(true, [0; 1]%N)] (Some [0; 1; 2]%N) [([0; 2]%N, [])] [] FOther [[0; 1; 2]%N]
                                         [([0; 1]%N, [0; 1; 2]%N)]) SigMissing = false
  /\ real_ok ev [0; 2]%N true e 1 (mkObs [(true, [0; 1]%N); (true, [0%N])] (Some [0; 1; 2]%N) [([0; 2]%N, [])] [] FNil [[0; 1; 2]%N]
                                         [([0; 1]%N, [0; 1; 2]%N); ([0%N], [0; 1; 2]%N)]) SigValid = false
  /\ real_ok ev [0; 2]%N true e 1 o SigMissing = false
  /\ real_ok ev [0; 2]%N true e 1 o SigNotAwaited = true.
Proof. vm_compute. repeat split. Qed.

(* The unrepaired code (kept as a statement about the explicitly named old_ definitions): whatever
   the pools return is an errors.Join value, so nothing was ever retried and a left-out relayer
   returned the error instead of waiting. *)
Theorem C11_old_never_retries : forall retryable holders errs,
  old_after_failure retryable holders (pool_join errs) = Returned.
Proof. exact old_never_retries. Qed.
Print Assumptions C11_old_never_retries.

Theorem C11_old_classify_typed_refuted : exists holders e,
  recognised_kinds e = [KSubset] /\ old_after_failure true holders e = Returned
  /\ after_failure true holders e = Waited.
Proof. exact old_refuted. Qed.
Print Assumptions C11_old_classify_typed_refuted.

(* Non-vacuity: a CoordinatorError of peer 2 joined (nested) with a timeout error is classified as
   such; peer 2 is then neither a candidate nor in the announced subset although it reports ready;
   a tss.Error wrapping a SubsetError takes precedence over it; an unknown error gives up. *)
Example C11_nonvacuous :
  let key := fun p : peer => match p with 0 => 50 | 1 => 90 | 2 => 70 | 3 => 10 | _ => 5 end%N in
  let e := pool_join [pool_join [Node KOther []]; pool_join [Node (KCoord 2%N) []]] in
  classify e = RetryExcluding [2%N]
  /\ after_failure true [0; 1; 2; 3]%N e = Retried [0; 1; 3]%N [2%N]
  /\ snd (initiate key [0; 1; 2; 3]%N 1%Z [2%N] [1%N] [2; 3; 0]%N) = Some [1; 3]%N
  /\ classify (pool_join [Node (KTss [3%N] true) [Node KSubset []]]) = RetryExcluding [3%N]
  /\ classify (pool_join [Node KOther []]) = GiveUp
  /\ old_classify e = GiveUp
  (* left out with CoordinatorTimeout 40 << start after 450 << TssTimeout 20000: still joined;
     a start after the TSS timeout: given up *)
  /\ left_out_wait (mkTiming 40 20000) [(200, MInitiate 3); (450, MStart 3 (Some [3; 0]))]%N = ([OReady 3; ORun [3; 0]]%N, false)
  /\ left_out_wait (mkTiming 3600000 2000) [(6000, MStart 3 (Some [3; 0]))]%N = ([], true)
  /\ honoured 20000 [(200, MInitiate 3); (450, MStart 3 (Some [3; 0]))]%N [(true, [0; 1]%N)] = false
  (* the coordinator 1 stays silent while peer 3 sends an initiate message every 100 ms: unresponsive in
     the specification's sense, the deadline stays at 300; its own initiate message at 100 moves it to 400 *)
  /\ coordinator_unresponsive (mkTiming 300 3000) 1%N [(100, MInitiate 3); (200, MInitiate 3); (290, MStart 3 (Some [3]))]%N = true
  /\ tr_deadline (silent_wait (mkTiming 300 3000) 1%N [(100, MInitiate 3); (200, MInitiate 3)]%N) = 300%N
  /\ tr_deadline (silent_wait (mkTiming 300 3000) 1%N [(100, MInitiate 1); (200, MInitiate 3)]%N) = 400%N
  /\ o_elected (session_silent key (mkTiming 300 3000) 5 (bully_coded key) classify [0; 1; 2; 3]%N 1%Z 0%N true
                   [(100, MInitiate 3); (200, MInitiate 3)]%N [] [2; 3]%N []) = Some [2; 0; 3]%N
  (* culprit 2 unreachable, 3 and 0 ready: enough for t = 1, the replacement attempt runs *)
  /\ enough [0; 1; 2; 3]%N 1%Z [2%N] [2%N] 1%N [2; 3; 0]%N = true
  /\ enough [0; 1; 2; 3]%N 2%Z [2%N] [3%N] 1%N [2; 3; 0]%N = false
  (* who is told: the start message that goes to the subset only does not tell the left-out holder 3 *)
  /\ told [0; 1; 2; 3]%N 1%N [] [(true, [1; 0]%N)] [([1; 0]%N, [0; 1; 2; 3; 4]%N)] = true
  /\ told [0; 1; 2; 3]%N 1%N [] [(true, [1; 0]%N)] [([1; 0]%N, [1; 0]%N)] = false
  (* two relayers: 1 coordinates, 0 and 2 are ready first, 3 is left out: told, waits, joins the replacement *)
  /\ duo_a key 5 [0; 1; 2; 3]%N 2%Z 1%N [0; 2; 3]%N
       = mkObs [(true, [1; 2; 0]%N)] None [] [] FNil [] [([1; 2; 0]%N, [0; 1; 2; 3; 4]%N)]
  /\ duo_c key (mkTiming 3000 3600000) 5 (bully_coded key) classify [0; 1; 2; 3]%N 2%Z 1%N 3%N [0; 2; 3]%N [(0, MStart 0 (Some [0; 3; 2]))]%N
       = mkObs [(false, [1; 2; 0]%N); (false, [0; 3; 2]%N)] None [] [] FNil [] []
  (* the election after culprit 2 was excluded (candidates in session order: 1, 0, 3), at key holder 3: the first
     candidate 1 announces itself, then the culprit: ignored - as coded and repaired; the culprit announces
     itself FIRST: as coded it is accepted and the first candidate's announcement no longer displaces it *)
  /\ bully_coded key 3%N [BSelect 1; BElection 2; BAlive 2; BSelect 2]%N [0; 1; 3]%N = 1%N
  /\ bully_coded key 3%N [BSelect 2; BSelect 1]%N [0; 1; 3]%N = 2%N
  /\ bully_strict key 3%N [BSelect 2; BSelect 1]%N [0; 1; 3]%N = 1%N
  (* a tss error without culprits is retried with everybody; the judge rejects a session that ended in
     success without a replacement attempt *)
  /\ classify (pool_join [pool_join [Node (KTss [] true) [Node KOther []]]]) = RetryExcluding []
  /\ spec_ok (mkEnv (mkTiming 3600000 3600000) [0; 1; 2; 3]%N 1%Z 0%N [] [] []) true
             (pool_join [pool_join [Node (KTss [] true) [Node KOther []]]]) 1
             (mkObs [(false, [1; 0]%N)] None [] [] FNil [] []) = false.
Proof. vm_compute. repeat split. Qed.


(* ---- messages of excluded peers during the replacement attempt ---------------------------------- *)

(* A relayer that lost the re-election to [c2] (handleError's watcher was told the empty id): for ALL
   message sequences - fail, initiate, start messages in any order - what it does is what it would do
   had the excluded peers sent nothing ([c2] is a candidate, i.e. not excluded). *)
Theorem C11_excluded_messages_ignored : forall c2 ps msgs,
  memb c2 ps = false ->
  retry_wait c2 msgs = retry_wait c2 (filter (fun m => negb (memb (msg_from m) ps)) msgs).
Proof. exact retry_wait_drop. Qed.
Print Assumptions C11_excluded_messages_ignored.

(* ... with arrival times, as long as no bound of the wait is reached: neither what it does nor how the
   wait ends depends on them *)
Theorem C11_excluded_messages_ignored_timed : forall tm c2 ps msgs,
  memb c2 ps = false -> timely (coord_to tm) (tss_to tm) msgs = true ->
  retry_start_wait tm c2 msgs = retry_start_wait tm c2 (drop_excluded ps msgs)
  /\ snd (retry_start_wait tm c2 msgs) = false.
Proof. exact retry_start_wait_drop. Qed.
Print Assumptions C11_excluded_messages_ignored_timed.

(* The judge's clause [indep_ok] accepts the model's whole session for every input and every message
   sequence (the relayer that coordinates the replacement attempt itself reads no fail, initiate or start
   message at all: [continue] does not depend on [msgs2] there). *)
Theorem C11_indep_ok_model : forall (key : peer -> N) tm m br holders t self unreach retryable runs1 e bs ready2 msgs2,
  (forall ps, classify e = RetryExcluding ps ->
              bully_guarded (br self bs (exclude holders ps)) self (exclude holders ps) = true) ->
  indep_ok (mkEnv tm holders t self unreach ready2 msgs2) retryable e (length runs1)
    (continue key tm m br classify holders t self retryable runs1 e bs ready2 msgs2) = true.
Proof. exact indep_ok_model. Qed.
Print Assumptions C11_indep_ok_model.

Theorem C11_indep_ok_model_strict : forall (key : peer -> N) tm m holders t self unreach retryable runs1 e bs ready2 msgs2,
  indep_ok (mkEnv tm holders t self unreach ready2 msgs2) retryable e (length runs1)
    (continue key tm m (bully_strict key) classify holders t self retryable runs1 e bs ready2 msgs2) = true.
Proof. exact indep_ok_model_strict. Qed.
Print Assumptions C11_indep_ok_model_strict.

(* What the clause means for an observation: if nothing but the culprits' messages can have ended or
   delayed the replacement attempt, the session has not ended with an error, and a relayer that does not
   coordinate the attempt answered and ran exactly what it would have answered and run for some key holder that is not a culprit as
   coordinator, had the culprits sent nothing. *)
Theorem C11_judge_indep_sound : forall ev ps nfirst o,
  memb (e_self ev) ps = false -> calm (e_tm ev) ps (e_msgs2 ev) = true ->
  uninfluenced ev ps nfirst o = true ->
  o_final o = FNil
  /\ (o_inits2 o = [] ->
      exists c2, In c2 (e_holders ev) /\ ~ In c2 ps
                 /\ skipn nfirst (o_runs o)
                    = runs_of (fst (retry_start_wait (e_tm ev) c2 (drop_excluded ps (e_msgs2 ev))))
                 /\ o_ready2 o
                    = readies_of (fst (retry_start_wait (e_tm ev) c2 (drop_excluded ps (e_msgs2 ev))))).
Proof. exact uninfluenced_sound. Qed.
Print Assumptions C11_judge_indep_sound.

(* Non-vacuity: key holder 3 lost the re-election to 1 after culprit 2 was excluded; the culprit sends a
   fail message during the election, an initiate and a start message, and another fail message before the
   elected coordinator's start: the model ignores all of them; an observation in which the culprit's fail
   message ended the session ("tss fail message received", no second Run) is rejected, as is one in which
   the session went on but the coordinator's start was not honoured. *)
Example C11_indep_nonvacuous :
  let tm := mkTiming 3600000 3600000 in
  let msgs := [(0, MFail 2); (0, MInitiate 2); (0, MStart 2 (Some [2])); (0, MInitiate 1); (0, MFail 2); (0, MStart 1 (Some [1; 3]))]%N in
  let ev := mkEnv tm [0; 1; 2; 3]%N 1%Z 3%N [] [] msgs in
  let e := pool_join [pool_join [Node (KCoord 2%N) []]] in
  calm tm [2%N] msgs = true
  /\ retry_start_wait tm 1%N msgs = ([OReady 1; ORun [1; 3]]%N, false)
  /\ indep_ok ev true e 1 (mkObs [(false, [2; 0]%N); (false, [1; 3]%N)] (Some [1; 0; 3]%N) [] [1%N] FNil [] []) = true
  /\ indep_ok ev true e 1 (mkObs [(false, [2; 0]%N)] (Some [1; 0; 3]%N) [] [] FOther [] []) = false
  /\ indep_ok ev true e 1 (mkObs [(false, [2; 0]%N)] (Some [1; 0; 3]%N) [] [1%N] FNil [] []) = false
  (* a fail message of a peer that is not a culprit: nothing is demanded *)
  /\ indep_ok (mkEnv tm [0; 1; 2; 3]%N 1%Z 3%N [] [] ((0, MFail 0) :: msgs)%N) true e 1
               (mkObs [(false, [2; 0]%N)] (Some [1; 0; 3]%N) [] [] FOther [] []) = true.
Proof. vm_compute. repeat split. Qed.
