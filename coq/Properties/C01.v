(* stub - replaced below *)
From SygmaV Require Import Model.C01.
Theorem C01_stub : True. Proof. exact I. Qed.
