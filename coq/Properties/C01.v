(* C01 - The relayed proposal carries the deposit's identity and payload unaltered.
   Only the property theorems (each closed by [exact]) and Print Assumptions.

   [relay sk dk d] = the source-side deposit handler of kind sk (as coded, Model/C01.v) composed with
   the destination-side message handler of kind dk.  [wf sk dk d] = the deposit satisfies the wire
   format of its handler (boolean, evaluated on the bytes).  [spec_proposal sk dk d] = the
   reference: the deposit's own envelope and bytes with only the three documented rewrites. *)
From Coq Require Import List NArith ZArith Bool.
From Coq.Strings Require Import Byte.
Import ListNotations.
From SygmaV Require Import Lib.C01_Bytes Model.C01 Proofs.C01.

(* Master statement: for EVERY well-formed deposit of every handler pair that prepares a proposal
   (all amounts in [0,2^256), all recipient lengths, absent/present optional message, absent/present
   handler response, all ERC1155 vectors, all generic call parts, all nonces / resource ids /
   domains) the relay prepares exactly the reference proposal. *)
Theorem C01_relay_spec : forall sk dk d, wf sk dk d = true -> relay sk dk d = Ok (spec_proposal sk dk d).
Proof. exact relay_spec. Qed.
Print Assumptions C01_relay_spec.

(* The envelope is copied for ALL inputs (well-formed or not) whenever a proposal is prepared. *)
Theorem C01_relay_envelope : forall sk dk d p, relay sk dk d = Ok p ->
  p_src p = d_src d /\ p_nonce p = d_nonce d /\ p_rid p = d_rid d /\ (sk <> SBtc -> p_dst p = d_dst d).
Proof. exact relay_envelope. Qed.
Print Assumptions C01_relay_envelope.

(* ERC20 / native: the calldata with rewrite 1 (handler-reported amount) and rewrite 2 (fee limit of
   the optional message + OPTIONAL_REVERT_GAS = 100000), and the gasLimit metadata. *)
Theorem C01_erc20_relay_data : forall d, wf_erc20 d = true ->
  exists p, relay SErc20 DEvm d = Ok p /\ p_data p = DBytes (spec_erc20_data d) /\ p_gas p = spec_erc20_gas d.
Proof. exact erc20_relay_data. Qed.
Print Assumptions C01_erc20_relay_data.

(* ... the reference spelled out: amount32 ++ recipientLen32 ++ recipient [++ u256(fee+100000) ++ message] *)
Theorem C01_erc20_spec_explicit : forall src dst nonce rid am A W R F M hr amt,
  length A = 32%nat -> length W = 32%nat -> be_to_N W = N.of_nat (length R) -> hr_amount A hr amt ->
  length F = 32%nat -> M <> [] ->
  spec_erc20_data (mkDep src dst nonce rid (A ++ W ++ R ++ []) hr am) = amt ++ W ++ R /\
  spec_erc20_data (mkDep src dst nonce rid (A ++ W ++ R ++ F ++ M) hr am)
    = amt ++ W ++ R ++ u256 (be_to_N F + OPTIONAL_REVERT_GAS) ++ M.
Proof. exact erc20_spec_explicit. Qed.
Print Assumptions C01_erc20_spec_explicit.

Theorem C01_erc721_roundtrip : forall d, wf_erc721 d = true ->
  exists p, relay SErc721 DEvm d = Ok p /\ p_data p = DBytes (d_data d) /\ p_gas p = None.
Proof. exact erc721_roundtrip. Qed.
Print Assumptions C01_erc721_roundtrip.

Theorem C01_generic_roundtrip : forall d, wf_generic d = true ->
  exists p, relay SGeneric DEvm d = Ok p /\ p_data p = DBytes (d_data d) /\
            p_gas p = Some (word_at 0 (d_data d) mod 2 ^ 64)%N.
Proof. exact generic_roundtrip. Qed.
Print Assumptions C01_generic_roundtrip.

(* ERC1155, full ABI round trip: for ALL id / amount vectors (< 2^32 entries, entries < 2^256), every
   20-byte recipient and every transferData (< 2^32 bytes) the decoder (go-ethereum's UnpackValues as
   modelled) inverts the encoder, and the relayed proposal data is the canonical encoding itself. *)
Theorem C01_erc1155_decode_encode : forall src dst nonce rid hr am ids ams rc td,
  wf_erc1155_parts ids ams rc td = true ->
  erc1155_decode (mkDep src dst nonce rid (abi_encode ids ams rc td) hr am) =
  Ok (mkMsg src dst nonce rid SemiFungible [PI ids; PI ams; PB rc; PB td] None).
Proof. exact erc1155_roundtrip_decode. Qed.
Print Assumptions C01_erc1155_decode_encode.

Theorem C01_erc1155_roundtrip : forall src dst nonce rid hr am ids ams rc td,
  wf_erc1155_parts ids ams rc td = true ->
  relay SErc1155 DEvm (mkDep src dst nonce rid (abi_encode ids ams rc td) hr am) =
  Ok (mkProp src dst nonce rid None (DBytes (abi_encode ids ams rc td))).
Proof. exact erc1155_roundtrip. Qed.
Print Assumptions C01_erc1155_roundtrip.

Theorem C01_substrate_relay_data : forall d dk, wf_sub d = true -> dk <> DBtcK ->
  exists p, relay SSub dk d = Ok p /\ p_data p = DBytes (d_data d).
Proof. exact substrate_relay_data. Qed.
Print Assumptions C01_substrate_relay_data.

(* rewrite 3, source side: amount' = satoshi * 10^10, 20-byte recipient, destination from the payload *)
Theorem C01_btc_source_scaled : forall d, wf_btc d = true ->
  exists p addr, relay SBtc DEvm d = Ok p /\ length addr = 20%nat /\
    p_data p = DBytes (u256 (d_amount d * BTC_SCALE) ++ u256 20 ++ addr) /\
    be_to_N (u256 (d_amount d * BTC_SCALE)) = (d_amount d * BTC_SCALE)%N /\
    p_dst p = dec_value (btc_dom_part d).
Proof. exact btc_source_scaled. Qed.
Print Assumptions C01_btc_source_scaled.

(* rewrite 3, destination side: amount' = a / 10^10 for a < 2^64 * 10^10 (part of wf _ DBtcK) *)
Theorem C01_btc_dest_scaled : forall sk d, wf sk DBtcK d = true ->
  exists p, relay sk DBtcK d = Ok p /\
    p_data p = DBtc (be_to_N (firstn 32 (spec_fungible_data sk d)) / BTC_SCALE) (skipn 64 (spec_fungible_data sk d)).
Proof. exact btc_dest_scaled. Qed.
Print Assumptions C01_btc_dest_scaled.

Theorem C01_gas_limit_meta : forall sk dk d p,
  wf sk dk d = true -> relay sk dk d = Ok p -> p_gas p = spec_gas sk dk d.
Proof. exact gas_limit_meta. Qed.
Print Assumptions C01_gas_limit_meta.

(* The judge used on the implementation's observations accepts the model on every input, and what it
   accepts on a well-formed deposit is exactly the reference proposal. *)
Theorem C01_spec_ok_model : forall sk dk d, spec_ok sk dk d (relay sk dk d) = true.
Proof. exact spec_ok_model. Qed.
Print Assumptions C01_spec_ok_model.

Theorem C01_spec_ok_sound : forall sk dk d impl,
  spec_ok sk dk d impl = true -> wf sk dk d = true -> impl = Ok (spec_proposal sk dk d).
Proof. exact spec_ok_sound. Qed.
Print Assumptions C01_spec_ok_sound.

(* Inputs a handler is not supposed to look at have no influence - on what is relayed, on what counts as
   well-formed, on the reference: the handler response for every kind but ERC20 / native (where it is rewrite 1),
   the separate amount for every kind but Bitcoin, the event's destination for Bitcoin (taken from the payload).
   The other inputs of HandleDeposit (message id text, timestamp, block number; the depositor's address never
   reaches a handler) are not inputs of the model at all; the run varies them on the real code. *)
Theorem C01_hr_ignored : forall sk dk d hr, sk <> SErc20 ->
  relay sk dk (with_hr d hr) = relay sk dk d /\ wf sk dk (with_hr d hr) = wf sk dk d /\
  spec_proposal sk dk (with_hr d hr) = spec_proposal sk dk d.
Proof. exact hr_ignored. Qed.
Print Assumptions C01_hr_ignored.

Theorem C01_amount_ignored : forall sk dk d a, sk <> SBtc ->
  relay sk dk (with_amount d a) = relay sk dk d /\ wf sk dk (with_amount d a) = wf sk dk d /\
  spec_proposal sk dk (with_amount d a) = spec_proposal sk dk d.
Proof. exact amount_ignored. Qed.
Print Assumptions C01_amount_ignored.

Theorem C01_btc_dst_ignored : forall dk d x,
  relay SBtc dk (with_dst d x) = relay SBtc dk d /\ wf SBtc dk (with_dst d x) = wf SBtc dk d /\
  spec_proposal SBtc dk (with_dst d x) = spec_proposal SBtc dk d.
Proof. exact btc_dst_ignored. Qed.
Print Assumptions C01_btc_dst_ignored.

(* Shared byte library: the laws the encoders rest on. *)
Theorem C01_be_to_N_be_bytes : forall n, be_to_N (be_bytes n) = n.
Proof. exact be_to_N_be_bytes. Qed.
Print Assumptions C01_be_to_N_be_bytes.

Theorem C01_be_to_N_left_pad : forall k l, be_to_N (left_pad k l) = be_to_N l.
Proof. exact be_to_N_left_pad. Qed.
Print Assumptions C01_be_to_N_left_pad.

Theorem C01_left_pad_word : forall w, left_pad (length w) (be_bytes (be_to_N w)) = w.
Proof. exact left_pad_be_bytes_word. Qed.
Print Assumptions C01_left_pad_word.

Theorem C01_length_be_bytes_le : forall n k, (n < 256 ^ N.of_nat k)%N -> (length (be_bytes n) <= k)%nat.
Proof. exact length_be_bytes_le. Qed.
Print Assumptions C01_length_be_bytes_le.

(* ---- non-vacuity and the documented preconditions ------------------------------------------------------------------ *)
Definition hxN (l : list N) : bytes := bytes_of_Ns l.
Definition zeros (n : nat) : bytes := repeat x00 n.
Definition ex_rid : bytes := repeat x01 32.

(* amount 5, 20-byte recipient, optional message with fee 7 and a 3-byte body, handler response amount 9 *)
Definition ex_erc20 : deposit :=
  mkDep 1 2 77 ex_rid
    (u256 5 ++ u256 20 ++ repeat x02 20 ++ u256 7 ++ [x0a; x0b; x0c]) (u256 9) 0.
Definition ex_erc721 : deposit :=
  mkDep 1 2 78 ex_rid (u256 5 ++ u256 20 ++ repeat x02 20 ++ u256 3 ++ [x0a; x0b; x0c]) [] 0.
Definition ex_generic : deposit :=
  mkDep 1 2 79 ex_rid (u256 300000 ++ [x00; x04] ++ repeat x03 4 ++ [x14] ++ repeat x04 20 ++ [x14] ++ repeat x05 20 ++ repeat x06 36) [] 0.
Definition ex_erc1155 : deposit :=
  mkDep 1 2 80 ex_rid (abi_encode [1; 2 ^ 255]%N [10; 20]%N (repeat x02 20) [x0a]) [] 0.
Definition ex_sub : deposit := mkDep 3 2 81 ex_rid (u256 5 ++ u256 32 ++ repeat x02 32) [] 0.
Definition ex_btc : deposit :=
  mkDep 4 0 82 ex_rid (hxN [48; 120]%N ++ repeat "a"%byte 40 ++ hxN [95; 50; 53; 53]%N) [] 123456789.

Example C01_nonvacuous :
  wf SErc20 DEvm ex_erc20 = true /\ wf SErc721 DEvm ex_erc721 = true /\ wf SGeneric DEvm ex_generic = true /\
  wf SErc1155 DEvm ex_erc1155 = true /\ wf SSub DEvm ex_sub = true /\ wf SSub DBtcK ex_sub = true /\
  wf SBtc DEvm ex_btc = true /\ wf SBtc DBtcK ex_btc = true /\
  (exists p, relay SErc20 DEvm ex_erc20 = Ok p /\
             p_data p = DBytes (u256 9 ++ u256 20 ++ repeat x02 20 ++ u256 100007 ++ [x0a; x0b; x0c]) /\
             p_gas p = Some 100007%N) /\
  (exists p, relay SBtc DEvm ex_btc = Ok p /\ p_dst p = 255%N /\
             p_data p = DBytes (u256 1234567890000000000 ++ u256 20 ++ repeat xaa 20)).
Proof. vm_compute. repeat split; eexists; repeat split. Qed.

(* Outside wf (documented preconditions, not findings): a fee word above 2^256 - 100001 does not
   survive the 32-byte copy (fee = 2^256 - 100000: the sum 2^256 has 33 bytes, its first 32 are copied), and a BTC-bound amount of 2^64 * 10^10 or more wraps modulo 2^64. *)
(* an ERC721 deposit without metadata whose handler answered with a token URI: well-formed, and the URI is not relayed *)
Example C01_hr_ignored_nonvacuous :
  let d := mkDep 1 2 78 ex_rid (u256 5 ++ u256 20 ++ repeat x02 20 ++ u256 0) (u256 32 ++ u256 3 ++ [x0a; x0b; x0c] ++ zeros 29) 0 in
  wf SErc721 DEvm d = true /\ relay SErc721 DEvm d = Ok (mkProp 1 2 78 ex_rid None (DBytes (d_data d))).
Proof. vm_compute. split; reflexivity. Qed.

Example C01_fee_overflow_outside_wf :
  let d := mkDep 1 2 1 ex_rid (u256 5 ++ u256 20 ++ repeat x02 20 ++ u256 (2 ^ 256 - 100000) ++ [x0a]) [] 0 in
  wf SErc20 DEvm d = false /\
  exists p, relay SErc20 DEvm d = Ok p /\
            p_data p = DBytes (u256 5 ++ u256 20 ++ repeat x02 20 ++ (x01 :: repeat x00 31) ++ [x0a]).
Proof. vm_compute. split; [reflexivity | eexists; split; reflexivity]. Qed.

Example C01_btc_dest_wraps_outside_wf :
  let d := mkDep 3 4 1 ex_rid (u256 (2 ^ 64 * BTC_SCALE + 3 * BTC_SCALE) ++ u256 20 ++ repeat x02 20) [] 0 in
  wf SSub DBtcK d = false /\
  exists p, relay SSub DBtcK d = Ok p /\ p_data p = DBtc 3 (repeat x02 20).
Proof. vm_compute. split; [reflexivity | eexists; split; reflexivity]. Qed.

(* ---- histories: many deposits, retries and batches over the SAME long-lived objects ---------------------------------
   [seq_relay pool steps] = the model of a history: step (i, fault) handles pool deposit i.  The model keeps no
   state between steps.  [seq_ok pool occs] = the judge of a history: EVERY reading of the proposal prepared
   for a step (right after it was built, when its batch is written, at the end of the history) satisfies the
   per-deposit specification [spec_ok]; where the handler lookup was made to fail, nothing is owed. *)

(* the answer for a deposit does not depend on its position in the history nor on the other steps *)
Theorem C01_seq_pointwise : forall pool pre s post,
  nth_error (seq_relay pool (pre ++ s :: post)) (length pre) = Some (step_relay pool s).
Proof. exact seq_relay_pointwise. Qed.
Print Assumptions C01_seq_pointwise.

(* ... nor on the history, the pool or the index it is stored under: it is the per-deposit relay *)
Theorem C01_seq_position_independent : forall pool pool' pre pre' post post' i j sk dk d,
  nth_error pool i = Some (sk, dk, d) -> nth_error pool' j = Some (sk, dk, d) ->
  nth_error (seq_relay pool (pre ++ (i, false) :: post)) (length pre) = Some (relay sk dk d) /\
  nth_error (seq_relay pool' (pre' ++ (j, false) :: post')) (length pre') = Some (relay sk dk d).
Proof. exact seq_position_independent. Qed.
Print Assumptions C01_seq_position_independent.

(* the pointwise judge accepts the pointwise model, for every history, every fault pattern and every number
   of readings per step *)
Theorem C01_seq_ok_model : forall pool steps, steps_wf pool steps = true ->
  seq_ok pool (map (model_occ pool) steps) = true.
Proof. exact seq_ok_model. Qed.
Print Assumptions C01_seq_ok_model.

(* the run evaluates the judge per pool deposit (wf and the reference computed once): the same predicate *)
Theorem C01_seq_judge_pointwise : forall pool occs, seq_ok_fast pool occs = seq_ok pool occs.
Proof. exact seq_ok_fast_eq. Qed.
Print Assumptions C01_seq_judge_pointwise.

(* what the judge accepts: every reading for a well-formed deposit is the reference proposal (or nothing at a
   scripted fault) ... *)
Theorem C01_seq_ok_sound : forall pool occs o sk dk d r,
  seq_ok pool occs = true -> In o occs -> nth_error pool (o_dep o) = Some (sk, dk, d) -> wf sk dk d = true ->
  In r (o_reads o) -> r = Ok (spec_proposal sk dk d) \/ (o_fail o = true /\ r = Err).
Proof. exact seq_ok_sound. Qed.
Print Assumptions C01_seq_ok_sound.

(* ... so a deposit handled twice yields equal proposals and a proposal read twice has not changed *)
Theorem C01_seq_repeat_equal : forall pool occs o1 o2 sk dk d r1 r2,
  seq_ok pool occs = true -> In o1 occs -> In o2 occs ->
  nth_error pool (o_dep o1) = Some (sk, dk, d) -> nth_error pool (o_dep o2) = Some (sk, dk, d) ->
  wf sk dk d = true -> In r1 (o_reads o1) -> In r2 (o_reads o2) -> r1 <> Err -> r2 <> Err -> r1 = r2.
Proof. exact seq_repeat_equal. Qed.
Print Assumptions C01_seq_repeat_equal.

(* non-vacuity: a history over two well-formed deposits with a repeated deposit and a scripted fault; and the
   judge does reject a retried proposal whose fee limit gained the allowance twice *)
Definition ex_pool : list item := [(SErc20, DEvm, ex_erc20); (SErc721, DEvm, ex_erc721)].
Definition ex_steps : list (step * nat) := [((0, false), 2); ((1, true), 1); ((1, false), 3); ((0, false), 1)]%nat.
Example C01_seq_nonvacuous :
  steps_wf ex_pool ex_steps = true /\
  seq_relay ex_pool (map fst ex_steps) =
    [relay SErc20 DEvm ex_erc20; Err; relay SErc721 DEvm ex_erc721; relay SErc20 DEvm ex_erc20] /\
  seq_ok ex_pool
    [mkOcc 0 false [relay SErc20 DEvm ex_erc20];
     mkOcc 0 false [Ok (mkProp 1 2 77 ex_rid (Some 200007%N)
                       (DBytes (u256 9 ++ u256 20 ++ repeat x02 20 ++ u256 200007 ++ [x0a; x0b; x0c])))]] = false.
Proof. vm_compute. repeat split. Qed.
