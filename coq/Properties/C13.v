(* C13 - Only topology members get a connection, only an announced topology is adopted, and the
   sender of a message is the authenticated remote peer.
   This file contains only the property theorems (each closed by [exact]) and Print Assumptions.
   The refresh theorems hold for EVERY hash function H, decryption and parser (Section variables of
   the model), every stored state, every fetched body and every announced hash. *)
From Coq Require Import List NArith ZArith Bool String Ascii.
Import ListNotations.
From SygmaV Require Import Model.C13 Proofs.C13.
Local Open Scope string_scope.
Local Open Scope N_scope.
Local Open Scope list_scope.

(* The gate lets a peer be dialled, and keeps a secured connection (either direction), exactly when
   the peer is a member of the gate's current topology - all peer ids, all topologies. *)
Theorem C13_gate_iff_member : forall g p d,
  (intercept_peer_dial g p = true <-> In p (map p_id (t_peers g))) /\
  (intercept_secured g d p = true <-> In p (map p_id (t_peers g))).
Proof. exact gate_iff_member. Qed.
Print Assumptions C13_gate_iff_member.

(* One refresh: either topology file, gate and peerstore are exactly as before, or the fetched
   ciphertext hashes to the announced (non-empty) hash, decrypts and parses to a topology t, and
   the state is the adoption of t. *)
Theorem C13_refresh_cases : forall H decrypt parse st ev,
  fst (refresh H decrypt parse st ev) = st \/
  exists t, announced H decrypt parse ev t /\ ev_fetch_ok ev = true /\ ev_store_ok ev = true /\
            fst (refresh H decrypt parse st ev) = adopted t.
Proof. exact refresh_cases. Qed.
Print Assumptions C13_refresh_cases.

Theorem C13_adopt_iff : forall H decrypt parse st ev,
  fst (refresh H decrypt parse st ev) <> st ->
  exists t, announced H decrypt parse ev t /\ fst (refresh H decrypt parse st ev) = adopted t.
Proof. exact adopt_iff. Qed.
Print Assumptions C13_adopt_iff.

(* Otherwise nothing changes - for every body and every hash ... *)
Theorem C13_reject_unchanged : forall H decrypt parse st ev,
  (forall t, ~ announced H decrypt parse ev t) -> fst (refresh H decrypt parse st ev) = st.
Proof. exact reject_unchanged. Qed.
Print Assumptions C13_reject_unchanged.

(* ... in particular on a hash mismatch (the comparison is on the exact, case-sensitive hex text),
   on an empty announced hash, on a body that is not hex, and on a body that does not decrypt to a
   valid topology; and whenever the handler did not reach the store (including the Decrypt panic on
   a ciphertext shorter than one AES block). *)
Theorem C13_hash_mismatch_unchanged : forall H decrypt parse st ev h ct,
  last_opt (ev_hashes ev) = Some h -> hex_decode (trim_nl (ev_body ev)) = Some ct ->
  H ct <> h -> fst (refresh H decrypt parse st ev) = st.
Proof. exact hash_mismatch_unchanged. Qed.
Print Assumptions C13_hash_mismatch_unchanged.

Theorem C13_empty_hash_unchanged : forall H decrypt parse st ev,
  last_opt (ev_hashes ev) = Some "" -> fst (refresh H decrypt parse st ev) = st.
Proof. exact empty_hash_unchanged. Qed.
Print Assumptions C13_empty_hash_unchanged.

Theorem C13_not_hex_unchanged : forall H decrypt parse st ev,
  hex_decode (trim_nl (ev_body ev)) = None -> fst (refresh H decrypt parse st ev) = st.
Proof. exact not_hex_unchanged. Qed.
Print Assumptions C13_not_hex_unchanged.

Theorem C13_invalid_unchanged : forall H decrypt parse st ev,
  (forall ct, hex_decode (trim_nl (ev_body ev)) = Some ct -> parse (decrypt ct) = None) ->
  fst (refresh H decrypt parse st ev) = st.
Proof. exact invalid_unchanged. Qed.
Print Assumptions C13_invalid_unchanged.

Theorem C13_outcome_unchanged : forall H decrypt parse st ev,
  snd (refresh H decrypt parse st ev) <> Adopted -> snd (refresh H decrypt parse st ev) <> PanicLoad ->
  fst (refresh H decrypt parse st ev) = st.
Proof. exact outcome_unchanged. Qed.
Print Assumptions C13_outcome_unchanged.

(* Any sequence of refresh events: the final state is the initial one, or the adoption of a
   topology announced by one of the events; if no event announces a topology nothing changes; the
   file and the gate never diverge. *)
Theorem C13_run_refresh_cases : forall H decrypt parse evs st,
  run_refresh H decrypt parse st evs = st \/
  exists ev t, In ev evs /\ announced H decrypt parse ev t /\
               run_refresh H decrypt parse st evs = adopted t.
Proof. exact run_refresh_cases. Qed.
Print Assumptions C13_run_refresh_cases.

Theorem C13_run_reject_unchanged : forall H decrypt parse evs st,
  (forall ev t, In ev evs -> ~ announced H decrypt parse ev t) ->
  run_refresh H decrypt parse st evs = st.
Proof. exact run_reject_unchanged. Qed.
Print Assumptions C13_run_reject_unchanged.

Theorem C13_consistent_preserved : forall H decrypt parse evs st,
  stored st = Some (gate st) ->
  stored (run_refresh H decrypt parse st evs) = Some (gate (run_refresh H decrypt parse st evs)).
Proof. exact consistent_preserved. Qed.
Print Assumptions C13_consistent_preserved.

(* A delivered message is attributed to the remote peer of the secured connection for every
   payload, whatever sender it claims. *)
Theorem C13_sender_is_remote : forall remote w,
  d_from (deliver remote w) = remote /\
  d_type (deliver remote w) = w_type w /\ d_session (deliver remote w) = w_session w /\
  d_payload (deliver remote w) = w_payload w.
Proof. exact sender_is_remote. Qed.
Print Assumptions C13_sender_is_remote.

(* The judge used on the implementation's observations accepts the model on every state and event,
   its notion of "announced" is the Prop above, and what it accepts is what the property states. *)
Theorem C13_step_ok_model : forall H decrypt parse probes st ev,
  step_ok probes (announced_topo H decrypt parse ev)
          (view_of probes st) (view_of probes (fst (refresh H decrypt parse st ev))) = true.
Proof. exact step_ok_model. Qed.
Print Assumptions C13_step_ok_model.

Theorem C13_announced_topo_iff : forall H decrypt parse ev t,
  announced_topo H decrypt parse ev = Some t <-> announced H decrypt parse ev t.
Proof. exact announced_topo_iff. Qed.
Print Assumptions C13_announced_topo_iff.

Theorem C13_step_ok_sound : forall probes ann before after,
  step_ok probes ann before after = true ->
  view_eqb before after = true \/
  exists t, ann = Some t /\
            (opt_topo_eqb (v_stored before) (v_stored after) = true \/
             opt_topo_eqb (v_stored after) (Some t) = true) /\
            (bools_eqb (v_dial before) (v_dial after) = true \/
             bools_eqb (v_dial after) (map (allowed t) probes) = true) /\
            (bools_eqb (v_secured before) (v_secured after) = true \/
             bools_eqb (v_secured after) (map (allowed t) probes) = true) /\
            subset (v_pstore after) (v_pstore before ++ peer_pairs t) = true.
Proof. exact step_ok_sound. Qed.
Print Assumptions C13_step_ok_sound.

(* File and admission list are one "current topology": from a state in which the gate admits exactly
   the members of the stored topology (or the file cannot be read), one refresh - and any sequence of
   refreshes - ends in such a state again, for every topology whatever its threshold and peer list
   (no peers, one peer, duplicates, threshold at or above the number of peers); the judge's step
   predicate (allowed step + file and gate agree afterwards) accepts the model and means this. *)
Theorem C13_store_gate_agree_refresh : forall H decrypt parse probes st ev,
  store_gate_agree probes (view_of probes st) = true ->
  store_gate_agree probes (view_of probes (fst (refresh H decrypt parse st ev))) = true.
Proof. exact store_gate_agree_refresh. Qed.
Print Assumptions C13_store_gate_agree_refresh.

Theorem C13_store_gate_agree_run : forall H decrypt parse probes evs st,
  store_gate_agree probes (view_of probes st) = true ->
  store_gate_agree probes (view_of probes (run_refresh H decrypt parse st evs)) = true.
Proof. exact store_gate_agree_run. Qed.
Print Assumptions C13_store_gate_agree_run.

Theorem C13_store_gate_agree_state : forall probes st,
  stored st = None \/ stored st = Some (gate st) ->
  store_gate_agree probes (view_of probes st) = true.
Proof. exact store_gate_agree_state. Qed.
Print Assumptions C13_store_gate_agree_state.

Theorem C13_step_spec_model : forall H decrypt parse probes st ev,
  store_gate_agree probes (view_of probes st) = true ->
  step_spec probes (announced_topo H decrypt parse ev)
            (view_of probes st) (view_of probes (fst (refresh H decrypt parse st ev))) = true.
Proof. exact step_spec_model. Qed.
Print Assumptions C13_step_spec_model.

Theorem C13_step_spec_sound : forall probes ann before after,
  step_spec probes ann before after = true ->
  step_ok probes ann before after = true /\
  (forall t, v_stored after = Some t ->
             v_dial after = map (allowed t) probes /\ v_secured after = map (allowed t) probes).
Proof. exact step_spec_sound. Qed.
Print Assumptions C13_step_spec_sound.

(* Non-vacuity of the agreement hypothesis and of its use: a degenerate topology (threshold above the
   number of peers) and an empty one are adopted by file and gate alike; a view whose file holds the
   new topology while the gate still admits the old members is refused by the judge. *)
Example C13_store_gate_nonvacuous :
  let t0 := mk_topo [mk_peer "A" (Some "/ip4/1.1.1.1/tcp/1")] 1 in
  let t1 := mk_topo [mk_peer "B" (Some "/dns4/b/tcp/2")] 5 in
  let te := mk_topo [] 1 in
  let probes := ["A"; "B"; "C"] in
  let H := fun ct : bytes => "ab" in
  let parse := fun pt : bytes => if Nat.eqb (List.length pt) 17 then Some t1 else Some te in
  let r := refresh H (fun ct => ct) parse (adopted t0) in
  store_gate_agree probes (view_of probes (adopted t0)) = true /\
  fst (r (mk_event ["ab"] true (repeat 48 34) true)) = adopted t1 /\
  fst (r (mk_event ["ab"] true (repeat 48 36) true)) = adopted te /\
  v_dial (view_of probes (adopted t1)) = [false; true; false] /\
  v_dial (view_of probes (adopted te)) = [false; false; false] /\
  step_spec probes (Some t1) (view_of probes (adopted t0)) (view_of probes (adopted t1)) = true /\
  step_spec probes (Some t1) (view_of probes (adopted t0))
            (mk_view (Some t1) [true; false; false] [true; false; false] [("A", "/ip4/1.1.1.1/tcp/1")]) = false /\
  step_ok probes (Some t1) (view_of probes (adopted t0))
          (mk_view (Some t1) [true; false; false] [true; false; false] [("A", "/ip4/1.1.1.1/tcp/1")]) = true.
Proof. vm_compute. repeat split. Qed.

(* Non-vacuity: with a toy hash / decryption / parser, a genuine event is adopted and a wrong-hash,
   an upper-case-hash, an empty-hash and a short-ciphertext event are not. *)
Example C13_nonvacuous :
  let t0 := mk_topo [mk_peer "A" (Some "/ip4/1.1.1.1/tcp/1")] 1 in
  let t1 := mk_topo [mk_peer "B" (Some "/dns4/b/tcp/2"); mk_peer "C" (Some "/dns4/c/tcp/3")] 2 in
  let st := adopted t0 in
  let H := fun ct : bytes => if Nat.eqb (List.length ct) 17 then "ab" else "cd" in
  let parse := fun pt : bytes => if Nat.eqb (List.length pt) 17 then Some t1 else None in
  let body := repeat 48 34 in  (* 17 bytes 0x00 in hex *)
  let r := refresh H (fun ct => ct) parse st in
  r (mk_event ["zz"; "ab"] true body true) = (adopted t1, Adopted) /\
  r (mk_event ["ab"; "zz"] true body true) = (st, Rejected) /\
  r (mk_event ["AB"] true body true) = (st, Rejected) /\
  r (mk_event [""] true body true) = (st, EmptyHash) /\
  r (mk_event ["cd"] true (repeat 48 30) true) = (st, PanicDecrypt) /\
  r (mk_event ["ab"] true body false) = (st, StoreFailed) /\
  intercept_peer_dial (gate (adopted t1)) "B" = true /\ intercept_peer_dial (gate (adopted t1)) "A" = false.
Proof. vm_compute. repeat split. Qed.
