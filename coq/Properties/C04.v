(* C04 - Only sufficiently confirmed source events are relayed.
   This file contains only the property theorems (each closed by [exact]) and Print Assumptions. *)
From Coq Require Import List ZArith NArith Bool.
Import ListNotations.
From SygmaV Require Import Model.C04 Proofs.C04.
Local Open Scope Z_scope.

(* Every path with a confirmation setting: accepted only when buried under >= conf confirmations,
   for all integer triples. *)
Theorem C04_accept_safe_conf : forall p head blk conf,
  uses_conf p = true -> accept p head blk conf = true -> conf <= confirmations head blk.
Proof. exact accept_safe_conf. Qed.
Print Assumptions C04_accept_safe_conf.

(* Substrate paths: accepted only when the block is not above the finalized head. *)
Theorem C04_accept_safe_finalized : forall p head blk conf,
  uses_conf p = false -> accept p head blk conf = true -> blk <= head.
Proof. exact accept_safe_finalized. Qed.
Print Assumptions C04_accept_safe_finalized.

(* Conversely, the regular scan accepts exactly from one confirmation more than required. *)
Theorem C04_btc_scan_exact : forall head blk conf,
  accept BtcScan head blk conf = true <-> conf + 1 <= confirmations head blk.
Proof. exact btc_scan_exact. Qed.
Print Assumptions C04_btc_scan_exact.

(* History form: for every head-growth history (any list of heads, any start, any conf), a block
   is handled only at a poll whose head buries it deep enough ... *)
Theorem C04_scan_safe : forall cur conf k heads k' b,
  In (k', b) (scan cur conf k heads) ->
  exists h, nth_error heads (N.to_nat (k' - k)) = Some h /\ conf + 1 <= confirmations h b.
Proof. exact scan_safe. Qed.
Print Assumptions C04_scan_safe.

(* ... and is handled at the very poll at which it has one confirmation more than required. *)
Theorem C04_scan_live : forall c conf k h r,
  conf + 1 <= confirmations h c -> In (k, c) (scan (Some c) conf k (h :: r)).
Proof. exact scan_live_now. Qed.
Print Assumptions C04_scan_live.

(* The judge used on the implementation's observations accepts the model on every input ... *)
Theorem C04_single_ok_model : forall p head blk conf,
  single_ok p head blk conf (processed p head blk conf) = true.
Proof. exact single_ok_model. Qed.
Print Assumptions C04_single_ok_model.

(* ... whatever it accepts processed only sufficiently buried blocks (whichever block numbers the
   implementation actually handed on - not merely the one it was asked about) ... *)
Theorem C04_single_ok_safe : forall p head blk conf blocks b,
  single_ok p head blk conf blocks = true -> In b blocks ->
  (uses_conf p = true -> conf <= confirmations head b) /\ (uses_conf p = false -> b <= head).
Proof. exact single_ok_safe. Qed.
Print Assumptions C04_single_ok_safe.

(* ... and, for the regular scan, did process the block that had one confirmation to spare. *)
Theorem C04_single_ok_live : forall head blk conf blocks,
  single_ok BtcScan head blk conf blocks = true -> conf + 1 <= confirmations head blk -> In blk blocks.
Proof. exact single_ok_live. Qed.
Print Assumptions C04_single_ok_live.

(* Width of the Go types: the guards are stated over Z; wherever a guard accepts an input that the
   Go types can hold, the later narrowing conversion of the height is exact. *)
Theorem C04_sub_evt_fetch_exact : forall head blk conf,
  in_domain SubRetryEvt head blk = true -> accept SubRetryEvt head blk conf = true -> 0 <= blk < 2 ^ 32.
Proof. exact sub_evt_fetch_exact. Qed.
Print Assumptions C04_sub_evt_fetch_exact.

Theorem C04_btc_accept_fits_int64 : forall p head blk conf,
  (p = BtcScan \/ p = BtcRetryMsg) -> in_domain p head blk = true -> 0 <= conf ->
  accept p head blk conf = true -> blk < 2 ^ 63.
Proof. exact btc_accept_fits_int64. Qed.
Print Assumptions C04_btc_accept_fits_int64.

Theorem C04_hist_ok_model : forall cur conf k heads,
  hist_ok cur conf k heads (scan cur conf k heads) = true.
Proof. exact hist_ok_model. Qed.
Print Assumptions C04_hist_ok_model.

(* ... and whatever observation it accepts satisfies the safety statement. *)
Theorem C04_hist_ok_safe : forall cur conf k heads obs k' b,
  hist_ok cur conf k heads obs = true -> In (k', b) obs ->
  exists h, nth_error heads (N.to_nat (k' - k)) = Some h /\ conf <= confirmations h b /\ (k <= k')%N.
Proof. exact hist_ok_safe. Qed.
Print Assumptions C04_hist_ok_safe.

(* Non-vacuity: concrete accepted / rejected triples at the boundary. *)
Example C04_nonvacuous :
  accept BtcScan 105 100 5 = true /\ accept BtcScan 104 100 5 = false /\
  accept EvmRetryMsg 106 100 5 = true /\ accept EvmRetryMsg 105 100 5 = false /\
  scan None 2 0%N [10; 11; 12; 12; 14] = [(2%N, 10); (4%N, 11)] /\
  (* beyond the 32-bit boundary: a height whose low 32 bits are below the finalized head *)
  in_domain SubRetryEvt 100 (2 ^ 32 + 95) = true /\ accept SubRetryEvt 100 (2 ^ 32 + 95) 0 = false /\
  single_ok SubRetryEvt 100 (2 ^ 32 + 95) 0 [2 ^ 32 + 95] = false /\
  processed EvmRetryMsg (2 ^ 64 + 7) (2 ^ 64 + 1) 5 = [2 ^ 64 + 1; 2 ^ 64 + 1].
Proof. vm_compute. repeat split. Qed.
