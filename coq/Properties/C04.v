(* C04 - Only sufficiently confirmed source events are relayed.
   This file contains only the property theorems (each closed by [exact]) and Print Assumptions. *)
From Coq Require Import List ZArith NArith Bool Permutation.
Import ListNotations.
From SygmaV Require Import Model.C04 Proofs.C04.
Local Open Scope Z_scope.

(* Every path with a confirmation setting: accepted only when buried under >= conf confirmations,
   for all integer triples. *)
Theorem C04_accept_safe_conf : forall p head blk conf,
  uses_conf p = true -> accept p head blk conf = true -> conf <= confirmations head blk.
Proof. exact accept_safe_conf. Qed.
Print Assumptions C04_accept_safe_conf.

(* Substrate paths: accepted only when the block is not above the finalized head. *)
Theorem C04_accept_safe_finalized : forall p head blk conf,
  uses_conf p = false -> accept p head blk conf = true -> blk <= head.
Proof. exact accept_safe_finalized. Qed.
Print Assumptions C04_accept_safe_finalized.

(* Conversely, the regular scan accepts exactly from one confirmation more than required. *)
Theorem C04_btc_scan_exact : forall head blk conf,
  accept BtcScan head blk conf = true <-> conf + 1 <= confirmations head blk.
Proof. exact btc_scan_exact. Qed.
Print Assumptions C04_btc_scan_exact.

(* History form: for every head-growth history (any list of heads, any start, any conf), a block
   is handled only at a poll whose head buries it deep enough ... *)
Theorem C04_scan_safe : forall cur conf k heads k' b,
  In (k', b) (scan cur conf k heads) ->
  exists h, nth_error heads (N.to_nat (k' - k)) = Some h /\ conf + 1 <= confirmations h b.
Proof. exact scan_safe. Qed.
Print Assumptions C04_scan_safe.

(* ... and is handled at the very poll at which it has one confirmation more than required. *)
Theorem C04_scan_live : forall c conf k h r,
  conf + 1 <= confirmations h c -> In (k, c) (scan (Some c) conf k (h :: r)).
Proof. exact scan_live_now. Qed.
Print Assumptions C04_scan_live.

(* The judge used on the implementation's observations accepts the model on every input ... *)
Theorem C04_single_ok_model : forall p head blk conf,
  single_ok p head blk conf (processed p head blk conf) = true.
Proof. exact single_ok_model. Qed.
Print Assumptions C04_single_ok_model.

(* ... whatever it accepts processed only sufficiently buried blocks (whichever block numbers the
   implementation actually handed on - not merely the one it was asked about) ... *)
Theorem C04_single_ok_safe : forall p head blk conf blocks b,
  single_ok p head blk conf blocks = true -> In b blocks ->
  (uses_conf p = true -> conf <= confirmations head b) /\ (uses_conf p = false -> b <= head).
Proof. exact single_ok_safe. Qed.
Print Assumptions C04_single_ok_safe.

(* ... and, for the regular scan, did process the block that had one confirmation to spare. *)
Theorem C04_single_ok_live : forall head blk conf blocks,
  single_ok BtcScan head blk conf blocks = true -> conf + 1 <= confirmations head blk -> In blk blocks.
Proof. exact single_ok_live. Qed.
Print Assumptions C04_single_ok_live.

(* Width of the Go types: the guards are stated over Z; wherever a guard accepts an input that the
   Go types can hold, the later narrowing conversion of the height is exact. *)
Theorem C04_sub_evt_fetch_exact : forall head blk conf,
  in_domain SubRetryEvt head blk = true -> accept SubRetryEvt head blk conf = true -> 0 <= blk < 2 ^ 32.
Proof. exact sub_evt_fetch_exact. Qed.
Print Assumptions C04_sub_evt_fetch_exact.

Theorem C04_btc_accept_fits_int64 : forall p head blk conf,
  (p = BtcScan \/ p = BtcRetryMsg) -> in_domain p head blk = true -> 0 <= conf ->
  accept p head blk conf = true -> blk < 2 ^ 63.
Proof. exact btc_accept_fits_int64. Qed.
Print Assumptions C04_btc_accept_fits_int64.

Theorem C04_hist_ok_model : forall cur conf k heads,
  hist_ok cur conf k heads (scan cur conf k heads) = true.
Proof. exact hist_ok_model. Qed.
Print Assumptions C04_hist_ok_model.

(* ... and whatever observation it accepts satisfies the safety statement. *)
Theorem C04_hist_ok_safe : forall cur conf k heads obs k' b,
  hist_ok cur conf k heads obs = true -> In (k', b) obs ->
  exists h, nth_error heads (N.to_nat (k' - k)) = Some h /\ conf <= confirmations h b /\ (k <= k')%N.
Proof. exact hist_ok_safe. Qed.
Print Assumptions C04_hist_ok_safe.

(* ---- several retry requests in one range / batch, and concurrent evaluations on one handler ----
   The judge of a batch, a sequence or a concurrent schedule of guard evaluations is the
   single-evaluation judge applied pointwise: to each evaluation with the head THAT evaluation was
   served and the blocks THAT evaluation processed. *)
Theorem C04_multi_pointwise : forall conf evs obs,
  multi_ok conf evs obs = true <-> Forall2 (fun e o => eval_judge conf e o = true) evs obs.
Proof. exact multi_pointwise. Qed.
Print Assumptions C04_multi_pointwise.

(* ... so its verdict is the same for every order (schedule) in which the evaluations are listed. *)
Theorem C04_multi_schedule_independent : forall conf evs obs evs' obs',
  length evs = length obs -> length evs' = length obs' ->
  Permutation (combine evs obs) (combine evs' obs') ->
  multi_ok conf evs obs = multi_ok conf evs' obs'.
Proof. exact multi_schedule_independent. Qed.
Print Assumptions C04_multi_schedule_independent.

(* The pure per-evaluation guard satisfies it on every list of evaluations (unknown heads / event
   blocks included) ... *)
Theorem C04_multi_ok_model : forall conf evs, multi_ok conf evs (multi_model conf evs) = true.
Proof. exact multi_ok_model. Qed.
Print Assumptions C04_multi_ok_model.

(* ... and whatever it accepts: an evaluation processed something only if its head and its event
   block were known, and every block it processed is buried deep enough under ITS head. *)
Theorem C04_multi_ok_safe : forall conf evs obs p oh ob o b,
  multi_ok conf evs obs = true -> In ((p, oh, ob), o) (combine evs obs) -> In b o ->
  exists head blk, oh = Some head /\ ob = Some blk /\
    (uses_conf p = true -> conf <= confirmations head b) /\ (uses_conf p = false -> b <= head).
Proof. exact multi_ok_safe. Qed.
Print Assumptions C04_multi_ok_safe.

(* One call served one head with several retry requests in its range (flat observation). *)
Theorem C04_batch_ok_model : forall p head conf blks,
  batch_ok p head conf (batch_model p head conf blks) = true.
Proof. exact batch_ok_model. Qed.
Print Assumptions C04_batch_ok_model.

Theorem C04_batch_ok_safe : forall p head conf blocks b,
  batch_ok p head conf blocks = true -> In b blocks ->
  (uses_conf p = true -> conf <= confirmations head b) /\ (uses_conf p = false -> b <= head).
Proof. exact batch_ok_safe. Qed.
Print Assumptions C04_batch_ok_safe.

Theorem C04_batch_pointwise : forall p head conf (obs : list (list Z)),
  batch_ok p head conf (concat obs) = forallb (batch_ok p head conf) obs.
Proof. exact batch_pointwise. Qed.
Print Assumptions C04_batch_pointwise.

(* EVM retry by transaction hash over receipts with logs, "null" block numbers included. *)
Theorem C04_txs_ok_model : forall conf evs, txs_ok conf evs (txs_model conf evs) = true.
Proof. exact txs_ok_model. Qed.
Print Assumptions C04_txs_ok_model.

Theorem C04_txs_pointwise : forall conf evs obs,
  txs_ok conf evs obs = true <-> Forall2 (fun e o => tx_ok conf e o = true) evs obs.
Proof. exact txs_pointwise. Qed.
Print Assumptions C04_txs_pointwise.

Theorem C04_tx_ok_safe : forall conf served oh orb logs obs i,
  tx_ok conf (served, oh, orb, logs) obs = true -> In i obs ->
  exists h m lb b, oh = Some h /\ nth_error logs (N.to_nat i) = Some (m, lb) /\
    (orb = Some b \/ lb = Some b) /\ conf <= confirmations h b.
Proof. exact tx_ok_safe. Qed.
Print Assumptions C04_tx_ok_safe.

(* Non-vacuity: concrete accepted / rejected triples at the boundary. *)
Example C04_nonvacuous :
  accept BtcScan 105 100 5 = true /\ accept BtcScan 104 100 5 = false /\
  accept EvmRetryMsg 106 100 5 = true /\ accept EvmRetryMsg 105 100 5 = false /\
  scan None 2 0%N [10; 11; 12; 12; 14] = [(2%N, 10); (4%N, 11)] /\
  (* beyond the 32-bit boundary: a height whose low 32 bits are below the finalized head *)
  in_domain SubRetryEvt 100 (2 ^ 32 + 95) = true /\ accept SubRetryEvt 100 (2 ^ 32 + 95) 0 = false /\
  single_ok SubRetryEvt 100 (2 ^ 32 + 95) 0 [2 ^ 32 + 95] = false /\
  processed EvmRetryMsg (2 ^ 64 + 7) (2 ^ 64 + 1) 5 = [2 ^ 64 + 1; 2 ^ 64 + 1] /\
  (* two retries inside one handler at head 200, 5 confirmations: 198 refused, 100 served; a run in
     which the refused one was processed all the same is rejected, whichever way it is listed *)
  multi_model 5 [(EvmRetryMsg, Some 200, Some 198); (EvmRetryMsg, Some 200, Some 100)] = [[]; [100; 100]] /\
  multi_ok 5 [(EvmRetryMsg, Some 200, Some 198); (EvmRetryMsg, Some 200, Some 100)] [[198; 198]; [100; 100]] = false /\
  multi_ok 5 [(EvmRetryMsg, Some 200, Some 100); (EvmRetryMsg, Some 200, Some 198)] [[100; 100]; [198; 198]] = false /\
  (* a transaction that is in no block: nothing may be processed at any head *)
  eval_ok EvmRetryTx (Some 1000000) None 5 [0] = false /\ eval_ok EvmRetryTx (Some 1000000) None 5 [] = true /\
  (* one range, finalized head 100, three Retry events *)
  batch_model SubRetryEvt 100 0 [101; 100; 101] = [100] /\ batch_ok SubRetryEvt 100 0 [100; 101] = false /\
  (* receipts: mined in 94 at head 100 (5 confirmations) with a foreign log; in no block at all *)
  txs_model 5 [(true, Some 100, Some 94, [(true, Some 94); (false, Some 94); (true, Some 94)]);
               (true, Some 100, None, [(true, None)])] = [[0%N; 2%N]; []] /\
  tx_ok 5 (true, Some 100, None, [(true, None)]) [0%N] = false.
Proof. vm_compute. repeat split. Qed.
