(* C04 - Only sufficiently confirmed source events are relayed.
   This file contains only the property theorems (each closed by [exact]) and Print Assumptions. *)
From Coq Require Import List ZArith NArith Bool Permutation.
Import ListNotations.
From SygmaV Require Import Model.C04 Proofs.C04.
Local Open Scope Z_scope.

(* Every path with a confirmation setting: accepted only when buried under >= conf confirmations,
   for all integer triples. *)
Theorem C04_accept_safe_conf : forall p head blk conf,
  uses_conf p = true -> accept p head blk conf = true -> conf <= confirmations head blk.
Proof. exact accept_safe_conf. Qed.
Print Assumptions C04_accept_safe_conf.

(* Substrate paths: accepted only when the block is not above the finalized head. *)
Theorem C04_accept_safe_finalized : forall p head blk conf,
  uses_conf p = false -> accept p head blk conf = true -> blk <= head.
Proof. exact accept_safe_finalized. Qed.
Print Assumptions C04_accept_safe_finalized.

(* Conversely, the regular scan accepts exactly from one confirmation more than required. *)
Theorem C04_btc_scan_exact : forall head blk conf,
  accept BtcScan head blk conf = true <-> conf + 1 <= confirmations head blk.
Proof. exact btc_scan_exact. Qed.
Print Assumptions C04_btc_scan_exact.

(* History form: for every history of polls - head lookups that were answered with any height or
   that failed -, any start, any conf: a block is handled only at a poll that was answered and whose
   head buries it deep enough, never at a poll whose head lookup failed ... *)
Theorem C04_scan_safe : forall cur conf k polls k' b,
  In (k', b) (scan cur conf k polls) ->
  exists h, nth_error polls (N.to_nat (k' - k)) = Some (Some h) /\ conf + 1 <= confirmations h b.
Proof. exact scan_safe. Qed.
Print Assumptions C04_scan_safe.

Theorem C04_scan_failed_poll : forall cur conf k r b, ~ In (k, b) (scan cur conf k (None :: r)).
Proof. exact scan_failed_poll. Qed.
Print Assumptions C04_scan_failed_poll.

(* ... and is handled at the very poll at which it has one confirmation more than required. *)
Theorem C04_scan_live : forall c conf k h r,
  conf + 1 <= confirmations h c -> In (k, c) (scan (Some c) conf k (Some h :: r)).
Proof. exact scan_live_now. Qed.
Print Assumptions C04_scan_live.

(* The judge used on the implementation's observations accepts the model on every input ... *)
Theorem C04_single_ok_model : forall p head blk conf,
  single_ok p head blk conf (processed p head blk conf) = true.
Proof. exact single_ok_model. Qed.
Print Assumptions C04_single_ok_model.

(* ... whatever it accepts processed only sufficiently buried blocks (whichever block numbers the
   implementation actually handed on - not merely the one it was asked about) ... *)
Theorem C04_single_ok_safe : forall p head blk conf blocks b,
  single_ok p head blk conf blocks = true -> In b blocks ->
  (uses_conf p = true -> conf <= confirmations head b) /\ (uses_conf p = false -> b <= head).
Proof. exact single_ok_safe. Qed.
Print Assumptions C04_single_ok_safe.

(* ... and, for the regular scan, did process the block that had one confirmation to spare. *)
Theorem C04_single_ok_live : forall head blk conf blocks,
  single_ok BtcScan head blk conf blocks = true -> conf + 1 <= confirmations head blk -> In blk blocks.
Proof. exact single_ok_live. Qed.
Print Assumptions C04_single_ok_live.

(* Width of the Go types: the guards are stated over Z; wherever a guard accepts an input that the
   Go types can hold, the later narrowing conversion of the height is exact. *)
Theorem C04_sub_evt_fetch_exact : forall head blk conf,
  in_domain SubRetryEvt head blk = true -> accept SubRetryEvt head blk conf = true -> 0 <= blk < 2 ^ 32.
Proof. exact sub_evt_fetch_exact. Qed.
Print Assumptions C04_sub_evt_fetch_exact.

Theorem C04_btc_accept_fits_int64 : forall p head blk conf,
  (p = BtcScan \/ p = BtcRetryMsg) -> in_domain p head blk = true -> 0 <= conf ->
  accept p head blk conf = true -> blk < 2 ^ 63.
Proof. exact btc_accept_fits_int64. Qed.
Print Assumptions C04_btc_accept_fits_int64.

Theorem C04_hist_ok_model : forall cur best conf k polls,
  hist_ok cur best conf k polls (scan cur conf k polls) = true.
Proof. exact hist_ok_model. Qed.
Print Assumptions C04_hist_ok_model.

(* ... whatever observation it accepts satisfies the safety statement: every handled block had its
   confirmations under a head the loop had been served by then (at that poll or an earlier one; a
   failed lookup is no head) - however many blocks a poll handled ... *)
Theorem C04_hist_ok_safe : forall cur conf k polls obs k' b,
  hist_ok cur None conf k polls obs = true -> In (k', b) obs ->
  exists j h, (j <= N.to_nat (k' - k))%nat /\ nth_error polls j = Some (Some h) /\
    conf <= confirmations h b /\ (k <= k')%N.
Proof. exact hist_ok_safe. Qed.
Print Assumptions C04_hist_ok_safe.

(* ... and the liveness statement: a poll served a head under which the cursor block has a
   confirmation to spare handled it. *)
Theorem C04_hist_ok_live : forall c best conf k h r obs,
  hist_ok (Some c) best conf k (Some h :: r) obs = true -> conf + 1 <= confirmations h c -> In (k, c) obs.
Proof. exact hist_ok_live. Qed.
Print Assumptions C04_hist_ok_live.

(* ---- several retry requests in one range / batch, and concurrent evaluations on one handler ----
   The judge of a batch, a sequence or a concurrent schedule of guard evaluations is the
   single-evaluation judge applied pointwise: to each evaluation with the head THAT evaluation was
   served and the blocks THAT evaluation processed. *)
Theorem C04_multi_pointwise : forall conf evs obs,
  multi_ok conf evs obs = true <-> Forall2 (fun e o => eval_judge conf e o = true) evs obs.
Proof. exact multi_pointwise. Qed.
Print Assumptions C04_multi_pointwise.

(* ... so its verdict is the same for every order (schedule) in which the evaluations are listed. *)
Theorem C04_multi_schedule_independent : forall conf evs obs evs' obs',
  length evs = length obs -> length evs' = length obs' ->
  Permutation (combine evs obs) (combine evs' obs') ->
  multi_ok conf evs obs = multi_ok conf evs' obs'.
Proof. exact multi_schedule_independent. Qed.
Print Assumptions C04_multi_schedule_independent.

(* The pure per-evaluation guard satisfies it on every list of evaluations (unknown heads / event
   blocks included) ... *)
Theorem C04_multi_ok_model : forall conf evs, multi_ok conf evs (multi_model conf evs) = true.
Proof. exact multi_ok_model. Qed.
Print Assumptions C04_multi_ok_model.

(* ... and whatever it accepts: an evaluation processed something only if its head and its event
   block were known, and every block it processed is buried deep enough under ITS head. *)
Theorem C04_multi_ok_safe : forall conf evs obs p oh ob o b,
  multi_ok conf evs obs = true -> In ((p, oh, ob), o) (combine evs obs) -> In b o ->
  exists head blk, oh = Some head /\ ob = Some blk /\
    (uses_conf p = true -> conf <= confirmations head b) /\ (uses_conf p = false -> b <= head).
Proof. exact multi_ok_safe. Qed.
Print Assumptions C04_multi_ok_safe.

(* One call served one head with several retry requests in its range (flat observation). *)
Theorem C04_batch_ok_model : forall p head conf blks,
  batch_ok p head conf (batch_model p head conf blks) = true.
Proof. exact batch_ok_model. Qed.
Print Assumptions C04_batch_ok_model.

Theorem C04_batch_ok_safe : forall p head conf blocks b,
  batch_ok p head conf blocks = true -> In b blocks ->
  (uses_conf p = true -> conf <= confirmations head b) /\ (uses_conf p = false -> b <= head).
Proof. exact batch_ok_safe. Qed.
Print Assumptions C04_batch_ok_safe.

Theorem C04_batch_pointwise : forall p head conf (obs : list (list Z)),
  batch_ok p head conf (concat obs) = forallb (batch_ok p head conf) obs.
Proof. exact batch_pointwise. Qed.
Print Assumptions C04_batch_pointwise.

(* ---- the lookups that establish the bound (head / finalized head) may fail, stall or advance ----
   The unchanged code - one lookup per evaluation, decided on its answer, an error ends the
   evaluation - is accepted whatever else the handler has been served, before or afterwards ... *)
Theorem C04_lookup_ok_model : forall p answers a oblk conf,
  In a answers -> lookup_ok p answers oblk conf (processed_opt p a oblk conf) = true.
Proof. exact lookup_ok_model. Qed.
Print Assumptions C04_lookup_ok_model.

(* ... also along a whole script on one long-lived handler (evaluation i decides on answer i, the
   handler having been served the answers 0..i), which is judged evaluation by evaluation ... *)
Theorem C04_scripted_ok_model : forall p conf seen script blks,
  scripted_ok p conf
    (combine (combine blks (served_so_far seen script blks)) (scripted_model p conf script blks)) = true.
Proof. exact scripted_ok_model_gen. Qed.
Print Assumptions C04_scripted_ok_model.

Theorem C04_scripted_pointwise : forall p conf evs,
  scripted_ok p conf evs = true <->
  Forall (fun e => match e with (oblk, served, blocks) => lookup_ok p served oblk conf blocks = true end) evs.
Proof. exact scripted_pointwise. Qed.
Print Assumptions C04_scripted_pointwise.

(* ... whatever the judge accepts processed something only if the event block was known, and only
   blocks buried deep enough under a head that was really served to this evaluation ... *)
Theorem C04_lookup_ok_safe : forall p answers oblk conf blocks b,
  lookup_ok p answers oblk conf blocks = true -> In b blocks ->
  exists h blk, In (Some h) answers /\ oblk = Some blk /\
    (uses_conf p = true -> conf <= confirmations h b) /\ (uses_conf p = false -> b <= h).
Proof. exact lookup_ok_safe. Qed.
Print Assumptions C04_lookup_ok_safe.

(* ... so when every lookup failed nothing was processed (an error or a skip are both fine). *)
Theorem C04_lookup_ok_all_failed : forall p answers oblk conf blocks,
  (forall a, In a answers -> a = None) -> lookup_ok p answers oblk conf blocks = true -> blocks = [].
Proof. exact lookup_ok_all_failed. Qed.
Print Assumptions C04_lookup_ok_all_failed.

(* One range whose one bound lookup may fail. *)
Theorem C04_batch_opt_model : forall p ohead conf blks,
  bound_ok p ohead conf (batch_model_opt p ohead conf blks) = true.
Proof. exact batch_opt_model. Qed.
Print Assumptions C04_batch_opt_model.

Theorem C04_bound_ok_safe : forall p obound conf blocks b,
  bound_ok p obound conf blocks = true -> In b blocks ->
  exists h, obound = Some h /\
    (uses_conf p = true -> conf <= confirmations h b) /\ (uses_conf p = false -> b <= h).
Proof. exact bound_ok_safe. Qed.
Print Assumptions C04_bound_ok_safe.

(* EVM retry by transaction hash over receipts with logs, "null" block numbers included. *)
Theorem C04_txs_ok_model : forall conf evs, txs_ok conf evs (txs_model conf evs) = true.
Proof. exact txs_ok_model. Qed.
Print Assumptions C04_txs_ok_model.

Theorem C04_txs_pointwise : forall conf evs obs,
  txs_ok conf evs obs = true <-> Forall2 (fun e o => tx_ok conf e o = true) evs obs.
Proof. exact txs_pointwise. Qed.
Print Assumptions C04_txs_pointwise.

Theorem C04_tx_ok_safe : forall conf served oh orb logs obs i,
  tx_ok conf (served, oh, orb, logs) obs = true -> In i obs ->
  exists h m lb b, oh = Some h /\ nth_error logs (N.to_nat i) = Some (m, lb) /\
    (orb = Some b \/ lb = Some b) /\ conf <= confirmations h b.
Proof. exact tx_ok_safe. Qed.
Print Assumptions C04_tx_ok_safe.

(* Non-vacuity: concrete accepted / rejected triples at the boundary. *)
Example C04_nonvacuous :
  accept BtcScan 105 100 5 = true /\ accept BtcScan 104 100 5 = false /\
  accept EvmRetryMsg 106 100 5 = true /\ accept EvmRetryMsg 105 100 5 = false /\
  scan None 2 0%N [Some 10; Some 11; Some 12; None; Some 12; Some 14] = [(2%N, 10); (5%N, 11)] /\
  (* a backlog: the unchanged loop handles one block per poll; an observation with several buried
     blocks at one poll is accepted, one that runs up to head - 1 is not *)
  hist_ok (Some 100) None 6 0%N [Some 200] [(0%N, 100); (0%N, 101); (0%N, 102)] = true /\
  hist_ok (Some 193) None 6 0%N [Some 200] [(0%N, 193); (0%N, 194); (0%N, 195); (0%N, 196)] = false /\
  (* a block handled at a poll whose head lookup failed: fine if an earlier head buries it, not without *)
  hist_ok (Some 100) None 6 0%N [Some 200; None] [(0%N, 100); (1%N, 101)] = true /\
  hist_ok (Some 100) None 6 0%N [None; Some 200] [(0%N, 100)] = false /\
  (* beyond the 32-bit boundary: a height whose low 32 bits are below the finalized head *)
  in_domain SubRetryEvt 100 (2 ^ 32 + 95) = true /\ accept SubRetryEvt 100 (2 ^ 32 + 95) 0 = false /\
  single_ok SubRetryEvt 100 (2 ^ 32 + 95) 0 [2 ^ 32 + 95] = false /\
  processed EvmRetryMsg (2 ^ 64 + 7) (2 ^ 64 + 1) 5 = [2 ^ 64 + 1; 2 ^ 64 + 1] /\
  (* two retries inside one handler at head 200, 5 confirmations: 198 refused, 100 served; a run in
     which the refused one was processed all the same is rejected, whichever way it is listed *)
  multi_model 5 [(EvmRetryMsg, Some 200, Some 198); (EvmRetryMsg, Some 200, Some 100)] = [[]; [100; 100]] /\
  multi_ok 5 [(EvmRetryMsg, Some 200, Some 198); (EvmRetryMsg, Some 200, Some 100)] [[198; 198]; [100; 100]] = false /\
  multi_ok 5 [(EvmRetryMsg, Some 200, Some 100); (EvmRetryMsg, Some 200, Some 198)] [[100; 100]; [198; 198]] = false /\
  (* a transaction that is in no block: nothing may be processed at any head *)
  eval_ok EvmRetryTx (Some 1000000) None 5 [0] = false /\ eval_ok EvmRetryTx (Some 1000000) None 5 [] = true /\
  (* one range, finalized head 100, three Retry events *)
  batch_model SubRetryEvt 100 0 [101; 100; 101] = [100] /\ batch_ok SubRetryEvt 100 0 [100; 101] = false /\
  (* the finalized-head lookup of the range failed: nothing may be relayed *)
  batch_model_opt SubRetryEvt None 0 [105] = [] /\ bound_ok SubRetryEvt None 0 [105] = false /\
  (* retry of a deposit in block 14, 5 confirmations: the head stalls at 17 - returning the deposit
     after five polls is rejected; a head that advances to 20 while the call waits is fine; a failed
     lookup followed by nothing else is no bound *)
  lookup_model EvmRetryTx [Some 17; Some 17] (Some 14) 5 = [] /\
  lookup_ok EvmRetryTx [Some 17; Some 17; Some 17; Some 17; Some 17; Some 17] (Some 14) 5 [14] = false /\
  lookup_ok EvmRetryTx [Some 17; Some 18; Some 20] (Some 14) 5 [14] = true /\
  lookup_ok SubRetryEvt [None] (Some 105) 0 [105] = false /\
  (* a handler that was served head 200 before: its second call, whose lookup fails, may rely on 200 -
     for block 150, not for block 205 *)
  scripted_model EvmRetryMsg 5 [Some 200; None] [Some 100; Some 150] = [[100; 100]; []] /\
  scripted_ok EvmRetryMsg 5 [(Some 100, [Some 200], [100; 100]); (Some 150, [Some 200; None], [150; 150])] = true /\
  scripted_ok EvmRetryMsg 5 [(Some 100, [Some 200], [100; 100]); (Some 205, [Some 200; None], [205; 205])] = false /\
  (* receipts: mined in 94 at head 100 (5 confirmations) with a foreign log; in no block at all *)
  txs_model 5 [(true, Some 100, Some 94, [(true, Some 94); (false, Some 94); (true, Some 94)]);
               (true, Some 100, None, [(true, None)])] = [[0%N; 2%N]; []] /\
  tx_ok 5 (true, Some 100, None, [(true, None)]) [0%N] = false.
Proof. vm_compute. repeat split. Qed.
